"""Shared protocol vocabulary for the scan-loop combinators: role sites, child identity, index
agreement, arm (tuple) guards, maybe-initialised guards."""
from .mir import op_place, op_local, place_str
from .sites import BodyInfo, peel_type
from .terms import subterms, term_str, simple_name

READY = ("ReadinessArray", "ReadinessVec")
WAKERS = ("WakerArray", "WakerVec")


def register_sites(bi):
    return bi.sites_named("set_waker", READY)


def disarm_sites(bi):
    return bi.sites_named("clear_ready", READY)


def arm_sites(bi):
    return bi.sites_named("set_ready", READY)


def arm_all_sites(bi):
    return bi.sites_named("set_all_ready", READY)


def any_ready_sites(bi):
    return bi.sites_named("any_ready", READY)


def lock_sites(bi):
    return bi.sites_named("readiness", WAKERS)


def subwaker_sites(bi):
    return bi.sites_named("get", WAKERS)


def strip_index(t):
    """('index', base, idx) -> (base, idx); else (t, None)"""
    if t is not None and t[0] == "index":
        return t[1], t[2]
    return t, None


PRED_VARIANT = {"is_pending": "Pending", "is_ready": "Ready", "is_none": "None"}


class DiscrTest:
    """A `match` / `matches!` on a PollState place, presented like a predicate call site:
    outcome_edges(test, True/False) are the edges on which the place is / is not the variant."""

    def __init__(self, bi, entry, variant):
        self.block = entry["block"]
        self._subject = entry["subject"]
        self.where = bi.describe(entry["block"])
        te, fe = [], []
        for lab, tb in entry["edges"].items():
            if tb is None:
                continue
            if lab == variant:
                te.append((self.block, tb))
            elif lab == "otherwise" and variant in entry.get("otherwise_names", []):
                # the variant hides in the default arm together with others: neither edge set is exact
                te.append((self.block, tb)) if len(entry.get("otherwise_names", [])) == 1 else None
                if len(entry.get("otherwise_names", [])) != 1:
                    fe = None
                    break
            else:
                fe.append((self.block, tb))
        self.pseudo_edges = {True: te, False: fe or []}
        self.exact = fe is not None

    def arg(self, i):
        return self._subject if i == 0 else None

    @property
    def callee(self):
        return None


def state_tests(bi, name):
    """Tests of a slot state: PollState::{is_pending,is_ready,is_none} call sites and direct
    discriminant matches on a PollState place -> list of (test, idx_term, base_term)."""
    out = []
    for s in bi.sites_named(name, ("PollState",)):
        a = s.arg(0)
        base, idx = strip_index(a)
        out.append((s, idx, base))
    variant = PRED_VARIANT.get(name)
    if variant:
        for e in bi.switches:
            if e["kind"] != "discr":
                continue
            names = set(l for l in e["edges"] if l != "otherwise") | set(e.get("otherwise_names", []))
            if names != {"None", "Pending", "Ready"}:
                continue
            t = DiscrTest(bi, e, variant)
            if not t.exact:
                continue
            base, idx = strip_index(e["subject"])
            out.append((t, idx, base))
    return out


STATE_SETTERS = {"set_ready": "Ready", "set_none": "None", "set_pending": "Pending"}


def state_sets(bi):
    """All per-slot state writes: (block, variant, idx_term, base_term, where).  Covers the
    PollState::set_* helpers and direct `states[i] = PollState::X` assignments."""
    out = []
    for s in bi.sites:
        if s.callee.owner == "PollState" and s.callee.name in STATE_SETTERS:
            base, idx = strip_index(s.arg(0))
            out.append((s.block, STATE_SETTERS[s.callee.name], idx, base, s.where))
    body = bi.body
    for b in sorted(body.reachable):
        if body.is_cleanup(b):
            continue
        for i, st in enumerate(body.stmts(b)):
            if st["k"] != "assign":
                continue
            lhs = st["lhs"]
            if not lhs["p"]:
                continue
            vt = bi.T.of_rvalue(st["rv"], 0)
            if vt[0] == "agg" and isinstance(vt[1], tuple) and vt[1][0] == "PollState":
                t = bi.T.of_place(lhs)
                base, idx = strip_index(t)
                out.append((b, vt[1][1], idx, base, st.get("sp", "")))
    return out


def state_set_all(bi):
    """set_all_none / set_all_pending / fill-style whole-table resets: (block, variant, where)"""
    out = []
    for s in bi.sites:
        if s.callee.owner in ("PollArray", "PollVec") and s.callee.name in ("set_all_none", "set_all_pending"):
            out.append((s.block, "None" if s.callee.name.endswith("none") else "Pending", s.where))
    return out


# ---------------------------------------------------------------------------------------------
# child identity
# ---------------------------------------------------------------------------------------------

def tuple_param_positions(model, member):
    """For a tuple member: name of the poll impl's type parameter -> tuple position."""
    F = model.F
    impl = member.impl
    st = F.types[impl["self_ty"]]
    if st["k"] != "tuple":
        return {}
    fam_params = {}
    for k, tix in enumerate(st["tys"]):
        t = F.types[tix]
        if t["k"] == "param":
            fam_params[t["name"]] = k
    assoc = None
    for it in impl["items"]:
        if it["kind"] == "type" and it["ty"] is not None:
            t = F.types[it["ty"]]
            if t["k"] == "adt" and t["cpath"] == member.adt:
                assoc = t
    if assoc is None or member.poll is None or member.poll.impl_self is None:
        return {}
    struct_pos = {}  # struct arg position -> tuple position
    for j, a in enumerate(assoc["args"]):
        if not isinstance(a, int):
            continue
        t = F.types[a]
        name = None
        if t["k"] == "param":
            name = t["name"]
        elif t["k"] == "alias" and t["args"] and isinstance(t["args"][0], int):
            t0 = F.types[t["args"][0]]
            if t0["k"] == "param":
                name = t0["name"]
        if name in fam_params:
            struct_pos[j] = fam_params[name]
    ps = F.types[member.poll.impl_self]
    out = {}
    if ps["k"] == "adt":
        for j, a in enumerate(ps["args"]):
            if isinstance(a, int) and j in struct_pos:
                t = F.types[a]
                if t["k"] == "param":
                    out[t["name"]] = struct_pos[j]
    return out


def cps_param(bi, site):
    """Name of the type parameter a child poll is dispatched on (after peeling pointers)."""
    c = site.callee
    if c.self_ty is None:
        return None
    inner = peel_type(bi.facts, c.self_ty)
    if inner["k"] == "param":
        return inner["name"]
    return None


def root_call(t):
    """Innermost call term reached by stripping field/variant/index projections."""
    while t is not None and t[0] in ("field", "variant", "index"):
        t = t[1]
    return t if t is not None and t[0] == "call" else None


def loop_item_root(t):
    """If t is (a projection of) `next(iter)@Some.0`, return the `next` call term."""
    r = root_call(t)
    if r is not None and r[1][1] == "next":
        return r
    return None


def proj_path(t):
    """Projection path (outermost last) from the root of t."""
    path = []
    while t is not None and t[0] in ("field", "variant", "index"):
        path.append((t[0], t[2]))
        t = t[1]
    return list(reversed(path))


# ---------------------------------------------------------------------------------------------
# arms: tuple bodies select the child with `if K == index` chains or `match index { K => }`
# ---------------------------------------------------------------------------------------------

def const_of(t):
    if t is None:
        return None
    if t[0] == "const":
        return t[1]
    if t[0] == "cast" and t[2][0] == "const":
        return t[2][1]
    return None


class Arms:
    """All equality tests of one index term against constants."""

    def __init__(self, bi, idx_term):
        self.bi = bi
        self.idx = idx_term
        self.true_edges = {}    # K -> [edge]
        self.false_edges = {}   # K -> [edge]
        self.other_edges = []   # 'otherwise' edges of int switches
        for e in bi.switches:
            s = e["subject"]
            if e["kind"] == "bool" and s[0] == "binop" and s[1] == "Eq":
                a, b = s[2], s[3]
                k = None
                if a == idx_term and const_of(b) is not None:
                    k = const_of(b)
                elif b == idx_term and const_of(a) is not None:
                    k = const_of(a)
                if k is None:
                    continue
                te, fe = bi.edge(e, True), bi.edge(e, False)
                if te:
                    self.true_edges.setdefault(k, []).append(te)
                if fe:
                    self.false_edges.setdefault(k, []).append(fe)
            elif e["kind"] == "int" and s == idx_term:
                for lab, tb in e["edges"].items():
                    if lab == "otherwise":
                        self.other_edges.append((e["block"], tb))
                    else:
                        self.true_edges.setdefault(int(lab), []).append((e["block"], tb))
                # edges for other values are the "false" edges of K
                for lab, tb in e["edges"].items():
                    for k in [x for x in e["edges"] if x != "otherwise"]:
                        if lab != k:
                            self.false_edges.setdefault(int(k), []).append((e["block"], tb))

    @property
    def constants(self):
        return sorted(self.true_edges)

    def arm_of(self, block):
        """The constant K whose true edge guards `block` (None if none / ambiguous)."""
        ks = [k for k, es in self.true_edges.items() if self.bi.guarded_by(block, es)]
        if len(ks) == 1:
            return ks[0]
        return None

    def infeasible_for(self, k):
        """Edges that cannot be taken in an iteration where idx == k."""
        out = []
        for k2, es in self.true_edges.items():
            if k2 != k:
                out.extend(es)
        out.extend(self.false_edges.get(k, []))
        out.extend(self.other_edges)
        return [e for e in out if e not in self.true_edges.get(k, [])]

    def default_edges(self):
        """Edges of the 'no arm matched' path (false edge of every test)."""
        return self.other_edges


# ---------------------------------------------------------------------------------------------
# maybe-initialised dataflow for guard-typed locals
# ---------------------------------------------------------------------------------------------

def guard_locals(body):
    out = set()
    for i, l in enumerate(body.locals):
        t = body.facts.types[l["ty"]]
        if t["k"] == "adt" and simple_name(t["cpath"]) == "MutexGuard":
            out.add(i)
    return out


def mentions_param(F, tix, depth=0):
    """does type `tix` mention a type parameter (i.e. may dropping it run user code)?"""
    if not isinstance(tix, int) or depth > 6:
        return False
    t = F.types[tix]
    k = t["k"]
    if k == "alias" and t.get("akind") == "Opaque":
        # an iterator handing out references borrows its elements from elsewhere: dropping it drops no element
        s = t.get("s", "")
        for pre in ("impl std::iter::Iterator<Item = ", "impl core::iter::Iterator<Item = ", "impl std::iter::DoubleEndedIterator<Item = "):
            if s.startswith(pre):
                item = s[len(pre):]
                if item.startswith(("&", "std::pin::Pin<&", "core::pin::Pin<&", "(usize, &", "(usize, std::pin::Pin<&")):
                    return False
        return True
    if k in ("param", "alias", "opaque", "dynamic", "dyn", "closure", "coroutine", "other"):
        return True
    if k in ("ref", "ptr", "fnptr", "fndef", "prim", "never", "str"):
        return False
    for key in ("args", "tys"):
        for a in t.get(key) or []:
            if isinstance(a, int) and mentions_param(F, a, depth + 1):
                return True
    for key in ("ty", "elem", "inner"):
        if isinstance(t.get(key), int) and mentions_param(F, t[key], depth + 1):
            return True
    return False


def user_leaves(F, tix, depth=0):
    """number of user-typed leaves of a type built from Poll / Option / Result / tuples (None when the type is
    anything else that mentions a parameter): moving the only leaf out leaves nothing that runs user code"""
    if not isinstance(tix, int) or depth > 6:
        return None
    t = F.types[tix]
    k = t["k"]
    if k in ("param", "alias"):
        return 1 if mentions_param(F, tix) else 0
    if k == "tuple":
        n = 0
        for a in t.get("tys") or []:
            x = user_leaves(F, a, depth + 1)
            if x is None:
                return None
            n += x
        return n
    if k == "adt" and simple_name(t.get("cpath")) in ("Poll", "Option", "Result", "ControlFlow"):
        # one variant at a time: the payloads of different variants are alternatives
        n = 0
        for a in t.get("args") or []:
            if isinstance(a, int):
                x = user_leaves(F, a, depth + 1)
                if x is None:
                    return None
                n = max(n, x)
        return n
    if not mentions_param(F, tix):
        return 0
    return None


def user_drop_points(bi):
    """(block, description, local or None) of the points of a body where a value of a user-supplied type may be dropped:
    MIR drop terminators of locals whose type mentions a type parameter, and calls of the explicit drop helpers."""
    body = bi.body
    F = body.facts
    out = []
    for b in sorted(body.reachable):
        if body.is_cleanup(b):
            continue
        t = body.term(b)
        if t["k"] == "drop":
            p = t["place"]
            l = p["l"]
            ty = body.locals[l]["ty"]
            tt = F.types[ty]
            if tt["k"] == "adt" and simple_name(tt.get("cpath")) in ("MutexGuard", "Context", "Waker"):
                continue
            if mentions_param(F, ty):
                out.append((b, "drop of _%d: %s" % (l, tt.get("s")), l if not p["p"] else None))
        elif t["k"] == "call":
            s = bi.by_block.get(b)
            if s is None or s.callee.indirect:
                continue
            c = s.callee
            if c.key in (("ManuallyDrop", "drop"), ("core::ptr::drop_in_place", "drop_in_place"), ("Slab", "clear"), ("Vec", "clear"), ("Vec", "truncate")) or \
                    (c.name in ("drop", "drop_in_place") and c.owner in ("FutureArray", "FutureVec", "OutputArray", "OutputVec", "ManuallyDrop", "MaybeUninit")) or \
                    c.name == "assume_init_drop":
                out.append((b, "%s::%s" % c.key, None))
            elif c.key == ("core::mem::drop", "drop") and t["args"]:
                from .mir import op_place
                p = op_place(t["args"][0])
                if p is not None and mentions_param(F, body.locals[p["l"]]["ty"]):
                    out.append((b, "mem::drop of a user value", None))
    return out


def maybe_init(body, tracked, single_leaf=()):
    """Forward may-analysis: for each block, the set of tracked locals possibly initialised at
    block entry.  gen: whole assignment / call destination; kill: move out, Drop, StorageDead.
    For locals in `single_leaf` (wrappers around one user value) a move out of a projection kills too."""
    IN = {b: set() for b in range(body.n)}
    OUT = {}

    def moved(p):
        return p["l"] in tracked and (not p["p"] or p["l"] in single_leaf)

    def transfer(b, state):
        st = set(state)
        for s in body.stmts(b):
            if s["k"] == "assign":
                rv = s["rv"]
                if rv["k"] == "use" and "mv" in rv["op"]:
                    p = rv["op"]["mv"]
                    if moved(p):
                        st.discard(p["l"])
                if rv["k"] == "agg":
                    for f in rv["fields"]:
                        if "mv" in f and moved(f["mv"]):
                            st.discard(f["mv"]["l"])
                lhs = s["lhs"]
                if not lhs["p"] and lhs["l"] in tracked:
                    st.add(lhs["l"])
            elif s["k"] == "dead":
                st.discard(s["l"])
        return st

    work = list(body._rpo) if body.idom and hasattr(body, "_rpo") else list(range(body.n))
    changed = True
    iters = 0
    while changed and iters < 50:
        changed = False
        iters += 1
        for b in work:
            st = transfer(b, IN[b])
            t = body.term(b)
            at_term = set(st)
            out_state = set(st)
            if t["k"] == "call":
                for a in t["args"]:
                    if "mv" in a and moved(a["mv"]):
                        out_state.discard(a["mv"]["l"])
                d = t["dest"]
                if not d["p"] and d["l"] in tracked:
                    out_state.add(d["l"])
            elif t["k"] == "drop":
                p = t["place"]
                if not p["p"] and p["l"] in tracked:
                    out_state.discard(p["l"])
            OUT[b] = (at_term, out_state)
            for tb in body.succs(b):
                if not out_state <= IN[tb]:
                    IN[tb] |= out_state
                    changed = True
    return IN, OUT


PAYLOAD_FREE = {"Pending", "None"}


def payload_free_edges(body, L):
    """CFG edges taken when (a Poll / Option layer of) wrapper local L is matched as `Pending` / `None`: on those paths
    the wrapper holds no user value."""
    out = set()
    for b in sorted(body.reachable):
        if body.is_cleanup(b):
            continue
        t = body.term(b)
        if t["k"] != "switch":
            continue
        from .mir import op_place
        p = op_place(t["op"])
        if p is None or p["p"]:
            continue
        k = p["l"]
        names = None
        for s in body.stmts(b):
            if s["k"] == "assign" and s["lhs"]["l"] == k and not s["lhs"]["p"] and s["rv"]["k"] == "discr" and s["rv"]["place"]["l"] == L:
                names = {v: n for n, v in s["rv"].get("variants") or []}
        if not names:
            continue
        seen_vals = set()
        for v, tb in t.get("vals") or []:
            seen_vals.add(v)
            if names.get(v) in PAYLOAD_FREE:
                out.add((b, tb))
        rest = [n for v, n in names.items() if v not in seen_vals]
        if len(rest) == 1 and rest[0] in PAYLOAD_FREE and isinstance(t.get("otherwise"), int):
            out.add((b, t["otherwise"]))
    return out


def joint_init_at(body, guards, L, partial_kills, targets, kill_edges=()):
    """Path-correlated version of maybe_init for one local L together with the guard locals: the set of
    (live guards, L initialised) pairs that can hold at the terminator of each block in `targets`.
    Exact on gen/kill along each path, all switch successors are followed."""
    tracked = set(guards) | {L}

    def moved(p):
        return p["l"] in tracked and (not p["p"] or (partial_kills and p["l"] == L))

    def step_stmts(b, st):
        st = set(st)
        for s in body.stmts(b):
            if s["k"] == "assign":
                rv = s["rv"]
                if rv["k"] == "use" and "mv" in rv["op"] and moved(rv["op"]["mv"]):
                    st.discard(rv["op"]["mv"]["l"])
                if rv["k"] == "agg":
                    for f in rv["fields"]:
                        if "mv" in f and moved(f["mv"]):
                            st.discard(f["mv"]["l"])
                lhs = s["lhs"]
                if not lhs["p"] and lhs["l"] in tracked:
                    st.add(lhs["l"])
            elif s["k"] == "dead":
                st.discard(s["l"])
        return st

    seen = {}
    out = {b: set() for b in targets}
    work = [(0, frozenset())]
    while work:
        b, st0 = work.pop()
        if st0 in seen.setdefault(b, set()):
            continue
        seen[b].add(st0)
        if len(seen[b]) > 64:
            continue
        st = step_stmts(b, st0)
        t = body.term(b)
        if b in out:
            out[b].add(frozenset(st))
        nxt = set(st)
        if t["k"] == "call":
            for a in t["args"]:
                if "mv" in a and moved(a["mv"]):
                    nxt.discard(a["mv"]["l"])
            d = t["dest"]
            if not d["p"] and d["l"] in tracked:
                nxt.add(d["l"])
        elif t["k"] == "drop":
            p = t["place"]
            if not p["p"] and p["l"] in tracked:
                nxt.discard(p["l"])
        for tb in body.succs(b):
            if not body.is_cleanup(tb):
                if (b, tb) in kill_edges:
                    work.append((tb, frozenset(nxt - {L})))
                else:
                    work.append((tb, frozenset(nxt)))
    return out


# ---------------------------------------------------------------------------------------------
# writes to fields of self
# ---------------------------------------------------------------------------------------------

def field_writes(bi):
    """(block, place term, value term, sp) for every assignment through a projection whose root is a
    parameter (i.e. a write into `*self` / `this.<field>`)."""
    cached = getattr(bi, "_field_writes", None)
    if cached is not None:
        return cached
    out = []
    body = bi.body
    for b in sorted(body.reachable):
        if body.is_cleanup(b):
            continue
        for st in body.stmts(b):
            if st["k"] != "assign" or not st["lhs"]["p"]:
                continue
            pt = bi.T.of_place(st["lhs"])
            root = pt
            while root[0] in ("field", "index", "variant"):
                root = root[1]
            if root[0] == "param":
                out.append((b, pt, bi.T.of_rvalue(st["rv"], 0), st.get("sp", "")))
    bi._field_writes = out
    return out


def self_field(name):
    return ("field", ("param", 1), name)


def writes_to(bi, name):
    return [w for w in field_writes(bi) if w[1] == self_field(name)]


def increments(bi):
    """field writes of the form f := f (+|-) c  ->  (block, field term, delta, sp)"""
    out = []
    for b, pt, v, sp in field_writes(bi):
        vv = v[1] if v[0] == "field" and v[2] == 0 else v
        if vv[0] == "binop" and vv[2] == pt and vv[3][0] == "const":
            if vv[1].startswith("Add"):
                out.append((b, pt, vv[3][1], sp))
            elif vv[1].startswith("Sub"):
                out.append((b, pt, -vv[3][1], sp))
    return out
