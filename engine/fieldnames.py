"""Field-name canonicalisation.

The rules name struct fields the way the pinned tree does (`state`, `wakers`, `pending`, `indexer`,
...).  Renaming a field is the most ordinary refactor there is, so before analysis every crate-local
struct of the current tree is aligned with its pinned declaration (`vocabulary.json: adts`): a field
whose name is new is mapped back to the pinned name when its position and type, or failing that its
type alone, identify it uniquely.  The mapping is applied to the ADT table, to every field projection
(the driver records the parent ADT of each projection element) and to struct aggregates.  Fields
that cannot be matched keep their names - the rules then report an anchor problem, never a guess."""
from . import inline


def _pinned_adts():
    v = inline.vocabulary_doc()
    return (v or {}).get("adts", {})


def canonicalise(facts):
    pinned = _pinned_adts()
    if not pinned:
        return {}
    types = facts["types"]
    renames = {}      # adt cpath -> {current name: pinned name}
    for a in facts["adts"]:
        p = pinned.get(a["cpath"])
        if not p or len(a.get("variants", [])) != 1:
            continue
        cur = [(f["name"], inline.norm_ty(types[f["ty"]]["s"])) for f in a["variants"][0]["fields"]]
        p = [(n, inline.norm_ty(t)) for n, t in p]
        cur_names = {n for n, _ in cur}
        pin_names = {n for n, _ in p}
        missing = [(i, n, t) for i, (n, t) in enumerate(p) if n not in cur_names]       # pinned names that vanished
        fresh = [(i, n, t) for i, (n, t) in enumerate(cur) if n not in pin_names]        # names the pinned tree does not know
        if not missing or not fresh:
            continue
        m = {}
        used = set()
        for i, n, t in fresh:
            # same position and type
            cand = [x for x in missing if x[0] == i and x[2] == t and x[1] not in used]
            if not cand:
                cand = [x for x in missing if x[2] == t and x[1] not in used]
                if len(cand) != 1 or len([y for y in fresh if y[2] == t]) != 1:
                    cand = []
            if cand:
                m[n] = cand[0][1]
                used.add(cand[0][1])
        if m:
            renames[a["cpath"]] = m
            for f in a["variants"][0]["fields"]:
                if f["name"] in m:
                    f["orig_name"] = f["name"]
                    f["name"] = m[f["name"]]
    if not renames:
        return {}

    def walk(x):
        if isinstance(x, list):
            for y in x:
                walk(y)
        elif isinstance(x, dict):
            if "f" in x and "adt" in x and x.get("adt") in renames and x.get("name") in renames[x["adt"]]:
                x["name"] = renames[x["adt"]][x["name"]]
            if x.get("k") == "agg" and x.get("cpath") in renames and x.get("fnames"):
                mp = renames[x["cpath"]]
                x["fnames"] = [mp.get(n, n) for n in x["fnames"]]
            for v in x.values():
                if isinstance(v, (list, dict)):
                    walk(v)
    for b in facts["bodies"]:
        walk(b["blocks"])
    facts["field_renames"] = renames
    return renames
