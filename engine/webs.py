"""Web splitting of multi-definition locals (a small SSA-like normalisation of the MIR facts).

`let mut state = states[i]; if state.is_pending() { ..; state = PollState::None; states[i] = state; }` uses one MIR
local for three unrelated values.  The value-origin terms are position-insensitive, so such a local is a `phi` to them and
every rule that looks through locals goes blind.  Here each such local is split into its *webs*: the definitions of a local
are grouped by the uses they reach together (union-find over the reaching-definition sets of all uses), and every group
gets a local of its own.  A local whose uses all see several definitions (loop counters, `ret`, a re-locked guard) is one
web and stays as it is.  The transformation only renames locals - it is the inverse of the register coalescing a compiler
would do - and is skipped for parameters, the return place and locals whose address is taken mutably."""


def _is_place(x):
    return isinstance(x, dict) and "l" in x and "p" in x and isinstance(x.get("l"), int) and isinstance(x.get("p"), list)


def _places(node, out):
    """collect place dicts (not descending into them) and index-projection elems inside them"""
    if isinstance(node, list):
        for y in node:
            _places(y, out)
    elif isinstance(node, dict):
        if _is_place(node):
            out.append(node)
            return
        for k, v in node.items():
            if isinstance(v, (dict, list)):
                _places(v, out)


def _uses_of_place(pl, cand):
    """(holder dict, key) pairs inside place `pl` that read a candidate local"""
    out = []
    if pl["l"] in cand:
        out.append((pl, "l"))
    for e in pl["p"]:
        if isinstance(e, dict) and isinstance(e.get("i"), int) and e["i"] in cand and set(e.keys()) <= {"i", "ty"}:
            out.append((e, "i"))
    return out


def _stmt_events(s, cand):
    """(uses, defs) of a statement: uses = [(holder, key)], defs = [place dict]"""
    uses, defs = [], []
    if s["k"] == "assign":
        pls = []
        _places(s["rv"], pls)
        for pl in pls:
            uses += _uses_of_place(pl, cand)
        lhs = s["lhs"]
        if lhs["p"]:
            uses += _uses_of_place(lhs, cand)
        else:
            for e in lhs["p"]:
                pass
            if lhs["l"] in cand:
                defs.append(lhs)
    elif s["k"] in ("live", "dead"):
        pass
    else:
        pls = []
        _places(s, pls)
        for pl in pls:
            uses += _uses_of_place(pl, cand)
    return uses, defs


def _term_events(t, cand):
    uses, defs = [], []
    dest = t.get("dest") if isinstance(t.get("dest"), dict) and _is_place(t.get("dest")) else None
    for k, v in t.items():
        if k == "dest" and dest is not None:
            continue
        if isinstance(v, (dict, list)):
            pls = []
            _places(v, pls)
            for pl in pls:
                uses += _uses_of_place(pl, cand)
    if dest is not None:
        if dest["p"]:
            uses += _uses_of_place(dest, cand)
        elif dest["l"] in cand:
            defs.append(dest)
        else:
            pass
    return uses, defs


def _succs(t):
    out = []
    for k in ("t", "imag", "otherwise", "drop", "real"):
        if isinstance(t.get(k), int):
            out.append(t[k])
    for v in t.get("vals") or []:
        out.append(v[1])
    uw = t.get("unwind")
    return out, (uw if isinstance(uw, int) else None)


def split_body(b):
    blocks = b["blocks"]
    argc = b.get("argc", 0)
    ndef = {}
    addr = set()
    has_yield = False
    for blk in blocks:
        for s in blk["stmts"]:
            if s["k"] == "assign":
                if not s["lhs"]["p"]:
                    ndef[s["lhs"]["l"]] = ndef.get(s["lhs"]["l"], 0) + 1
                rv = s["rv"]
                if rv["k"] in ("ref", "rawptr") and rv.get("mut") and "*" not in rv["place"]["p"]:
                    addr.add(rv["place"]["l"])
        t = blk["term"]
        if t["k"] == "yield":
            has_yield = True
        d = t.get("dest")
        if isinstance(d, dict) and _is_place(d) and not d["p"]:
            ndef[d["l"]] = ndef.get(d["l"], 0) + 1
    if has_yield:
        return 0
    cand = {l for l, n in ndef.items() if n >= 2 and l > argc and l not in addr}
    if not cand:
        return 0
    n = len(blocks)
    IN = [None] * n
    IN[0] = {l: frozenset() for l in cand}
    work = [0]
    defid = {}          # id(place dict) -> def id

    def did(pl):
        k = id(pl)
        if k not in defid:
            defid[k] = len(defid)
        return defid[k]

    def flow(bi, st, record=None):
        st = dict(st)
        blk = blocks[bi]
        for s in blk["stmts"]:
            uses, defs = _stmt_events(s, cand)
            if record is not None:
                for h, k in uses:
                    record.append((h, k, h[k], st[h[k]]))
            for pl in defs:
                st[pl["l"]] = frozenset([did(pl)])
                if record is not None:
                    record.append((pl, "l", pl["l"], frozenset([did(pl)])))
        t = blk["term"]
        uses, defs = _term_events(t, cand)
        if record is not None:
            for h, k in uses:
                record.append((h, k, h[k], st[h[k]]))
        st_unw = st
        st_norm = st
        if defs:
            st_norm = dict(st)
            for pl in defs:
                st_norm[pl["l"]] = frozenset([did(pl)])
                if record is not None:
                    record.append((pl, "l", pl["l"], frozenset([did(pl)])))
        return st_norm, st_unw

    iters = 0
    while work and iters < 20000:
        iters += 1
        bi = work.pop()
        st_norm, st_unw = flow(bi, IN[bi])
        succ, uw = _succs(blocks[bi]["term"])
        for tb, st in [(x, st_norm) for x in succ] + ([(uw, st_unw)] if uw is not None else []):
            if tb is None or tb >= n:
                continue
            if IN[tb] is None:
                IN[tb] = dict(st)
                work.append(tb)
            else:
                ch = False
                cur = IN[tb]
                for l in cand:
                    u = cur[l] | st[l]
                    if u != cur[l]:
                        cur[l] = u
                        ch = True
                if ch:
                    work.append(tb)
    if work:
        return 0
    rec = []
    for bi in range(n):
        if IN[bi] is not None:
            flow(bi, IN[bi], record=rec)
    # union-find over definitions
    parent = {}

    def find(x):
        while parent.get(x, x) != x:
            parent[x] = parent.get(parent[x], parent[x])
            x = parent[x]
        return x

    def union(a, c):
        ra, rc = find(a), find(c)
        if ra != rc:
            parent[max(ra, rc)] = min(ra, rc)

    local_of_def = {}
    for h, k, l, ds in rec:
        ds = sorted(ds)
        for d in ds:
            local_of_def[d] = l
        for d in ds[1:]:
            union(ds[0], d)
    webs = {}   # local -> {root: new local}
    made = 0
    for d in sorted(local_of_def):
        l = local_of_def[d]
        r = find(d)
        m = webs.setdefault(l, {})
        if r not in m:
            if not m:
                m[r] = l
            else:
                b["locals"].append(dict(b["locals"][l], split_of=l))
                m[r] = len(b["locals"]) - 1
                made += 1
    if not made:
        return 0
    for h, k, l, ds in rec:
        if not ds:
            continue
        h[k] = webs[l][find(min(ds))]
    # storage markers: one per web
    for blk in blocks:
        out = []
        for s in blk["stmts"]:
            out.append(s)
            if s["k"] in ("live", "dead") and s["l"] in webs and len(webs[s["l"]]) > 1:
                for r, nl in webs[s["l"]].items():
                    if nl != s["l"]:
                        out.append(dict(s, l=nl))
        blk["stmts"] = out
    b.setdefault("split_locals", {}).update({str(l): sorted(m.values()) for l, m in webs.items() if len(m) > 1})
    return made


def split_webs(facts):
    total = 0
    for b in facts["bodies"]:
        try:
            total += split_body(b)
        except (KeyError, TypeError, IndexError):
            continue
    facts["web_splits"] = total
    return total
