"""L6 — typestate exploration: a path-sensitive abstract run of one MIR body over a finite
abstraction (values of a few enum/bool/const-valued places rooted at `self`, plus monotone flags
set when chosen CFG edges are taken).  Branches on a tracked place follow only the edges compatible
with its abstract value; everything else is explored on all edges.  No code is executed and no
solver is involved: this is conditional constant propagation (Wegman-Zadeck) with the reachable
abstract states enumerated explicitly."""
from collections import deque

from .sites import is_agg
from .terms import simple_name

TOP = "⊤"


class Run:
    def __init__(self):
        self.at_site = {}      # block -> set of (values tuple, flags frozenset) at the call terminator
        self.at_return = set()  # (block, values, flags)
        self.writes = []       # (block, name, old, new, flags, sp)
        self.states = 0
        self.transitions = 0
        self.edge_states = {}  # (a, b) -> set of (values, flags) with which the edge is taken


class Tracker:
    """tracked: list of (name, place term, kind) with kind 'enum' | 'bool' | 'int'."""

    def __init__(self, bi, tracked, flag_edges=None, flag_sites=None):
        self.bi = bi
        self.body = bi.body
        self.names = [t[0] for t in tracked]
        self.place = {t[0]: t[1] for t in tracked}
        self.kind = {t[0]: t[2] for t in tracked}
        self.flag_edges = flag_edges or {}   # (a, b) -> flag name
        self.flag_sites = flag_sites or {}   # block -> flag name (set when the call at block returns normally)
        self.sw = {e["block"]: e for e in bi.switches}
        # `mem::replace(place, new)` on a tracked place: the call result carries the old value
        self.replaced = {}
        for n in list(self.names):
            self.names.append("_old_" + n)
            self.place["_old_" + n] = ("old", self.place[n])
            self.kind["_old_" + n] = self.kind[n]
        # boolean locals all of whose definitions are constants (`matches!(..)`, `let done = ..;`) are
        # tracked too, so that a test on the tracked place routed through such a local stays path-sensitive
        self.bool_locals = []
        for e, defs in bi.bool_phi_switches:
            L = e["subject"][1]
            if L not in self.bool_locals:
                self.bool_locals.append(L)
        for L in self.bool_locals:
            n = "_bool_local_%d" % L
            self.names.append(n)
            self.place[n] = ("phi", L)
            self.kind[n] = "bool"
        # a local working copy of a tracked enum place (`let mut state = *this.state; .. *this.state = state;`)
        self.copy_locals = {}
        base = [n for n in self.names if not n.startswith("_") and self.kind[n] == "enum"]
        for b in sorted(self.body.reachable):
            if self.body.is_cleanup(b):
                continue
            for st in self.body.stmts(b):
                if st["k"] == "assign" and not st["lhs"]["p"] and st["rv"]["k"] == "use":
                    op = st["rv"]["op"]
                    pl = op.get("cp") or op.get("mv")
                    if pl is not None and pl["p"]:
                        pt = bi.T.of_place(pl)
                        for n in base:
                            if pt == self.place[n]:
                                self.copy_locals[st["lhs"]["l"]] = n
        for L, n0 in sorted(self.copy_locals.items()):
            n = "_copy_%d" % L
            self.names.append(n)
            self.place[n] = ("phi", L)
            self.kind[n] = "enum"

    def value_of_rv(self, name, rv):
        """Abstract value written by rvalue `rv` to tracked place `name` (TOP if unknown)."""
        t = self.bi.T.of_rvalue(rv, 0)
        return self.value_of_term(name, t)

    def value_of_term(self, name, t):
        k = self.kind[name]
        if k == "enum":
            if t[0] == "agg" and isinstance(t[1], tuple) and len(t[1]) == 2 and not t[2]:
                return t[1][1]
            if t[0] == "agg" and isinstance(t[1], tuple) and len(t[1]) == 2:
                return t[1][1]
            return TOP
        if k == "bool":
            if t[0] == "const":
                return bool(t[1])
            return TOP
        if k == "int":
            if t[0] == "const":
                return t[1]
            return TOP
        return TOP

    def run(self, entry_values):
        body = self.body
        bi = self.bi
        res = Run()
        start = (0, tuple(entry_values.get(n, TOP) for n in self.names), frozenset())
        seen = {start}
        dq = deque([start])
        while dq:
            b, vals, flags = dq.popleft()
            res.states += 1
            vals = list(vals)
            # statements
            for st in body.stmts(b):
                if st["k"] == "assign" and not st["lhs"]["p"] and st["lhs"]["l"] in self.bool_locals:
                    n = "_bool_local_%d" % st["lhs"]["l"]
                    i = self.names.index(n)
                    rv = st["rv"]
                    if rv["k"] == "use" and "c" in rv["op"] and rv["op"]["c"].get("v") is not None:
                        vals[i] = bool(int(rv["op"]["c"]["v"]))
                    else:
                        vals[i] = TOP
                elif st["k"] == "assign" and not st["lhs"]["p"] and st["lhs"]["l"] in self.copy_locals:
                    L = st["lhs"]["l"]
                    i = self.names.index("_copy_%d" % L)
                    vals[i] = self._copy_value(vals, st["rv"], "_copy_%d" % L)
                elif st["k"] == "assign" and st["lhs"]["p"]:
                    pt = bi.T.of_place(st["lhs"])
                    for i, n in enumerate(self.names):
                        if pt == self.place[n]:
                            new = self.value_of_rv(n, st["rv"])
                            if new == TOP and self.copy_locals and self.kind[n] == "enum":
                                new = self._copy_value(vals, st["rv"], n)
                            res.writes.append((b, n, vals[i], new, flags, st.get("sp", "")))
                            vals[i] = new
                elif st["k"] == "setdiscr":
                    pt = bi.T.of_place(st["place"])
                    for i, n in enumerate(self.names):
                        if pt == self.place[n]:
                            res.writes.append((b, n, vals[i], TOP, flags, st.get("sp", "")))
                            vals[i] = TOP
            t = body.term(b)
            k = t["k"]
            tv = tuple(vals)
            if k == "call":
                res.at_site.setdefault(b, set()).add((tv, flags))
                # a call given a mutable reference to a tracked place may change it
                site = bi.by_block.get(b)
                if site is not None:
                    handled_replace = False
                    if site.key in (("core::mem::replace", "replace"), ("core::mem::take", "take")) and site.args:
                        for i, n in enumerate(self.names):
                            if not n.startswith("_") and site.args[0] == self.place[n]:
                                oi = self.names.index("_old_" + n)
                                vals[oi] = vals[i]
                                new = self.value_of_term(n, site.args[1]) if len(site.args) > 1 else TOP
                                res.writes.append((b, n, vals[i], new, flags, t.get("sp", "")))
                                vals[i] = new
                                self.replaced[b] = n
                                handled_replace = True
                    if not handled_replace:
                        for a in site.args:
                            for i, n in enumerate(self.names):
                                if a == self.place[n] and self._is_mut_ref_arg(t, a):
                                    vals[i] = TOP
                    tv = tuple(vals)
            if k == "return":
                res.at_return.add((b, tv, flags))
                continue
            succs = []
            if k == "switch":
                e = self.sw.get(b)
                handled = False
                if e is not None:
                    subj0 = e["subject"]
                    if subj0[0] == "call" and subj0[3] in self.replaced and e["kind"] == "discr":
                        # match on the value returned by mem::replace(tracked place, ..)
                        n0 = self.replaced[subj0[3]]
                        oi = self.names.index("_old_" + n0)
                        v = vals[oi]
                        handled = True
                        for lab, tb in e["edges"].items():
                            if v == TOP:
                                nv = list(vals)
                                if lab != "otherwise":
                                    nv[oi] = lab
                                succs.append((tb, tuple(nv)))
                            elif lab == v or (lab == "otherwise" and v not in e["edges"]):
                                succs.append((tb, tv))
                    for i, n in enumerate(self.names):
                        if handled:
                            break
                        subj = e["subject"]
                        if self.kind[n] == "enum" and e["kind"] == "discr" and subj == self.place[n]:
                            handled = True
                            v = vals[i]
                            for lab, tb in e["edges"].items():
                                if v == TOP:
                                    nv = list(vals)
                                    if lab != "otherwise":
                                        nv[i] = lab
                                    succs.append((tb, tuple(nv)))
                                elif lab == v or (lab == "otherwise" and v not in e["edges"]):
                                    succs.append((tb, tv))
                        elif self.kind[n] == "bool" and e["kind"] == "bool" and subj == self.place[n]:
                            handled = True
                            v = vals[i]
                            for lab, tb in e["edges"].items():
                                if tb is None:
                                    continue
                                if v == TOP:
                                    nv = list(vals)
                                    nv[i] = lab
                                    succs.append((tb, tuple(nv)))
                                elif lab == v:
                                    succs.append((tb, tv))
                        if handled:
                            break
                if not handled:
                    succs = [(tb, tv) for tb in body.succs(b)]
            else:
                succs = [(tb, tv) for tb in body.succs(b)]
            for tb, nv in succs:
                if body.is_cleanup(tb):
                    continue
                nf = flags
                f = self.flag_edges.get((b, tb))
                if f is not None:
                    nf = nf | {f}
                if k == "call" and b in self.flag_sites:
                    nf = nf | {self.flag_sites[b]}
                res.transitions += 1
                res.edge_states.setdefault((b, tb), set()).add((nv, nf))
                s2 = (tb, nv, nf)
                if s2 not in seen:
                    seen.add(s2)
                    dq.append(s2)
        return res

    def _copy_value(self, vals, rv, name):
        """value of an rvalue that may read a tracked enum place or one of its local working copies"""
        t = self.bi.T.of_rvalue(rv, 0)
        for j, n in enumerate(self.names):
            if self.kind[n] == "enum" and not n.startswith("_old_") and t == self.place[n]:
                return vals[j]
        return self.value_of_term(name, t)

    def _is_mut_ref_arg(self, t, term):
        return True
