"""Crate model: which bodies belong to which combinator family / container / arity.

Families are assigned semantically: through the `impl {Join,TryJoin,Race,RaceOk,Merge,Zip,Chain}
for <container>` table and its associated `Future`/`Stream` type, then the `impl Future/Stream`
of that type.  Struct names and file locations are never matched."""
from .mir import Facts
from .sites import BodyInfo, FUTURE, STREAM
from .terms import simple_name

CR = "futures_concurrency::"
FAMILY_TRAITS = {
    CR + "future::join::Join": ("join", "Future", "join"),
    CR + "future::try_join::TryJoin": ("try_join", "Future", "try_join"),
    CR + "future::race::Race": ("race", "Future", "race"),
    CR + "future::race_ok::RaceOk": ("race_ok", "Future", "race_ok"),
    CR + "stream::merge::Merge": ("merge", "Stream", "merge"),
    CR + "stream::zip::Zip": ("zip", "Stream", "zip"),
    CR + "stream::chain::Chain": ("chain", "Stream", "chain"),
}
SUBWAKER_FAMILIES = ("join", "try_join", "merge", "zip")
PASSTHROUGH_FAMILIES = ("race", "race_ok", "chain")
PINNED_DROP = "pin_project::__private::PinnedDrop"
CONSUMER = CR + "concurrent_stream::Consumer"
CONCURRENT_STREAM = CR + "concurrent_stream::ConcurrentStream"


class Member:
    """One concrete combinator type: family x container (x arity)."""

    def __init__(self, family, container, arity, adt, impl):
        self.family = family
        self.container = container
        self.arity = arity
        self.adt = adt            # cpath of the future/stream ADT
        self.impl = impl          # impl record of the family trait
        self.poll = None          # Body
        self.drop = None          # Body (__drop_inner of PinnedDrop) or None
        self.ctor = None          # Body of the trait method (join/merge/...)
        self.new = None           # Body of an inherent `new` if the ctor delegates to one
        self._info = {}

    @property
    def label(self):
        if self.container == "tuple":
            return "%s/tuple%d" % (self.family, self.arity)
        return "%s/%s" % (self.family, self.container)

    def info(self, body):
        if body is None:
            return None
        bi = self._info.get(body.def_)
        if bi is None:
            bi = BodyInfo(body)
            self._info[body.def_] = bi
        return bi

    @property
    def poll_info(self):
        return self.info(self.poll)

    @property
    def drop_info(self):
        return self.info(self.drop)

    def __repr__(self):
        return "<Member %s %s>" % (self.label, self.adt)


class Model:
    def __init__(self, facts_json):
        self.F = Facts(facts_json)
        self.config = self.F.config
        F = self.F
        self._infos = {}
        # bodies by canonical def
        self.by_cdef = {}
        for b in F.bodies:
            self.by_cdef.setdefault(b.j["cdef"], b)
        # impl index
        self.impl_by_def = {i["def"]: i for i in F.impls}
        # bodies per impl
        self.bodies_by_impl = {}
        for b in F.bodies:
            if b.impl:
                self.bodies_by_impl.setdefault(b.impl, []).append(b)
        self.members = []
        self._discover_members()
        self._discover_groups()
        self._discover_costream()

    def info(self, body):
        bi = self._infos.get(body.def_)
        if bi is None:
            bi = BodyInfo(body)
            self._infos[body.def_] = bi
        return bi

    # ------------------------------------------------------------------
    def adt_of_type(self, tix):
        t = self.F.types[tix]
        if t["k"] == "adt":
            return t["cpath"]
        return None

    def poll_body_of(self, adt_cpath):
        """The `Future::poll` / `Stream::poll_next` body implemented for ADT `adt_cpath`."""
        for b in self.F.bodies:
            if b.kind != "AssocFn" or b.impl_self is None:
                continue
            if b.j.get("impl_trait_c") in (FUTURE, STREAM) and b.name in ("poll", "poll_next"):
                if self.adt_of_type(b.impl_self) == adt_cpath:
                    return b
        return None

    def drop_body_of(self, adt_cpath):
        """User code of the PinnedDrop impl (pin-project wraps it as drop::__drop_inner)."""
        for i in self.F.impls:
            if i["trait"] == PINNED_DROP and self.adt_of_type(i["self_ty"]) == adt_cpath:
                want = i["def"] + "::drop::__drop_inner"
                b = self.by_cdef.get(want)
                if b is not None:
                    return b
        return None

    def impl_fn(self, impl, name):
        for it in impl["items"]:
            if it["name"] == name and it["kind"] == "fn":
                return self.by_cdef.get(it["def"])
        return None

    def inherent_fn(self, adt_cpath, name):
        for i in self.F.impls:
            if i["trait"] is None and self.adt_of_type(i["self_ty"]) == adt_cpath:
                b = self.impl_fn(i, name)
                if b is not None:
                    return b
        return None

    def _discover_members(self):
        F = self.F
        for i in F.impls:
            fam = FAMILY_TRAITS.get(i["trait"])
            if not fam:
                continue
            family, assoc, method = fam
            st = F.types[i["self_ty"]]
            if st["k"] == "tuple":
                container, arity = "tuple", len(st["tys"])
            elif st["k"] == "array":
                container, arity = "array", None
            elif st["k"] == "adt" and simple_name(st["cpath"]) == "Vec":
                container, arity = "vec", None
            else:
                container, arity = st["k"], None
            adt = None
            for it in i["items"]:
                if it["name"] == assoc and it["kind"] == "type" and it["ty"] is not None:
                    adt = self.adt_of_type(it["ty"])
            m = Member(family, container, arity, adt, i)
            if adt:
                m.poll = self.poll_body_of(adt)
                m.drop = self.drop_body_of(adt)
                m.new = self.inherent_fn(adt, "new")
            m.ctor = self.impl_fn(i, method)
            self.members.append(m)
        order = {"tuple": 0, "array": 1, "vec": 2}
        self.members.sort(key=lambda m: (m.family, order.get(m.container, 9), m.arity or 0))

    def family(self, *names, containers=None, min_arity=None):
        out = []
        for m in self.members:
            if m.family in names and (containers is None or m.container in containers):
                if min_arity is not None and m.container == "tuple" and m.arity < min_arity:
                    continue
                out.append(m)
        return out

    # ------------------------------------------------------------------ groups
    def _discover_groups(self):
        self.groups = {}
        for name, adt in (("future_group", CR + "future::future_group::FutureGroup"),
                          ("stream_group", CR + "stream::stream_group::StreamGroup")):
            g = {"adt": adt, "name": name}
            for fn in ("poll_next_inner", "insert", "remove", "reserve", "len", "is_empty", "contains_key",
                       "capacity", "with_capacity", "new", "keyed", "insert_pinned"):
                g[fn] = self.inherent_fn(adt, fn)
            g["poll_next"] = self.poll_body_of(adt)
            keyed = adt.rsplit("::", 1)[0] + "::Keyed"
            g["keyed_adt"] = keyed
            g["keyed_poll_next"] = self.poll_body_of(keyed)
            # Extend / FromIterator
            for i in self.F.impls:
                if self.adt_of_type(i["self_ty"]) == adt and i["trait"]:
                    tn = simple_name(i["trait"])
                    if tn == "Extend":
                        g["extend"] = self.impl_fn(i, "extend")
                    elif tn == "FromIterator":
                        g["from_iter"] = self.impl_fn(i, "from_iter")
            self.groups[name] = g

    # ------------------------------------------------------------------ concurrent streams
    def coroutine_of(self, fn_body):
        """The coroutine body constructed by an `async fn` (its {closure#0})."""
        if fn_body is None:
            return None
        return self.by_cdef.get(fn_body.j["cdef"] + "::{closure#0}")

    def _discover_costream(self):
        self.consumers = {}   # simple ADT name -> {send, progress, flush: coroutine Body, impl}
        self.costreams = {}   # simple ADT name -> {drive: coroutine Body, concurrency_limit: Body, impl}
        for i in self.F.impls:
            if i["trait"] == CONSUMER:
                adt = self.adt_of_type(i["self_ty"])
                ent = {"impl": i, "adt": adt}
                for fn in ("send", "progress", "flush"):
                    fb = self.impl_fn(i, fn)
                    ent[fn + "_fn"] = fb
                    ent[fn] = self.coroutine_of(fb)
                self.consumers[simple_name(adt)] = ent
            elif i["trait"] == CONCURRENT_STREAM:
                adt = self.adt_of_type(i["self_ty"])
                ent = {"impl": i, "adt": adt}
                fb = self.impl_fn(i, "drive")
                ent["drive_fn"] = fb
                ent["drive"] = self.coroutine_of(fb)
                ent["concurrency_limit"] = self.impl_fn(i, "concurrency_limit")
                self.costreams[adt] = ent
