"""Type-name canonicalisation.

A crate-local struct or enum that the pinned tree does not know, in a module where a pinned type has disappeared, is
that pinned type under a new name when both have the same shape (same variants, same field types in the same order -
field names are handled afterwards by fieldnames.py) and the match is unique.  The new name is replaced by the pinned one
in every path string of the facts (ADT table, types, aggregates, bodies, impls, call targets).  Anything ambiguous is left
alone and the rules fail closed on the missing anchor."""
import re

from . import inline


def _shape_cur(a, types):
    out = []
    for v in a.get("variants", []):
        out.append(tuple(types[f["ty"]]["s"] for f in v["fields"]))
    return tuple(out)


def canonicalise(facts):
    pinned = (inline.vocabulary_doc() or {}).get("adts", {})
    shapes = (inline.vocabulary_doc() or {}).get("adt_shapes", {})
    if not pinned or not shapes:
        return {}
    types = facts["types"]
    cur = {a["cpath"]: a for a in facts["adts"]}
    fresh = [c for c in cur if c not in shapes]
    gone = [c for c in shapes if c not in cur]
    if not fresh or not gone:
        return {}
    ren = {}
    for c in fresh:
        mod = c.rsplit("::", 1)[0]
        sh = _shape_cur(cur[c], types)
        new_simple = c.rsplit("::", 1)[1]

        def norm(shape, own):
            # a type may mention itself
            return tuple(tuple(inline.norm_ty(re.sub(r"\b%s\b" % re.escape(own), "Self_", t)) for t in v) for v in shape)
        cands = [g for g in gone if g.rsplit("::", 1)[0] == mod and
                 norm(tuple(tuple(x) for x in shapes[g]), g.rsplit("::", 1)[1]) == norm(sh, new_simple)]
        same_shape_fresh = [f for f in fresh if f.rsplit("::", 1)[0] == mod and
                            norm(_shape_cur(cur[f], types), f.rsplit("::", 1)[1]) == norm(sh, new_simple)]
        if len(cands) == 1 and len(same_shape_fresh) == 1:
            ren[c] = cands[0]
    if not ren:
        return {}
    # replace `<module>::<New>` by `<module>::<Old>` in every string (crate-qualified and crate-relative spellings)
    pats = []
    for new, old in ren.items():
        for strip in (0, 1):
            n = new.split("::", 1)[1] if strip else new
            o = old.split("::", 1)[1] if strip else old
            pats.append((re.compile(r"(?<![\w:])%s(?![\w])" % re.escape(n)), o))
            pats.append((re.compile(r"(?<=[<( ,&])%s(?![\w])" % re.escape(n)), o))

    bare = {n.rsplit("::", 1)[1]: o.rsplit("::", 1)[1] for n, o in ren.items()}

    def fix(s):
        if s in bare:
            return bare[s]          # variant name of a struct aggregate, simple type names
        for rx, o in pats:
            if rx.pattern and rx.search(s):
                s = rx.sub(o, s)
        return s

    news = [n.rsplit("::", 1)[1] for n in ren]

    def walk(x):
        if isinstance(x, list):
            for i, y in enumerate(x):
                if isinstance(y, str):
                    if any(n in y for n in news):
                        x[i] = fix(y)
                else:
                    walk(y)
        elif isinstance(x, dict):
            for k, y in list(x.items()):
                if isinstance(y, str):
                    if any(n in y for n in news):
                        x[k] = fix(y)
                else:
                    walk(y)
    walk(facts)
    facts["adt_renames"] = ren
    return ren
