"""Elision of effect-free, constant-guarded regions (`debug_assert!`, `if cfg!(..) { <pure check> }`).

`debug_assert!(c)` expands to `if cfg!(debug_assertions) { if !c { panic!(..) } }`: in MIR a `switchInt` on a literal
constant whose one side computes `c` and either panics or falls through to the join point, and whose other side is empty.
Assertions that state true invariants are the most common behaviour-preserving edit there is, but their code (a second
`state.iter().all(..)`, another `wakers.get(i)`, a `len()` comparison) sits in the middle of the bodies the rules read.

This pass removes such a region when - and only when - it is *effect free*:

  * every statement assigns a plain local that is not read outside the region;
  * no `&mut` borrow or raw pointer of anything but a temporary created inside the region;
  * every call either diverges (the panic), or is a read-only library function from the list below, or is a
    crate-local function / closure whose own body is effect free by the same definition (checked recursively);
  * nothing that is not created inside the region is moved into a call or dropped;
  * the region is entered only through the constant switch.

Both sides of the switch must qualify (the empty side trivially does); the switch is then replaced by a `goto` to the
side with fewer calls.  Anything else - an assertion with a side effect, a `cfg!` branch that does real work - is left
exactly as it is, with *both* edges considered feasible by the path rules (and the release-profile facts show which one
really runs there).  What is lost: a *false* assertion (a panic on a legal path) inside an elided region is not seen;
that is the documented limit C04-j of DESIGN.md section 12.
"""

PURE_LIB_NAMES = {
    # observers
    "len", "is_empty", "is_some", "is_none", "is_ok", "is_err", "is_some_and", "is_none_or", "is_ok_and", "capacity",
    "contains", "contains_key", "get", "first", "last", "index", "deref", "as_ref", "borrow", "as_slice", "as_deref",
    "is_pending", "is_ready", "count_ones", "count_zeroes", "load", "will_wake", "is_power_of_two", "get_ref", "as_str",
    # comparisons / arithmetic helpers
    "eq", "ne", "lt", "le", "gt", "ge", "cmp", "partial_cmp", "min", "max", "saturating_sub", "saturating_add", "checked_sub",
    "checked_add", "wrapping_sub", "wrapping_add", "wrapping_rem", "abs_diff", "from", "into", "try_from", "try_into",
    # iteration over borrowed data
    "iter", "into_iter", "all", "any", "next", "count", "zip", "enumerate", "map", "filter", "rev", "skip", "take", "copied",
    "cloned", "position", "find", "sum", "fold", "by_ref", "chain", "ones", "zeroes", "keys", "values", "range",
    # Option / Result plumbing
    "unwrap", "expect", "unwrap_or", "unwrap_or_default", "ok", "copied", "map_or", "and_then",
    # formatting of the panic message
    "new_const", "new_v1", "new_v1_formatted", "from_str", "new", "new_display", "new_debug", "none", "new_binary",
}
# `new` is only accepted for the formatting machinery
PURE_NEW_OWNERS = ("core::fmt::", "std::fmt::", "core::fmt::rt::")


def _succ(t):
    k = t["k"]
    if k in ("goto", "falseunwind", "drop", "assert"):
        return [t["t"]]
    if k == "call":
        return [t["t"]] if t.get("t") is not None else []
    if k == "switch":
        return [x[1] for x in t["vals"]] + [t["otherwise"]]
    if k == "falseedge":
        return [t["t"], t["imag"]]
    if k == "yield":
        return [t["t"]]
    return []


def _place_of(op):
    if not isinstance(op, dict):
        return None, None
    for k in ("mv", "cp"):
        if k in op:
            return k, op[k]
    return None, None


def _reads(x, out):
    """locals read by an rvalue / operand JSON fragment"""
    if isinstance(x, dict):
        if "l" in x and "p" in x and isinstance(x["l"], int):
            out.add(x["l"])
            for pe in x["p"]:
                if isinstance(pe, dict) and isinstance(pe.get("i"), int) and set(pe.keys()) <= {"i", "ty"}:
                    out.add(pe["i"])
            return
        for v in x.values():
            _reads(v, out)
    elif isinstance(x, list):
        for v in x:
            _reads(v, out)


class _Purity:
    def __init__(self, facts):
        self.by_cdef = {b["cdef"]: b for b in facts["bodies"]}
        self.memo = {}

    # -- a whole crate-local function / closure body
    def body_pure(self, cdef, depth=0):
        if cdef in self.memo:
            return self.memo[cdef]
        b = self.by_cdef.get(cdef)
        if b is None or depth > 4 or b.get("coroutine_kind"):
            return False
        self.memo[cdef] = False         # recursion guard
        argc = b.get("argc", 0)
        own = set(range(argc + 1, len(b["locals"]))) | {0}
        blocks = [i for i, blk in enumerate(b["blocks"]) if not blk.get("cleanup")]
        ok = all(self.block_pure(b, i, own, depth) for i in blocks)
        self.memo[cdef] = ok
        return ok

    def place_is_own(self, pl, own):
        return pl["l"] in own and "*" not in pl["p"]

    def block_pure(self, b, i, own, depth):
        blk = b["blocks"][i]
        for s in blk["stmts"]:
            if s["k"] != "assign":
                continue
            lhs = s["lhs"]
            if lhs["p"] or lhs["l"] not in own:
                return False
            rv = s["rv"]
            if rv["k"] == "rawptr":
                return False
            if rv["k"] == "ref" and rv.get("mut") and not self.place_is_own(rv["place"], own):
                return False
            if rv["k"] == "agg" and rv.get("ak") in ("closure", "coroutine", "coroutine_closure"):
                if rv.get("ak") != "closure" or not self.body_pure(rv.get("cpath"), depth + 1):
                    return False
            # moving a value that was not created here into an aggregate / local consumes it
            if not self._moves_own_only(rv, own):
                return False
        t = blk["term"]
        k = t["k"]
        if k in ("goto", "switch", "falseedge", "falseunwind", "unreachable", "assert", "return", "resume"):
            return True
        if k == "drop":
            return self.place_is_own(t["place"], own)
        if k == "call":
            if t.get("t") is None:
                return True                               # diverges: the panic of a failed assertion
            d = t.get("dest")
            if d is None or d["p"] or d["l"] not in own:
                return False
            if not self._moves_own_only(t.get("args"), own):
                return False
            f = t.get("func") or {}
            if "indirect" in f:
                return False
            cdef = f.get("resolved_c") or f.get("cpath")
            if f.get("resolved_local") or (f.get("local") and cdef in self.by_cdef):
                return self.body_pure(cdef, depth + 1)
            if f.get("local"):
                return False                              # unresolved crate-local trait method
            name = f.get("name")
            if name not in PURE_LIB_NAMES:
                return False
            if name == "new" and not str(f.get("cpath") or "").startswith(PURE_NEW_OWNERS):
                return False
            return True
        return False

    @staticmethod
    def _moves_own_only(x, own):
        ok = True

        def walk(v):
            nonlocal ok
            if isinstance(v, dict):
                if "mv" in v:
                    pl = v["mv"]
                    if pl["l"] not in own or "*" in pl["p"]:
                        ok = False
                for w in v.values():
                    walk(w)
            elif isinstance(v, list):
                for w in v:
                    walk(w)
        walk(x)
        return ok


def _const_switch(blk):
    """(value) if the block ends in a switch on a literal constant (directly or through a local assigned in this block)"""
    t = blk["term"]
    if t["k"] != "switch":
        return None
    op = t["op"]
    if "c" in op:
        c = op["c"]
        return c.get("v") if isinstance(c.get("v"), int) else None
    _, pl = _place_of(op)
    if pl is None or pl["p"]:
        return None
    val = None
    for s in blk["stmts"]:
        if s["k"] == "assign" and s["lhs"]["l"] == pl["l"] and not s["lhs"]["p"]:
            rv = s["rv"]
            if rv["k"] == "use" and "c" in rv["op"] and isinstance(rv["op"]["c"].get("v"), (int, bool)):
                val = int(rv["op"]["c"]["v"])
            else:
                val = None
    return val


def _reach(body, start, stop):
    seen = set()
    st = [start]
    while st:
        x = st.pop()
        if x in seen or x == stop:
            continue
        seen.add(x)
        for y in _succ(body["blocks"][x]["term"]):
            st.append(y)
    return seen


def elide_body(b, pur):
    n = 0
    blocks = b["blocks"]
    preds = {}
    for i, blk in enumerate(blocks):
        if blk.get("cleanup"):
            continue
        for y in _succ(blk["term"]):
            preds.setdefault(y, set()).add(i)
    for h, blk in enumerate(blocks):
        if blk.get("cleanup"):
            continue
        v = _const_switch(blk)
        if v is None:
            continue
        t = blk["term"]
        targets = sorted(set(_succ(t)))
        if len(targets) != 2:
            continue
        a, c = targets
        ra, rc = _reach(b, a, h), _reach(b, c, h)
        reg_a, reg_c = ra - rc, rc - ra
        # a side that is "empty" joins at once: its target is itself in the common part
        ok = True
        dropped_sets = []
        for reg, entry in ((reg_a, a), (reg_c, c)):
            for x in reg:
                if x != entry and not preds.get(x, set()) <= reg:
                    ok = False
                if x == entry and not preds.get(x, set()) <= (reg | {h}):
                    ok = False
            dropped_sets.append(reg)
        if not ok:
            continue
        # locals owned by a region: assigned there and never read outside it
        def region_pure(reg):
            if not reg:
                return True
            assigned = set()
            for x in reg:
                for s in blocks[x]["stmts"]:
                    if s["k"] == "assign" and not s["lhs"]["p"]:
                        assigned.add(s["lhs"]["l"])
                tt = blocks[x]["term"]
                if tt["k"] == "call" and tt.get("dest") and not tt["dest"]["p"]:
                    assigned.add(tt["dest"]["l"])
            argc = b.get("argc", 0)
            assigned -= set(range(1, argc + 1))
            read_outside = set()
            for y, blk2 in enumerate(blocks):
                if y in reg:
                    continue
                for s in blk2["stmts"]:
                    if s["k"] == "assign":
                        _reads(s["rv"], read_outside)
                        if s["lhs"]["p"]:
                            _reads(s["lhs"], read_outside)
                tt = blk2["term"]
                _reads({k_: v_ for k_, v_ in tt.items() if k_ not in ("func",)}, read_outside)
            own = assigned - read_outside
            return all(pur.block_pure(b, x, own, 0) for x in reg)
        if not (region_pure(reg_a) and region_pure(reg_c)):
            continue

        def ncalls(reg):
            return sum(1 for x in reg if blocks[x]["term"]["k"] == "call")
        keep = a if (ncalls(reg_a), len(reg_a)) <= (ncalls(reg_c), len(reg_c)) else c
        if max(len(reg_a), len(reg_c)) == 0:
            continue
        if ncalls(reg_a) == 0 and ncalls(reg_c) == 0 and len(reg_a) + len(reg_c) <= 2:
            # nothing worth removing (`if true {} else {}`), but resolve it all the same
            pass
        blk["term"] = {"k": "goto", "t": keep, "sp": t.get("sp"), "mac": t.get("mac"), "elided_const_switch": True}
        n += 1
    return n


def elide(facts):
    """run over every body of the fact file; returns {def path: number of regions removed}"""
    pur = _Purity(facts)
    out = {}
    for b in facts["bodies"]:
        try:
            n = elide_body(b, pur)
        except (KeyError, TypeError, IndexError):
            n = 0
        if n:
            out[b["def"]] = n
    return out
