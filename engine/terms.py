"""Value origins ("terms") and callee normalisation.

A term is a nested tuple describing where a value comes from, obtained by following
single-definition chains of MIR locals.  References, dereferences, reborrows and a table of
transparent wrapper calls are looked through, so `&mut *Pin::as_mut(&mut x).get_unchecked_mut()`
and `x` have the same term.

  ('const', v)                      evaluated scalar constant
  ('sym', name)                     symbolic constant (const generic / generic-dependent)
  ('param', n)                      n-th argument of the body (1-based local)
  ('local', l)                      a local without any definition (uninit / return slot)
  ('phi', l)                        a local with several whole definitions
  ('field', base, name)             field projection (name or index)
  ('variant', base, name)           enum downcast
  ('index', base, idx)              indexing with term idx
  ('call', key, args, site)         result of call site `site` (block id) of callee `key`
  ('agg', kind, fields)             aggregate
  ('binop', op, a, b) ('unop', op, a) ('cast', ck, a) ('discr', a) ('fn', key) ('closure', cpath)
  ('yield', site)                   resume argument of a yield
"""

import re

from .mir import op_place, op_const

PINPROJ = re.compile(r"::_(#\d+)?::")


def simple_name(cpath):
    if cpath is None:
        return None
    return cpath.rsplit("::", 1)[-1]


class Callee:
    """Normalised view of a call target."""
    __slots__ = ("name", "owner", "owner_c", "trait", "trait_c", "resolved", "cpath", "self_ty",
                 "self_kind", "local", "raw", "indirect", "display", "args")

    def __init__(self, facts, f):
        self.raw = f
        self.indirect = "indirect" in f
        if self.indirect:
            self.name = "<indirect>"
            self.owner = self.owner_c = self.trait = self.trait_c = self.cpath = None
            self.resolved = False
            self.self_ty = None
            self.self_kind = None
            self.local = False
            self.display = "<indirect>"
            self.args = []
            return
        self.name = f["name"]
        self.trait_c = f.get("trait_c")
        self.trait = simple_name(self.trait_c)
        self.resolved = f.get("resolved_c") is not None and (self.trait_c is None or f.get("resolved_c") != f.get("cpath"))
        # a trait method whose "resolved" instance is the trait's own default body is still generic
        self.cpath = f.get("resolved_c") or f["cpath"]
        own = f.get("resolved_impl_self")
        if own is None:
            own = f.get("impl_self")
        self.owner = None
        self.owner_c = None
        if own is not None:
            t = facts.types[own]
            if t["k"] == "adt":
                self.owner_c = t["cpath"]
                self.owner = simple_name(t["cpath"])
            else:
                self.owner = t["k"]
        self.self_ty = f.get("self_ty")
        self.self_kind = facts.types[self.self_ty]["k"] if self.self_ty is not None else None
        self.local = bool(f.get("resolved_local")) if f.get("resolved_c") else bool(f.get("local"))
        self.display = f.get("resolved") or f["path"]
        self.args = f.get("args", [])

    @property
    def key(self):
        """(owner-or-trait, name) used for role matching."""
        if self.indirect:
            return ("<indirect>", "")
        if self.owner:
            return (self.owner, self.name)
        if self.trait:
            return (self.trait, self.name)
        return (self.cpath, self.name)

    def is_(self, owner, name):
        return self.key == (owner, name)

    def __repr__(self):
        return "Callee(%s::%s)" % self.key


# Calls that return (a view of) their first argument: looking through them does not change which
# object a value designates.  One line of reason each.
TRANSPARENT = {
    ("Deref", "deref"),                  # smart-pointer / guard / PollArray deref: same object
    ("DerefMut", "deref_mut"),
    ("MutexGuard", "deref"), ("MutexGuard", "deref_mut"),
    ("PollArray", "deref"), ("PollArray", "deref_mut"),
    ("PollVec", "deref"), ("PollVec", "deref_mut"),
    ("ReadinessArrayRef", "deref"), ("ReadinessArrayRef", "deref_mut"),
    ("ReadinessVecRef", "deref"), ("ReadinessVecRef", "deref_mut"),
    ("Arc", "deref"), ("Box", "deref"), ("Box", "deref_mut"),
    ("Vec", "deref"), ("Vec", "deref_mut"), ("SmallVec", "deref"), ("SmallVec", "deref_mut"),
    ("Pin", "deref"), ("Pin", "deref_mut"),
    ("Pin", "as_mut"), ("Pin", "as_ref"),  # re-pin of the same pointee
    ("Pin", "get_unchecked_mut"), ("Pin", "get_mut"), ("Pin", "get_ref"),
    ("Pin", "new_unchecked"), ("Pin", "new"), ("Pin", "into_ref"),
    ("Pin", "map_unchecked_mut"),          # in this crate only used with |t| t.deref_mut() (checked by rule C02.WHO)
    ("Pin", "set"),
    ("ref", "into_iter"), ("I", "into_iter"),
    ("Vec", "as_mut_slice"), ("Vec", "as_slice"), ("array", "as_mut"), ("slice", "as_mut"),
    ("AsMut", "as_mut"), ("AsRef", "as_ref"),
    ("Borrow", "borrow"), ("BorrowMut", "borrow_mut"),
    ("Option", "as_mut"), ("Option", "as_ref"),   # Option<&T> view of the same payload
    ("Option", "as_pin_mut"), ("Option", "as_pin_ref"),   # Option<Pin<&mut T>> view of the same payload (Pin<&mut Option<T>> receiver)
    ("ManuallyDrop", "deref"), ("ManuallyDrop", "deref_mut"),
    ("core::future::get_context", "get_context"),  # async lowering: ResumeTy -> &mut Context
}

ARITH_CALLS = {
    "checked_add": ("checked", "Add"), "checked_sub": ("checked", "Sub"),
    "wrapping_add": ("plain", "Add"), "wrapping_sub": ("plain", "Sub"),
    "saturating_add": ("plain", "Add"), "saturating_sub": ("plain", "SubSat"),
    "unchecked_add": ("plain", "Add"), "unchecked_sub": ("plain", "Sub"),
    "strict_add": ("plain", "Add"), "strict_sub": ("plain", "Sub"),
}
INT_TYPES = {"usize", "u8", "u16", "u32", "u64", "u128", "isize", "i8", "i16", "i32", "i64", "i128"}

# blanket `impl<I: Iterator> IntoIterator for I` is the identity
IDENTITY_CPATHS = {
    "core::iter::traits::collect::{impl#0}::into_iter",
    "core::future::into_future::{impl#0}::into_future",
}

UNWRAP = {("Option", "unwrap"): "Some", ("Option", "expect"): "Some", ("Option", "unwrap_unchecked"): "Some",
          ("Result", "unwrap"): "Ok", ("Result", "expect"): "Ok"}


class Terms:
    def __init__(self, body):
        self.body = body
        self.facts = body.facts
        self._cache = {}
        self._callee = {}
        self.subst = None     # upvar index -> caller's argument term (a private async helper analysed in its caller's terms)

    def callee(self, b):
        c = self._callee.get(b)
        if c is None:
            c = Callee(self.facts, self.body.term(b)["func"])
            self._callee[b] = c
        return c

    # ---------------------------------------------------------------------------------------
    def of_operand(self, op, depth=0):
        c = op_const(op)
        if c is not None:
            if c.get("v") is not None:
                return ("const", int(c["v"]))
            if c.get("fn"):
                return ("fn", Callee(self.facts, c["fn"]).key)
            if c.get("closure"):
                return ("closure", c["closure"])
            if c.get("sym"):
                return ("sym", c["sym"])
            return ("constexpr", c["s"])
        p = op_place(op)
        if p is None:
            return ("unknown",)
        return self.of_place(p, depth)

    def _is_value_copy(self, l):
        """local `l` (not a reference / pointer / Pin) whose only definition copies a value out of a projected place"""
        c = getattr(self, "_vc", None)
        if c is None:
            c = self._vc = {}
        if l in c:
            return c[l]
        body = self.body
        res = False
        defs = [d for d in body.defs.get(l, []) if d[0] in body.reachable and not body.is_cleanup(d[0])]
        if len(defs) == 1 and defs[0][2] == "assign" and l > body.argc:
            rv = defs[0][3]
            t = body.local_ty(l)
            valty = t["k"] not in ("ref", "ptr") and not (t["k"] == "adt" and (t.get("cpath") or "").rsplit("::", 1)[-1] in ("Pin", "Box", "Arc", "Rc"))
            if rv["k"] == "use" and "cp" in rv["op"] and rv["op"]["cp"]["p"]:
                res = valty
            elif rv["k"] == "use" and valty:
                # moved on from a temporary that holds such a copy (by-value argument of an inlined helper)
                src = rv["op"].get("mv") or rv["op"].get("cp")
                if src is not None and not src["p"] and src["l"] != l:
                    c[l] = False
                    res = self._is_value_copy(src["l"])
        c[l] = res
        return res

    def _mut_borrowed(self):
        mb = getattr(self, "_mb", None)
        if mb is None:
            mb = set()
            body = self.body
            for b in body.reachable:
                for st in body.stmts(b):
                    if st["k"] == "assign" and st["rv"]["k"] in ("ref", "rawptr") and st["rv"].get("mut"):
                        mb.add(st["rv"]["place"]["l"])
            self._mb = mb
        return mb

    def of_place(self, p, depth=0):
        t = self.of_local(p["l"], depth)
        proj = p["p"]
        # a component of a tuple literal held in a temporary nobody can write through:
        # `match (a >= b, state) { (true, _) => ..` reads `a >= b`
        if proj and isinstance(proj[0], dict) and "f" in proj[0] and t[0] == "agg" and t[1] == "tuple" \
                and isinstance(proj[0]["f"], int) and proj[0]["f"] < len(t[2]) and p["l"] not in self._mut_borrowed() \
                and len(self.body.defs.get(p["l"], [])) == 1:
            t = t[2][proj[0]["f"]]
            proj = proj[1:]
        for e in proj:
            t = self.project(t, e, depth)
        return t

    def project(self, t, e, depth):
        if e == "*":
            return t  # transparent
        if isinstance(e, str):
            return t
        if "f" in e:
            if t[0] == "cfold":
                return ("const", t[1]) if e["f"] == 0 else ("const", 0)
            name = e["name"] if e.get("name") is not None else e["f"]
            if isinstance(name, str) and name.isdigit():
                name = int(name)
            if self.subst is not None and t == ("param", 1) and e["f"] in self.subst:
                return self.subst[e["f"]]
            if t[0] == "variant" and t[2] == "Some" and t[1][0] == "checked" and name == 0:
                return t[1][1]       # the payload of `x.checked_sub(y)` matched as Some(d) is x - y
            return ("field", t, name)
        if "dc" in e:
            return ("variant", t, e["name"] if e.get("name") else e["dc"])
        if "i" in e:
            return ("index", t, self.of_local(e["i"], depth))
        if "ci" in e:
            return ("index", t, ("const", e["ci"]))
        return ("proj", t, str(e))

    def of_local(self, l, depth=0):
        if l in self._cache:
            return self._cache[l]
        if depth > 60:
            return ("deep", l)
        self._cache[l] = ("phi", l)  # cycle guard
        body = self.body
        defs = body.defs.get(l, [])
        # only definitions in reachable non-cleanup blocks matter
        defs = [d for d in defs if d[0] in body.reachable and not body.is_cleanup(d[0])]
        if not defs:
            if 1 <= l <= body.argc:
                t = ("param", l)
            else:
                t = ("local", l)
        elif len(defs) > 1:
            # several definitions: same term from all of them => that term, else phi
            ts = set()
            for d in defs:
                ts.add(self._of_def(l, d, depth + 1))
            if len(ts) == 1 and next(iter(ts))[0] not in ("call", "yield"):
                t = next(iter(ts))
            else:
                t = ("phi", l)
        else:
            if 1 <= l <= body.argc:
                t = ("phi", l)  # parameter that is reassigned
            else:
                t = self._of_def(l, defs[0], depth + 1)
        self._cache[l] = t
        return t

    def _of_def(self, l, d, depth):
        b, i, kind, payload = d
        if kind == "assign":
            return self.of_rvalue(payload, depth, site=(b, i))
        if kind == "call":
            return self.of_call(b, payload, depth)
        if kind == "yield":
            return ("yield", b)
        return ("unknown",)

    def of_rvalue(self, rv, depth, site=None):
        k = rv["k"]
        if k == "use":
            return self.of_operand(rv["op"], depth)
        if k in ("ref", "rawptr"):
            pl = rv["place"]
            if rv.get("mut") and not pl["p"] and self._is_value_copy(pl["l"]):
                # `&mut copy`: a mutable reference to a local that holds a *copied value* (`let mut s = this.state[i];
                # s.set_none()`, or a by-value parameter of an inlined helper) points at the copy, not at the place the
                # value was read from - whatever is done through it does not reach the original
                return ("copied", pl["l"], self.of_place(pl, depth))
            return self.of_place(pl, depth)
        if k == "cast":
            ck = rv["ck"]
            inner = self.of_operand(rv["op"], depth)
            if ck in ("PointerCoercion", "PtrToPtr", "Transmute", "Subtype"):
                return inner if ck != "Transmute" else ("cast", ck, inner)
            if ck == "IntToInt" and inner[0] == "const":
                return inner
            return ("cast", ck, inner)
        if k == "binop":
            a = self.of_operand(rv["a"], depth)
            b = self.of_operand(rv["b"], depth)
            op = rv["op"]
            if a[0] == "const" and b[0] == "const":
                base = op.replace("WithOverflow", "").replace("Unchecked", "")
                v = None
                if base == "Add":
                    v = a[1] + b[1]
                elif base == "Sub" and a[1] >= b[1]:
                    v = a[1] - b[1]
                elif base == "Mul":
                    v = a[1] * b[1]
                if v is not None and v < (1 << 63):
                    if op.endswith("WithOverflow"):
                        return ("cfold", v)
                    return ("const", v)
            return ("binop", op, a, b)
        if k == "unop":
            return ("unop", rv["op"], self.of_operand(rv["a"], depth))
        if k == "discr":
            return ("discr", self.of_place(rv["place"], depth))
        if k == "agg":
            ak = rv["ak"]
            fields = tuple(self.of_operand(f, depth) for f in rv["fields"])
            if ak == "adt":
                return ("agg", (simple_name(rv["cpath"]), rv["vname"]), fields)
            if ak in ("closure", "coroutine", "coroutine_closure"):
                return ("agg", (ak, rv["cpath"]), fields)
            return ("agg", ak, fields)
        if k == "repeat":
            return ("repeat", self.of_operand(rv["op"], depth), rv["n"])
        return ("rv", k)

    def _int_conversion(self, c):
        """`<int as From<int>>::from` / `Into::into` between primitive integers (std only implements the lossless ones)"""
        try:
            tys = [self.facts.types[i] for i in (c.raw.get("args") or []) if isinstance(i, int)]
        except Exception:
            return False
        prim = [t for t in tys if t.get("k") == "prim" and t.get("name") in INT_TYPES]
        return len(tys) >= 2 and len(prim) == len(tys)

    def of_call(self, b, t, depth):
        c = self.callee(b)
        args = t["args"]
        if not c.indirect:
            if (c.key in TRANSPARENT or c.cpath in IDENTITY_CPATHS or (c.trait, c.name) in TRANSPARENT) and args:
                return self.of_operand(args[0], depth)
            if c.name in ("index", "index_mut") and c.trait in ("Index", "IndexMut") and len(args) == 2:
                # container[idx] through the Index/IndexMut traits (Vec, Slab, SmallVec, FixedBitSet)
                return ("index", self.of_operand(args[0], depth), self.of_operand(args[1], depth))
            if c.key in UNWRAP and args:
                inner = self.of_operand(args[0], depth)
                if inner[0] == "checked" and UNWRAP[c.key] == "Some":
                    return inner[1]      # x.checked_add(k).expect(..) / .unwrap() is x + k (or a panic)
                return ("field", ("variant", inner, UNWRAP[c.key]), 0)
            if c.name in ("from", "into") and c.trait in ("From", "Into") and len(args) == 1 and self._int_conversion(c):
                return self.of_operand(args[0], depth)      # usize::from(x_u8): lossless widening, same number
            if c.name in ARITH_CALLS and (c.key[0] in INT_TYPES or c.key[0] == "prim") and len(args) == 2:
                # integer arithmetic spelled as a method: one spelling per operation (the counters of this crate are
                # bounded by the number of children, so the overflow behaviours do not differ on any reachable value;
                # saturating_sub keeps its own operator because `a.saturating_sub(b) == 0` means a <= b)
                kind, op = ARITH_CALLS[c.name]
                t_ = ("binop", op, self.of_operand(args[0], depth), self.of_operand(args[1], depth))
                return ("checked", t_) if kind == "checked" else t_
            if c.key in (("Option", "map"), ("Pin", "map_unchecked_mut"), ("Pin", "map_unchecked")) and len(args) == 2:
                # closure-mapped views: an identity / re-pinning closure leaves the designated object
                # unchanged; an indexing closure `|x| &mut x[i]` designates element i
                cl = self.of_operand(args[1], depth)
                if cl[0] == "agg" and isinstance(cl[1], tuple) and cl[1][0] == "closure":
                    rt = self.facts.closure_return_term(cl[1][1])
                    base = self.of_operand(args[0], depth)
                    if rt == ("param", 2):
                        return base
                    if rt is not None and rt[0] == "index" and rt[1] == ("param", 2):
                        idx = rt[2]
                        if idx[0] == "field" and idx[1] == ("param", 1) and isinstance(idx[2], int) and idx[2] < len(cl[2]):
                            return ("index", base, cl[2][idx[2]])
                        if idx[0] == "const":
                            return ("index", base, idx)
            if c.name in ("project", "project_ref") and c.local and PINPROJ.search(c.cpath or "") and args:
                # pin-project generated projection: `x.project().f` designates `x.f`
                return self.of_operand(args[0], depth)
        return ("call", c.key, tuple(self.of_operand(a, depth) for a in args), b)


def term_str(t, maxd=6):
    if maxd <= 0:
        return "…"
    k = t[0]
    if k == "const":
        return str(t[1])
    if k in ("sym", "constexpr"):
        return str(t[1])
    if k == "param":
        return "arg%d" % t[1]
    if k in ("local", "phi"):
        return "%s_%d" % ("φ" if k == "phi" else "", t[1])
    if k == "field":
        return "%s.%s" % (term_str(t[1], maxd - 1), t[2])
    if k == "variant":
        return "%s@%s" % (term_str(t[1], maxd - 1), t[2])
    if k == "index":
        return "%s[%s]" % (term_str(t[1], maxd - 1), term_str(t[2], maxd - 1))
    if k == "call":
        return "%s::%s(%s)#bb%d" % (t[1][0], t[1][1], ", ".join(term_str(a, maxd - 1) for a in t[2]), t[3])
    if k == "agg":
        return "%s{%s}" % (t[1], ", ".join(term_str(a, maxd - 1) for a in t[2]))
    if k == "binop":
        return "%s(%s, %s)" % (t[1], term_str(t[2], maxd - 1), term_str(t[3], maxd - 1))
    if k == "unop":
        return "%s(%s)" % (t[1], term_str(t[2], maxd - 1))
    if k == "cast":
        return "(%s as %s)" % (term_str(t[2], maxd - 1), t[1])
    if k == "discr":
        return "discr(%s)" % term_str(t[1], maxd - 1)
    return str(t)


def subterms(t):
    """All nested terms including t itself."""
    yield t
    if isinstance(t, tuple):
        for x in t[1:]:
            if isinstance(x, tuple):
                if x and isinstance(x[0], str) and x[0] in ("const", "sym", "param", "local", "phi", "field", "variant",
                                                             "index", "call", "agg", "binop", "unop", "cast", "discr",
                                                             "fn", "closure", "yield", "constexpr", "repeat", "rv", "proj", "unknown", "deep"):
                    yield from subterms(x)
                else:
                    for y in x:
                        if isinstance(y, tuple):
                            yield from subterms(y)


def contains(t, pred):
    return any(pred(s) for s in subterms(t))
