"""Primitive summaries (L7 / SUM rules): readiness tables, no_std strategy, set_waker, PollState
predicates and setters, Indexer rotation.  Each check compares the path summaries of the primitive's
MIR with its expected *semantic* transfer table; several syntactic forms are accepted for each
effect, an unrecognised but harmless form is reported as inconclusive, not as a violation."""
from .. import summary
from ..rulekit import Inconclusive
from ..terms import term_str, simple_name, subterms

SELF = ("param", 1)


def find_method(M, owner_suffix, name):
    """Inherent method `name` of the ADT whose canonical path ends with owner_suffix."""
    for i in M.F.impls:
        if i["trait"] is not None:
            continue
        adt = M.adt_of_type(i["self_ty"])
        if adt and adt.endswith(owner_suffix):
            b = M.impl_fn(i, name)
            if b is not None:
                return b
    return None


def sfield(name):
    return ("field", SELF, name)


def cval(t):
    if t is not None and t[0] == "const":
        return t[1]
    return None


def delta_of(value, field_term):
    """+c / -c when `value` is field (+|-) const in any of the arithmetic forms."""
    v = value
    if v[0] == "field" and v[2] == 0:
        v = v[1]
    if v[0] == "binop" and v[2] == field_term and cval(v[3]) is not None:
        if v[1] in ("Add", "AddWithOverflow", "AddUnchecked"):
            return cval(v[3])
        if v[1] in ("Sub", "SubWithOverflow", "SubUnchecked", "SubSat"):
            return -cval(v[3])
    if v[0] == "call" and v[1][1] in ("wrapping_add", "saturating_add", "checked_add") and v[2] and v[2][0] == field_term and cval(v[2][1]) is not None:
        return cval(v[2][1])
    if v[0] == "call" and v[1][1] in ("wrapping_sub", "saturating_sub", "checked_sub") and v[2] and v[2][0] == field_term and cval(v[2][1]) is not None:
        return -cval(v[2][1])
    return None


def summaries(ctx, M, body, rule):
    try:
        return summary.summarize(M.info(body))
    except summary.TooComplex as e:
        raise Inconclusive("%s: cannot summarise %s (%s)" % (rule, body.def_, e))


class BitTable:
    """How one readiness implementation names its parts."""

    def __init__(self, owner, counter, lst, cap):
        self.owner = owner
        self.counter = counter
        self.list = lst
        self.cap = cap  # term the counter is set to by set_all_ready


def bit_cond(ps, tbl, idx=("param", 2)):
    """Label of the branch on the previous value of bit `idx` along this path (True/False/None)."""
    for s, lab in ps.conds:
        if s == ("index", sfield(tbl.list), idx):
            return lab
        if s[0] == "call" and s[1][1] in ("index", "contains", "get") and len(s[2]) >= 2 and s[2][0] == sfield(tbl.list) and s[2][1] == idx:
            return lab
    return None


def bit_writes(ps, tbl, idx=("param", 2)):
    out = []
    for p, v in ps.writes:
        if p == ("index", sfield(tbl.list), idx):
            out.append(cval(v))
    for key, args, _ in ps.calls:
        if key[1] in ("set", "put", "insert", "set_unchecked") and len(args) >= 2 and args[0] == sfield(tbl.list) and args[1] == idx:
            out.append(cval(args[2]) if len(args) > 2 else 1)
        if key[1] in ("remove",) and len(args) >= 2 and args[0] == sfield(tbl.list) and args[1] == idx:
            out.append(0)
    return out


def counter_deltas(ps, tbl):
    out = []
    for p, v in ps.writes:
        if p == sfield(tbl.counter):
            d = delta_of(v, sfield(tbl.counter))
            out.append(d if d is not None else ("set", v))
    return out


def check_flip(ctx, M, rule, tbl, name, to_value):
    """set_ready (to_value=1) / clear_ready (to_value=0)."""
    b = find_method(M, tbl.owner, name)
    ctx.require(b is not None, "%s::%s" % (tbl.owner, name))
    pss = summaries(ctx, M, b, rule)
    was = bool(to_value)  # label of the 'nothing to do' branch: bit already == to_value
    problems = []
    seen = set()
    for ps in pss:
        lab = bit_cond(ps, tbl)
        seen.add(lab)
        ret = cval(ps.ret)
        bw = bit_writes(ps, tbl)
        cd = counter_deltas(ps, tbl)
        if lab is None:
            problems.append("a path does not test the previous value of the bit")
        elif lab == was:
            # bit already has the target value: report 'previous == target' and change nothing
            expect_ret = 1
            if name == "clear_ready":
                expect_ret = 0
            if ret != expect_ret:
                problems.append("returns %s when the bit was already %s (expected %s)" % (ret, was, bool(expect_ret)))
            if bw or cd:
                problems.append("changes the table although the bit was already %s" % was)
        else:
            expect_ret = 0 if name == "set_ready" else 1
            if ret != expect_ret:
                problems.append("returns %s when flipping the bit (expected %s)" % (ret, bool(expect_ret)))
            if bw != [to_value]:
                problems.append("bit is written %s when flipping (expected exactly one write of %s)" % (bw, bool(to_value)))
            want = 1 if to_value else -1
            if cd != [want]:
                problems.append("ready counter changes by %s when flipping (expected %+d)" % (cd, want))
    if {True, False} - seen:
        problems.append("does not distinguish both previous bit values")
    if problems:
        for p in sorted(set(problems)):
            ctx.fail(rule, b.def_, "%s: %s" % (name, p), site=b.span)
    else:
        ctx.ok(rule, b.def_, "%s matches its transfer table (%d paths)" % (name, len(pss)),
               sample=[ps.describe() for ps in pss])


def check_any_ready(ctx, M, rule, tbl):
    b = find_method(M, tbl.owner, "any_ready")
    ctx.require(b is not None, "%s::any_ready" % tbl.owner)
    pss = summaries(ctx, M, b, rule)
    ok = True
    for ps in pss:
        r = ps.ret
        c = sfield(tbl.counter)
        good = r in (("binop", "Gt", c, ("const", 0)), ("binop", "Ne", c, ("const", 0)), ("binop", "Ge", c, ("const", 1)),
                     ("binop", "Lt", ("const", 0), c), ("binop", "Le", ("const", 1), c))
        ok = ok and good
    ctx.check(ok, rule, b.def_, "any_ready == (ready counter > 0)", site=b.span, sample=[ps.describe() for ps in pss])


def _fill_loop_form(M, b, tbl):
    """`for ready in self.list.iter_mut() { *ready = true; }` + `self.counter = cap`: the `fill(true)` written out"""
    from .. import scan
    bi = M.info(b)
    body = bi.body
    writes = scan.field_writes(bi)
    cw = [(blk, v) for blk, pt, v, sp in writes if pt == sfield(tbl.counter)]
    if len(cw) != 1 or cw[0][1] != tbl.cap:
        return False
    nxts = [s for s in bi.sites if s.callee.name == "next" and s.args and s.arg(0)[0] == "call" and s.arg(0)[1][1] in ("iter_mut", "into_iter")]
    if len(nxts) != 1:
        return False
    nxt = nxts[0]
    it = nxt.arg(0)
    while it[0] == "call" and it[1][1] in ("into_iter", "by_ref") and it[2]:
        it = it[2][0]
    if not (it[0] == "call" and it[1][1] == "iter_mut" and it[2] and it[2][0] == sfield(tbl.list)):
        return False
    item = ("field", ("variant", nxt.term, "Some"), 0)
    sets = []
    for blk in sorted(body.reachable):
        if body.is_cleanup(blk):
            continue
        for st in body.stmts(blk):
            if st["k"] == "assign" and st["lhs"]["p"] and bi.T.of_place(st["lhs"]) == item and cval(bi.T.of_rvalue(st["rv"], 0)) == 1:
                sets.append(blk)
    others = [blk for blk, pt, v, sp in writes if pt != item and pt != sfield(tbl.counter)]
    se, ne = bi.outcome_edges(nxt, "Some"), bi.outcome_edges(nxt, "None")
    lp = body.innermost_loop(nxt.block)
    if not sets or others or not se or not ne or lp is None:
        return False
    ok, _ = bi.must_reach([t for _, t in se], sets, [lp[0]] + list(bi.return_blocks))
    return ok and all(bi.guarded_by(r, ne) for r in bi.return_blocks) and not [s for s in bi.sites if s.callee.name in ("clear", "set", "fill", "toggle")]


def check_set_all(ctx, M, rule, tbl):
    b = find_method(M, tbl.owner, "set_all_ready")
    ctx.require(b is not None, "%s::set_all_ready" % tbl.owner)
    try:
        pss = summaries(ctx, M, b, rule)
    except Inconclusive:
        if _fill_loop_form(M, b, tbl):
            ctx.ok(rule, b.def_, "set_all_ready sets every bit (explicit loop over the table) and the counter to the table size")
            return
        raise
    ok = bool(pss)
    for ps in pss:
        cw = [v for p, v in ps.writes if p == sfield(tbl.counter)]
        fill = [a for k, a, _ in ps.calls if k[1] in ("fill", "set_range", "insert_range") and a and a[0] == sfield(tbl.list)]
        good_fill = any(cval(a[-1]) == 1 or k == "insert_range" for a in fill for k in ["x"])
        ok = ok and cw == [tbl.cap] and bool(fill) and good_fill
    ctx.check(ok, rule, b.def_, "set_all_ready sets every bit and the counter to the table size", site=b.span,
              sample=[ps.describe() for ps in pss])


def check_bits(ctx, M, rule):
    arr = BitTable("readiness_array::ReadinessArray", "count", "readiness_list", ("sym", "N"))
    vec = BitTable("readiness_vec::ReadinessVec", "ready_count", "readiness_list", sfield("max_count"))
    for tbl in (arr, vec):
        check_flip(ctx, M, rule, tbl, "set_ready", 1)
        check_flip(ctx, M, rule, tbl, "clear_ready", 0)
        check_any_ready(ctx, M, rule, tbl)
        check_set_all(ctx, M, rule, tbl)
    # constructors: every bit set, counter = size
    b = find_method(M, arr.owner, "new")
    ctx.require(b is not None, "ReadinessArray::new")
    pss = summaries(ctx, M, b, rule)
    ok = bool(pss)
    for ps in pss:
        r = ps.ret
        good = r[0] == "agg" and r[1] == ("ReadinessArray", "ReadinessArray")
        if good:
            f = fields_of(M, b, "ReadinessArray", r)
            good = f.get("count") == ("sym", "N") and f.get("readiness_list", ("x",))[0] == "repeat" and cval(f["readiness_list"][1]) == 1
        ok = ok and good
    ctx.check(ok, rule, b.def_, "ReadinessArray::new: all N bits set and count = N", site=b.span, sample=[ps.describe() for ps in pss])
    b = find_method(M, vec.owner, "new")
    ctx.require(b is not None, "ReadinessVec::new")
    pss = summaries(ctx, M, b, rule)
    ok = bool(pss)
    for ps in pss:
        r = ps.ret
        good = r[0] == "agg" and r[1] == ("ReadinessVec", "ReadinessVec")
        if good:
            f = fields_of(M, b, "ReadinessVec", r)
            lst = f.get("readiness_list", ("x",))
            all_ones = lst[0] == "call" and lst[1][1] == "with_capacity_and_blocks" and lst[2][0] == ("param", 1) and any(
                s[0] == "unop" and s[1] == "Not" and cval(s[2]) == 0 for s in subterms(lst))
            good = f.get("ready_count") == ("param", 1) and f.get("max_count") == ("param", 1) and all_ones
        ok = ok and good
    ctx.check(ok, rule, b.def_, "ReadinessVec::new(len): all len bits set, ready_count = max_count = len", site=b.span,
              sample=[ps.describe() for ps in pss])
    # resize: growing arms the new slots
    b = find_method(M, vec.owner, "resize")
    ctx.require(b is not None, "ReadinessVec::resize")
    pss = summaries(ctx, M, b, rule)
    grow_ok = False
    allmax = True
    for ps in pss:
        allmax = allmax and any(p == sfield("max_count") and v == ("param", 2) for p, v in ps.writes)
        labs = [lab for s, lab in ps.conds]
        grows = [a for k, a, _ in ps.calls if k[1] == "grow"]
        if "Greater" in labs or grows:
            setr = [a for k, a, _ in ps.calls if k[1] in ("set_range", "insert_range") and a and a[0] == sfield("readiness_list")]
            armed = any(cval(a[-1]) == 1 for a in setr)
            cnt = [v for p, v in ps.writes if p == sfield("ready_count")]
            inc = False
            for v in cnt:
                vv = v[1] if v[0] == "field" else v
                if vv[0] == "binop" and vv[1].startswith("Add") and vv[2] == sfield("ready_count"):
                    inc = True
            grow_ok = bool(grows) and armed and inc
    ctx.check(grow_ok and allmax, rule, b.def_, "ReadinessVec::resize: growing sets the new bits, adds them to ready_count, max_count = len",
              site=b.span, sample=[ps.describe() for ps in pss])


def fields_of(M, body, adt_simple, agg_term):
    """Map field name -> term for an ADT aggregate term, using the ADT table for field order."""
    for path, a in M.F.adts.items():
        if a["cpath"].endswith("::" + adt_simple) and a["cpath"].startswith("futures_concurrency") and len(a["variants"]) == 1:
            names = [f["name"] for f in a["variants"][0]["fields"]]
            if len(names) == len(agg_term[2]):
                # prefer the ADT that the body's path mentions
                if a["path"].rsplit("::", 1)[0] in body.def_ or True:
                    return dict(zip(names, agg_term[2]))
    return {}


def check_nostd(ctx, M, rule):
    for owner in ("array::no_std::ReadinessArray", "vec::no_std::ReadinessVec"):
        if owner.startswith("vec") and M.config == "core":
            continue
        for name, want in (("set_ready", 0), ("clear_ready", 1), ("any_ready", 1)):
            b = find_method(M, owner, name)
            ctx.require(b is not None, "%s::%s" % (owner, name))
            pss = summaries(ctx, M, b, rule)
            ok = bool(pss) and all(cval(ps.ret) == want for ps in pss)
            ctx.check(ok, rule, b.def_, "no_std %s always returns %s" % (name, bool(want)), site=b.span, sample=[ps.describe() for ps in pss])
    for owner in ("array::no_std::WakerArray", "vec::no_std::WakerVec"):
        if owner.startswith("vec") and M.config == "core":
            continue
        b = find_method(M, owner, "get")
        ctx.require(b is not None, "%s::get" % owner)
        pss = summaries(ctx, M, b, rule)
        ok = bool(pss)
        for ps in pss:
            r = ps.ret
            good = (r[0] == "call" and r[1][1] == "parent_waker" and r[2] and r[2][0] == sfield("readiness")) or \
                   r == ("field", sfield("readiness"), "parent_waker")
            ok = ok and good
        ctx.check(ok, rule, b.def_, "no_std get(i) hands out the registered parent waker", site=b.span, sample=[ps.describe() for ps in pss])


def check_set_waker(ctx, M, rule):
    owners = ["readiness_array::ReadinessArray", "readiness_vec::ReadinessVec"] if M.config == "std" else (
        ["array::no_std::ReadinessArray"] + (["vec::no_std::ReadinessVec"] if M.config == "alloc" else []))
    for owner in owners:
        b = find_method(M, owner, "set_waker")
        ctx.require(b is not None, "%s::set_waker" % owner)
        pss = summaries(ctx, M, b, rule)
        ok = bool(pss)
        for ps in pss:
            stored = False
            for p, v in ps.writes:
                if p == sfield("parent_waker") and v[0] == "agg" and v[1] == ("Option", "Some") and v[2]:
                    x = v[2][0]
                    if x[0] == "call" and x[1][1] == "clone" and x[2][0] == ("param", 2):
                        stored = True
            for k, a, _ in ps.calls:
                if k[1] == "clone_from" and len(a) == 2 and a[1] == ("param", 2):
                    root = a[0]
                    while root[0] in ("field", "variant"):
                        if root == sfield("parent_waker"):
                            stored = True
                        root = root[1]
            ok = ok and stored
        ctx.check(ok, rule, b.def_, "set_waker stores (a clone of) the given waker on every path", site=b.span,
                  sample=[ps.describe() for ps in pss])


# ------------------------------------------------------------------------------------------------
# PollState predicates / setters
# ------------------------------------------------------------------------------------------------

def check_pollstate(ctx, M, rule):
    for name, variant in (("is_none", "None"), ("is_pending", "Pending"), ("is_ready", "Ready")):
        b = find_method(M, "poll_state::PollState", name)
        ctx.require(b is not None, "PollState::" + name)
        pss = summaries(ctx, M, b, rule)
        ok = bool(pss)
        seen_true = False
        for ps in pss:
            labs = [lab for s, lab in ps.conds if s[0] == "discr" or s == SELF]
            r = cval(ps.ret)
            if not labs:
                ok = False
                continue
            lab = labs[0]
            is_v = (lab == variant) or (isinstance(lab, tuple) and variant in lab and len(lab) == 1)
            if is_v:
                seen_true = True
                ok = ok and r == 1
            else:
                names = lab if isinstance(lab, tuple) else (lab,)
                if variant in names:
                    ok = False
                ok = ok and r == 0
        ctx.check(ok and seen_true, rule, b.def_, "PollState::%s is true exactly for %s" % (name, variant), site=b.span,
                  sample=[ps.describe() for ps in pss])
    for name, variant in (("set_none", "None"), ("set_pending", "Pending"), ("set_ready", "Ready")):
        b = find_method(M, "poll_state::PollState", name)
        ctx.require(b is not None, "PollState::" + name)
        bi = M.info(b)
        wrote = []
        for blk in sorted(b.reachable):
            for s in b.stmts(blk):
                if s["k"] == "assign" and s["lhs"]["p"]:
                    v = bi.T.of_rvalue(s["rv"], 0)
                    if v[0] == "agg" and isinstance(v[1], tuple) and v[1][0] == "PollState":
                        wrote.append(v[1][1])
                if s["k"] == "setdiscr":
                    wrote.append(str(s["variant"]))
        ctx.check(wrote == [variant], rule, b.def_, "PollState::%s writes %s" % (name, variant), site=b.span, sample={"writes": wrote})


# ------------------------------------------------------------------------------------------------
# Indexer rotation
# ------------------------------------------------------------------------------------------------

def _field_written_outside_ctor(M, adt_simple, fld):
    for x in M.F.bodies:
        for blk in x.j["blocks"]:
            for st in blk["stmts"]:
                if st["k"] != "assign":
                    continue
                for pe in st["lhs"]["p"]:
                    if isinstance(pe, dict) and pe.get("name") == fld and str(pe.get("adt") or "").endswith("::" + adt_simple):
                        return True
    return False


def check_indexer(ctx, M, rule):
    b = find_method(M, "indexer::Indexer", "new")
    ctx.require(b is not None, "Indexer::new")
    pss = summaries(ctx, M, b, rule)
    ok = bool(pss)
    for ps in pss:
        r = ps.ret
        ok = ok and r[0] == "agg" and r[1] == ("Indexer", "Indexer")
        if ok:
            f = fields_of(M, b, "Indexer", r)
            ok = f.get("offset") == ("const", 0) and f.get("max") == ("param", 1)
    ctx.check(ok, rule, b.def_, "Indexer::new(max): offset = 0, max = argument", site=b.span, sample=[ps.describe() for ps in pss])

    b = find_method(M, "indexer::Indexer", "iter")
    ctx.require(b is not None, "Indexer::iter")
    pss = summaries(ctx, M, b, rule)
    ok = bool(pss)
    probs = []
    end_alias = None       # fields of IndexIter that every constructor sets to the very value it uses as the range's end
    for ps in pss:
        r = ps.ret
        good = r[0] == "agg" and r[1] == ("IndexIter", "IndexIter")
        if good:
            f = fields_of(M, b, "IndexIter", r)
            rng = f.get("iter")
            good = rng is not None and rng[0] == "agg" and rng[1] == ("Range", "Range") and rng[2] == (("const", 0), sfield("max"))
            if good:
                al = {k for k, v in f.items() if k != "iter" and v == rng[2][1]}
                end_alias = al if end_alias is None else (end_alias & al)
            # offset handed to the iterator is the *old* offset
            good = good and f.get("offset") == sfield("offset")
        if not good:
            probs.append("returned iterator is not IndexIter{0..max, old offset}")
        adv = [v for p, v in ps.writes if p == sfield("offset")]
        ok_adv = False
        for v in adv:
            # (offset + 1) rem max, in wrapping_rem / Rem forms
            if v[0] == "call" and v[1][1] in ("wrapping_rem", "rem_euclid", "rem") and len(v[2]) == 2 and v[2][1] == sfield("max"):
                if delta_of(v[2][0], sfield("offset")) == 1:
                    ok_adv = True
            if v[0] == "binop" and v[1] == "Rem" and v[3] == sfield("max") and delta_of(v[2], sfield("offset")) == 1:
                ok_adv = True
        if len(adv) != 1 or not ok_adv:
            probs.append("offset is not advanced by exactly one (mod max) per call")
        # the old offset must be read before the write: the aggregate uses a copy taken first
    # ordering of read-before-write: the local holding `offset` for the iterator must be defined before the write
    body = b
    bi = M.info(b)
    read_first = offset_read_before_write(bi)
    if not read_first:
        probs.append("iterator is built from the already advanced offset")
    if probs:
        for p in sorted(set(probs)):
            ctx.fail(rule, b.def_, "Indexer::iter: " + p, site=b.span)
    else:
        ctx.ok(rule, b.def_, "Indexer::iter returns a rotation starting at the old offset and advances offset by one mod max",
               sample=[ps.describe() for ps in pss])

    # IndexIter::next : (pos + offset) rem end over 0..end
    nb = None
    for x in M.F.bodies:
        if x.name == "next" and x.kind == "AssocFn" and x.impl_self is not None and (M.adt_of_type(x.impl_self) or "").endswith("indexer::IndexIter"):
            nb = x
    ctx.require(nb is not None, "IndexIter::next")
    pss = summaries(ctx, M, nb, rule)
    ok = bool(pss)
    clos = None
    for ps in pss:
        r = ps.ret
        good = r[0] == "call" and r[1] == ("Option", "map") and r[2][0][0] == "call" and r[2][0][1][1] == "next" and r[2][0][2][0] == sfield("iter")
        if good and r[2][1][0] == "agg" and r[2][1][1][0] == "closure":
            clos = r[2][1][1][1]
            caps = r[2][1][2]
            ends = {("field", sfield("iter"), "end")}
            for fld in (end_alias or ()):
                # a cached copy of the length: set by the (only) constructor to the range's end and never written again
                if not _field_written_outside_ctor(M, "IndexIter", fld):
                    ends.add(sfield(fld))
            good = any(e in caps for e in ends) and sfield("offset") in caps
        else:
            good = False
        ok = ok and good
    formula = False
    if clos:
        cb = M.by_cdef.get(clos)
        if cb is not None:
            cps = summaries(ctx, M, cb, rule)
            for ps in cps:
                r = ps.ret
                # wrapping_rem(pos + *offset, *end)
                if r[0] == "call" and r[1][1] in ("wrapping_rem", "rem") or r[0] == "binop" and r[1] == "Rem":
                    args = r[2] if r[0] == "call" else (r[2], r[3])
                    s = args[0]
                    s = s[1] if s[0] == "field" and s[2] == 0 else s
                    if s[0] == "binop" and s[1].startswith("Add"):
                        ops = {s[2], s[3]}
                        pos_ok = ("param", 2) in ops
                        off_ok = any(o[0] == "field" and o[1] == ("param", 1) for o in ops)
                        end_ok = args[1][0] == "field" and args[1][1] == ("param", 1)
                        formula = pos_ok and off_ok and end_ok and s[2] != s[3]
    if not (ok and formula):
        # direct form: `let pos = self.iter.next()?; Some((pos + self.offset).wrapping_rem(self.iter.end))`
        nbi = M.info(nb)
        nexts = [s for s in nbi.sites if s.callee.name == "next" and s.arg(0) == sfield("iter")]
        direct = False
        none_ok = False
        if len(nexts) == 1:
            for ps in pss:
                r = ps.ret
                if r is None:
                    continue
                if r[0] == "agg" and r[1] == ("Option", "Some") and r[2]:
                    v = r[2][0]
                    if (v[0] == "call" and v[1][1] in ("wrapping_rem", "rem") and len(v[2]) == 2) or (v[0] == "binop" and v[1] == "Rem"):
                        a0, a1 = (v[2][0], v[2][1]) if v[0] == "call" else (v[2], v[3])
                        s_ = a0[1] if a0[0] == "field" and a0[2] == 0 else a0
                        if s_[0] == "binop" and s_[1].startswith("Add") and s_[2] != s_[3]:
                            ops = (s_[2], s_[3])
                            pos_ok = any(any(z[0] == "call" and z[3] == nexts[0].block for z in subterms(o)) for o in ops)
                            off_ok = sfield("offset") in ops
                            end_ok = a1 == ("field", sfield("iter"), "end")
                            direct = direct or (pos_ok and off_ok and end_ok)
                elif (r[0] == "agg" and r[1] == ("Option", "None")) or (r[0] == "call" and r[1][1] == "from_residual"):
                    none_ok = True
        ok, formula = (direct and none_ok), (direct and none_ok)
    ctx.check(ok and formula, rule, nb.def_, "IndexIter::next yields (pos + offset) rem end for pos in 0..end", site=nb.span,
              sample=[ps.describe() for ps in pss])


def offset_read_before_write(bi):
    """In Indexer::iter the value given to the iterator must be read from self.offset before the
    field is overwritten (statement order inside the single path)."""
    body = bi.body
    read_pos = None
    write_pos = None
    pos = 0
    try:
        paths = summary.enumerate_paths(body)
    except summary.TooComplex:
        return False
    if not paths:
        return False
    for b in paths[0]:
        for s in body.stmts(b):
            pos += 1
            if s["k"] != "assign":
                continue
            rv = s["rv"]
            lhs = s["lhs"]
            if rv["k"] == "use" and not lhs["p"]:
                t = bi.T.of_operand(rv["op"])
                if t == sfield("offset") and body.locals[lhs["l"]].get("user"):
                    if read_pos is None:
                        read_pos = pos
            if lhs["p"] and bi.T.of_place(lhs) == sfield("offset"):
                write_pos = pos
        pos += 1
    if write_pos is None:
        return False
    if read_pos is None:
        # the aggregate may read self.offset directly: then it must precede the write
        return False
    return read_pos < write_pos
