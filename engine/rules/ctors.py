"""Entry-point (constructor) rules shared by the positional families.

The poll-body rules decide what happens to "child i"; which operand *is* child i is decided where the
combinator is built: `(a, b).join()`, `[..].merge()`, `vec.race_ok()`.  The rule here reads the value
the family trait method returns (a struct literal, or a call of the inherent `new`, both seen through
`flow.struct_view`) and requires that

  * tuple:  position K of the children container (field K of the `Futures`/`Streams` sub-struct, or the
            field whose type is the K-th type parameter) is `self.K`, converted by IntoFuture /
            IntoStream / storage wrappers only;
  * array / Vec: the children container is `self`, passed through element-wise, order- and
            length-preserving adapters only (`into_iter`, `map(into_future)`, `collect`, `array::map`,
            `FutureArray::new`, `Into::into` ...): no `rev`, `skip`, `take`, `filter`, `zip` ...;
  * no carrier of that value is handed out by `&mut` to anything else on the way (`v.swap(..)`,
    `v.reverse()`, `v.truncate(..)`, `v.retain(..)`).

So every operand becomes a child, exactly once, at its own position."""
from ..facts import base
from .. import scan, families
from . import flow

ELEM_WRAPPERS = {
    ("IntoFuture", "into_future"), ("IntoStream", "into_stream"), ("ManuallyDrop", "new"), ("MaybeDone", "new"),
    ("Box", "pin"), ("Pin", "new"), ("Pin", "new_unchecked"), ("Box", "new"), ("Fuse", "new"),
}
ELEM_LITERALS = {("MaybeDone", "Future"), ("ManuallyDrop", "ManuallyDrop")}
CONTAINER_WRAPPERS = {
    ("FutureArray", "new"), ("FutureVec", "new"), ("Iterator", "collect"), ("Vec", "into_iter"), ("IntoIterator", "into_iter"),
    ("array", "into_iter"), ("param", "into"), ("Into", "into"), ("Vec", "into_boxed_slice"), ("Box", "into_pin"), ("Pin", "from"),
    ("From", "from"), ("Box", "pin"), ("Vec", "from"), ("Vec", "from_iter"), ("FromIterator", "from_iter"), ("Box", "from_iter"),
    ("Iterator", "by_ref"), ("Iterator", "fuse"), ("Vec", "into_boxed_slice"), ("slice", "into_vec"), ("Box", "into_pin"),
}
MAPS = {("Iterator", "map"), ("array", "map")}


def peel_elem(t, root):
    """strip element wrappers; returns the innermost term"""
    n = 0
    while isinstance(t, tuple) and t and n < 8:
        if t[0] == "call" and t[1] in ELEM_WRAPPERS and t[2]:
            t = t[2][0]
        elif t[0] == "agg" and isinstance(t[1], tuple) and t[1] in ELEM_LITERALS and len(t[2]) == 1:
            t = t[2][0]       # the constructor written out: `MaybeDone::Future(fut)`
        else:
            break
        n += 1
    return t


def _elem_fn_ok(M, f):
    if not isinstance(f, tuple) or not f:
        return False
    if f[0] == "fn":
        return f[1] in ELEM_WRAPPERS
    if f[0] == "agg" and isinstance(f[1], tuple) and f[1][0] == "closure":
        rt = M.F.closure_return_term(f[1][1])
        return rt is not None and peel_elem(rt, None) == ("param", 2)
    if f[0] == "closure":
        rt = M.F.closure_return_term(f[1])
        return rt is not None and peel_elem(rt, None) == ("param", 2)
    return False


ITER_ID = {"into_iter", "by_ref", "fuse"}


def push_loop_source(M, bi, t):
    """`let mut v = Vec::with_capacity(n); for x in src { v.push(wrap(x)); }`: when `t` is the fresh vector and the body
    fills it by one push per item of a loop over `src` (every item, once, loop left only when the iterator is
    exhausted), returns (src term, None); (None, reason) when the shape is there but wrong; (None, None) otherwise."""
    if bi is None or not (t[0] == "call" and t[1] in (("Vec", "with_capacity"), ("Vec", "new"))):
        return None, None
    pushes = [s for s in bi.sites if s.key == ("Vec", "push") and s.arg(0) == t]
    if not pushes:
        return None, None
    if len(pushes) != 1:
        return None, "the children vector is pushed to in %d places" % len(pushes)
    p = pushes[0]
    r = scan.loop_item_root(peel_elem(p.arg(1), None))
    loop = bi.body.innermost_loop(p.block)
    if r is None or loop is None:
        return None, "children are pushed outside a loop over the operand"
    if peel_elem(p.arg(1), None) != ("field", ("variant", r, "Some"), 0):
        return None, "the pushed child is not the loop item converted by into_future / into_stream"
    nxt = bi.by_block.get(r[3])
    if nxt is None or nxt.callee.name != "next":
        return None, "the loop is not driven by Iterator::next"
    se = bi.outcome_edges(nxt, "Some")
    ne = bi.outcome_edges(nxt, "None")
    ok, bad = bi.must_reach([x for _, x in se], [p.block], [loop[0]] + list(bi.return_blocks))
    if not se or not ok:
        return None, "an item of the operand can skip the push"
    for rb in bi.return_blocks:
        if not bi.guarded_by(rb, ne):
            return None, "the fill loop can end before the operand is exhausted"
    it = nxt.arg(0)
    k = 0
    while it[0] == "call" and it[1][1] in ITER_ID and it[2] and k < 6:
        it = it[2][0]
        k += 1
    return it, None


def peel_container(M, t, bi=None):
    """strip order/length preserving container adapters; returns (innermost term, reason or None)"""
    n = 0
    while isinstance(t, tuple) and t and t[0] == "call" and n < 12:
        key = t[1]
        src, why = push_loop_source(M, bi, t)
        if why:
            return t, why
        if src is not None:
            t = src
            n += 1
            continue
        if key in MAPS and len(t[2]) >= 2:
            if not _elem_fn_ok(M, t[2][1]):
                return t, "children are mapped through something other than into_future / into_stream"
            t = t[2][0]
        elif key in CONTAINER_WRAPPERS and t[2]:
            t = t[2][0]
        else:
            return t, "children pass through %s::%s, which is not known to keep every element in place" % (key[0], key[1])
        n += 1
    return t, None


CHILD_FIELDS = ("futures", "streams", "elems")
SIZED_TABLES = {("OutputVec", "uninit"), ("WakerVec", "new"), ("PollVec", "new_pending"), ("PollVec", "new"), ("Indexer", "new"),
                ("OutputArray", "uninit_sized")}


def _tuple_field_positions(M, member):
    """child field name -> tuple position for tuple members whose children are separate fields typed by a type parameter"""
    F = M.F
    a = F.adts_c.get(member.adt)
    impl = member.impl
    st = F.types[impl["self_ty"]]
    if a is None or st["k"] != "tuple":
        return {}
    fam = {}
    for k, tix in enumerate(st["tys"]):
        t = F.types[tix]
        if t["k"] == "param":
            fam[t["name"]] = k
    assoc = None
    for it in impl["items"]:
        if it["kind"] == "type" and it.get("ty") is not None:
            t = F.types[it["ty"]]
            if t["k"] == "adt" and t.get("cpath") == member.adt:
                assoc = t
    if assoc is None:
        return {}
    struct_pos = {}
    for j, x in enumerate(assoc["args"]):
        if not isinstance(x, int):
            continue
        t = F.types[x]
        name = None
        if t["k"] == "param":
            name = t["name"]
        elif t["k"] == "alias" and t.get("args") and isinstance(t["args"][0], int) and F.types[t["args"][0]]["k"] == "param":
            name = F.types[t["args"][0]]["name"]
        if name in fam:
            struct_pos[j] = fam[name]
    out = {}
    for f in a["variants"][0]["fields"]:
        t = F.types[f["ty"]]
        if t["k"] == "param" and t.get("idx") in struct_pos:
            out[f["name"]] = struct_pos[t["idx"]]
    return out


def rule_children(ctx, M, u, rule):
    m = u.member
    if m is None or m.ctor is None:
        return
    body = m.ctor
    bi = M.info(body)
    where = body.def_
    rets = flow.returned_values(bi)
    simple = m.adt.rsplit("::", 1)[-1]
    if len(rets) != 1:
        ctx.fail(rule, where, "%s entry point does not return one constructed value" % m.label, site=body.span)
        return
    view = flow.struct_view(M, rets[0][3], simple, bi=bi)
    if view is None:
        ctx.fail(rule, where, "%s entry point: returned value is not a fresh %s" % (m.label, simple), site=body.span)
        return
    selfp = ("param", 1)
    probs = []
    n = 0
    if u.container == "tuple":
        arity = u.arity or 0
        slots = {}
        for name in CHILD_FIELDS:
            v = view.get(name)
            if v is not None and v[0] == "agg" and len(v[2]) == arity:
                slots = {k: x for k, x in enumerate(v[2])}
        if not slots:
            pos = _tuple_field_positions(M, m)
            slots = {k: view[name] for name, k in pos.items() if name in view}
        if sorted(slots) != list(range(arity)):
            probs.append("children of the %d positions not found in the constructed value" % arity)
        for k, v in sorted(slots.items()):
            inner = peel_elem(v, selfp)
            n += 1
            if inner != ("field", selfp, k):
                probs.append("position %d is not built from operand %d" % (k, k))
    else:
        v = None
        for name in CHILD_FIELDS:
            if name in view:
                v = view[name]
        if v is None:
            probs.append("children container not found in the constructed value")
        else:
            inner, why = peel_container(M, v, bi=bi)
            n += 1
            if why:
                probs.append(why)
            elif inner != selfp:
                probs.append("children container is not built from the operand")
            # every per-child table is sized by the number of children (not by a capacity, not by another container)
            for name, tv in sorted(view.items()):
                if tv is None or tv[0] != "call" or tv[1] not in SIZED_TABLES or not tv[2]:
                    continue
                sz = tv[2][0]
                good = False
                if sz[0] == "call" and sz[1][1] == "len" and sz[2]:
                    src, w2 = peel_container(M, sz[2][0], bi=bi)
                    good = w2 is None and src == selfp
                elif u.container == "array" and sz[0] in ("sym", "constexpr"):
                    good = True       # the array's length parameter
                if not good:
                    probs.append("`%s` is not sized by the number of children (%s)" % (name, families.short(sz)))
    # nothing rearranges the operand / the container in place on the way
    for b_ in (m.ctor, m.new):
        if b_ is None:
            continue
        bj = M.info(b_)
        from ..mir import op_place
        ops = []
        for blk, i, rv in bj.assigns_to_return():
            if rv.get("k") == "callresult":
                t = b_.term(blk)
                ops += [a for a in t["args"] if "mv" in a]
            elif rv.get("k") == "agg":
                ops += rv["fields"]
            elif rv.get("k") == "use":
                ops.append(rv["op"])
        car = set()
        for op in ops:
            car |= flow.carrier_locals(bj, op)
        # the operand itself (a by-value parameter) is a carrier too
        car |= {l for l in range(1, b_.argc + 1)}
        muts = [(s, l) for s, l in flow.in_place_mutators(bj, car) if s.key not in flow.ALLOWED_MUTATORS and not _reads_only(s)
                and not (s.key == ("Vec", "push") and push_loop_source(M, bj, s.arg(0))[0] is not None)]
        for s, l in muts[:3]:
            probs.append("%s receives &mut of the children on their way into the combinator" % ("%s::%s" % s.key))
    ctx.check(not probs, rule, where, "%s: every operand becomes the child of its own position (converted by into_future / into_stream only)" % m.label,
              site=body.span, path=probs, sample={"children": n})


READ_ONLY = {"len", "is_empty", "iter", "as_ref", "capacity", "fmt", "as_slice"}


def _reads_only(s):
    return s.callee.name in READ_ONLY


PERMUTING = {"rotate_left", "rotate_right", "swap", "reverse", "sort", "sort_by", "sort_by_key", "sort_unstable", "sort_unstable_by",
             "sort_unstable_by_key", "swap_remove", "remove", "insert", "retain", "retain_mut", "drain", "truncate", "split_off", "dedup",
             "dedup_by", "dedup_by_key", "copy_within", "swap_with_slice", "clone_from_slice", "copy_from_slice", "select_nth_unstable",
             "push", "pop", "append", "extend", "resize", "resize_with", "clear", "shrink_to_fit"}


def rule_stable(ctx, M, u, rule):
    """Position K stays position K: no poll or drop body of a positional combinator permutes, shifts, grows or shrinks the
    children container or one of its per-position tables (slots, states, error buffers)."""
    m = u.member
    if m is None:
        return
    bad = []
    n = 0
    for b_ in (m.poll, m.drop):
        if b_ is None:
            continue
        bj = M.info(b_)
        for s in bj.sites:
            if s.callee.indirect or not s.args:
                continue
            n += 1
            if s.callee.name in PERMUTING and s.callee.owner in ("slice", "Vec", "array", "VecDeque", "Box", "Pin") and families.self_path(s.arg(0)) is not None:
                bad.append("%s::%s on self.%s (%s)" % (s.callee.owner, s.callee.name, ".".join(str(x) for x in families.self_path(s.arg(0))), s.where))
    ctx.check(not bad, rule, m.poll.def_ if m.poll is not None else u.where,
              "%s: children and their per-position tables are never permuted, shifted or resized after construction" % m.label,
              site=u.body.span, path=bad[:4], sample={"calls_examined": n})


def run_family(ctx, M, units, rule, cfg):
    """one instance per member ADT of the family; floor = 12 tuple arities + array (+ Vec with alloc)"""
    seen = set()
    for u in units:
        if u.member is None or u.member.adt in seen:
            continue
        seen.add(u.member.adt)
        rule_children(ctx, M, u, rule)
        rule_stable(ctx, M, u, rule)
    ctx.floor(rule, cfg, 2 * (13 if base(cfg) == "core" else 14))
