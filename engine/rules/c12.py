"""C12 — StreamGroup: every member item exactly once, in member order; exact set view."""
from .. import scan, families
from ..families import short
from . import grouplike, flow, common
from .grouplike import sf

PROPERTY = "C12"
LEVEL = "other"
CONFIGS_QUICK = ["std", "alloc", "std-rel"]
CONFIGS_THOROUGH = ["std", "alloc", "std-rel", "alloc-rel"]
EXPLANATION = (
    "Inductive-invariant check on the MIR of StreamGroup (same representation invariant as FutureGroup): INSERT / RESERVE / REMOVE / "
    "EMPTY / VIEW / POLL as for C11, plus (ITEM) on a member's Ready(Some) edge the yielded value is Ready(Some((Key(i), that item))) "
    "- unmodified, stored on every such path - the member stays Pending, is re-armed, and the scan stops (no buffer exists, so "
    "per-member order is kept); (ENDM) on a member's Ready(None) edge: states[i] := None, slab.remove(i), key_removal_queue.push(i) "
    "and the per-poll ended counter +1, each exactly once and only there, after which the scan continues; (DRAIN) after the scan, "
    "on every path to the return, every queued key is removed from `keys` (loop over the whole queue) and the queue is cleared; "
    "(NONE) apart from the empty-group return, Ready(None) is produced only under ended-counter == number of members read before the "
    "scan, with the counter initialised to 0 in this call. The history-level statement follows by induction; it is not enumerated.")
EXPLANATION += (' (CTOR) with_capacity / new build slab, waker table, state table, capacity and the key-removal queue consistently; from_iter inserts every item of the whole iterator exactly once.')
ASSUMPTIONS = [
    "slab::Slab / BTreeSet / SmallVec library models (live keys distinct; push/iter/clear act on the whole queue)",
    "the induction over operation histories is a paper argument from the per-operation obligations checked here",
]
RULES = {
    "C12.LIVE": "premises from the wake protocol, re-checked here for this family: task waker registered first, child polled with its own sub-waker (or the caller's context), no readiness lock across a child poll, a cleared bit is followed by a poll, re-arm after an item, readiness primitives / Wake::wake forward correctly",
    "C12.INSERT": "insert: growth test dominates the slab insert; key/state/arm/return all use the slab key",
    "C12.RESERVE": "reserve: no-op iff len+additional < capacity; else wakers, states, capacity := capacity+additional",
    "C12.REMOVE": "remove: key, state None and slab entry together iff present; returns presence",
    "C12.ITEM": "member Some => yields (Key(i), item) unmodified, stays Pending, re-armed, scan stops",
    "C12.ENDM": "member None => state None, slab.remove, queue.push, ended+1 - once each, only there; scan continues",
    "C12.DRAIN": "every queued key is removed from keys and the queue cleared before the return",
    "C12.NONE": "Ready(None) only when empty, or ended == member count read before the scan (counter starts at 0)",
    "C12.EMPTY": "is_empty first; early Ready(None) exactly when empty",
    "C12.CTOR": "with_capacity(c): slab, waker table, state table and recorded capacity all sized c, key set empty; new() = with_capacity(0)",
    "C12.VIEW": "observers and front-ends read the representation faithfully",
    "C12.POLL": "member polled only if Pending and armed; index from keys; finishing mark; stop after a yield",
}


def run(ctx):
    for rid, text in RULES.items():
        ctx.rule(rid, text)
    for cfg in ctx.configs:
        ctx.current_config = cfg
        M = ctx.model(cfg)
        gname = "stream_group"
        grouplike.rule_insert(ctx, M, gname, "C12.INSERT")
        grouplike.rule_insert_pinned(ctx, M, gname, "C12.INSERT")
        grouplike.rule_reserve(ctx, M, gname, "C12.RESERVE")
        grouplike.rule_remove(ctx, M, gname, "C12.REMOVE")
        grouplike.rule_view(ctx, M, gname, "C12.VIEW")
        grouplike.rule_ctor(ctx, M, gname, "C12.CTOR")
        u = grouplike.group_unit(M, gname)
        ctx.require(u is not None, "StreamGroup::poll_next_inner")
        none_guard = rule_none(ctx, M, u)
        grouplike.rule_empty(ctx, M, u, "C12.EMPTY", extra_guards=none_guard)
        rule_item(ctx, M, u)
        rule_endm(ctx, M, u)
        rule_drain(ctx, M, u)
        grouplike.rule_poll_shared(ctx, M, u, "C12")
        from . import c01
        c01.live_premises(ctx, M, [u], "C12.LIVE")
        ctx.floor("C12.VIEW", cfg, 6)
        ctx.floor("C12.ITEM", cfg, 2)
        ctx.floor("C12.ENDM", cfg, 1)
        ctx.floor("C12.DRAIN", cfg, 2)
        ctx.floor("C12.NONE", cfg, 1)
        ctx.floor("C12.POLL", cfg, 4)
    return {}


class _OneSite(Exception):
    pass


def the_cps(ctx, u):
    ctx.require(len(u.cps) >= 1, "StreamGroup::poll_next_inner child poll (found %d)" % len(u.cps))
    if len(u.cps) != 1:
        # a second poll site (a "lone member" fast path) is outside the one gated scan the bookkeeping is defined for
        ctx.fail("C12.POLL", u.where, "members are polled at %d sites; every member poll must be the gated scan site" % len(u.cps), site=u.cps[1].where)
    return u.cps[0]


def local_counters(bi):
    """per-poll counters kept in a local:
         up:    `L = 0`              and `L = L + 1`   (compared with the number of members)
         down:  `L = <some count>`   and `L = L - 1`   (compared with 0)
       L -> (init [(block, const or term)], step blocks, other def blocks); DIRECTION[L] = +1 / -1"""
    out = {}
    body = bi.body
    for L, defs in body.defs.items():
        live = [d for d in defs if d[0] in body.reachable and not body.is_cleanup(d[0])]
        if len(live) < 2 or body.local_tys(L) not in ("usize", "u32", "u64", "i32"):
            continue
        init, inc, dec, other = [], [], [], []
        for d in live:
            if d[2] != "assign":
                init.append((d[0], bi.T._of_def(L, d, 1)))      # e.g. the destination of `slab.len()`
                continue
            rv = d[3]
            if rv["k"] == "use" and "c" in rv["op"] and rv["op"]["c"].get("v") is not None:
                init.append((d[0], int(rv["op"]["c"]["v"])))
                continue
            # L = move (tmp.0) where tmp = AddWithOverflow(copy L, 1)   or   L = Add(copy L, 1)
            t = bi.T.of_rvalue(rv, 0)
            tt = t[1] if t[0] == "field" and t[2] == 0 else t
            if tt[0] == "binop" and tt[1].startswith("Add") and ("phi", L) in (tt[2], tt[3]) and ("const", 1) in (tt[2], tt[3]):
                inc.append(d[0])
            elif tt[0] == "binop" and tt[1].startswith("Sub") and tt[2] == ("phi", L) and tt[3] == ("const", 1):
                dec.append(d[0])
            elif tt[0] not in ("binop",) and tt != ("phi", L):
                init.append((d[0], tt))                          # a copy of some count
            else:
                other.append(d[0])
        if init and inc and not dec:
            out[L] = (init, inc, other)
            DIRECTION[(id(bi), L)] = 1
        elif init and dec and not inc:
            out[L] = (init, dec, other)
            DIRECTION[(id(bi), L)] = -1
    return out


DIRECTION = {}


def rule_item(ctx, M, u):
    bi = u.bi
    c = the_cps(ctx, u)
    se = bi.outcome_edges(c.site, "Ready", "Some")
    header, exits = common.loop_exits(bi, c.block)
    probs = []
    if not se:
        probs.append("no Ready(Some) edge")
    want = ("agg", ("Option", "Some"), (("agg", "tuple", (("agg", ("Key", "Key"), (c.idx,)),
                                                        ("field", ("variant", ("field", ("variant", c.site.term, "Ready"), 0), "Some"), 0))),))
    yields = [r for r in flow.returned_values(bi) if r[1] == "Ready(Some)"]
    good = [r for r in yields if r[3] == ("agg", ("Poll", "Ready"), (want,))]
    if len(yields) != 1 or len(good) != 1:
        probs.append("the yielded value is not Ready(Some((Key(i), the member's own item)))")
    else:
        yb = good[0][0]
        if not bi.guarded_by(yb, se):
            probs.append("an item is yielded without the member having produced one")
        okm, bad = bi.must_reach([t for _, t in se], [yb], exits)
        if not okm:
            probs.append("a member's item is not stored for return on every path")
        r2 = bi.reach_from_edges(se)
        if c.block in r2 or (header is not None and header in r2):
            probs.append("the scan continues after a member yielded (its item could be overwritten)")
    # the member stays live: no slab removal / state None on the Some path
    r2 = bi.reach_from_edges(se)
    dead = [b for b, variant, idx, base, w in scan.state_sets(bi) if variant in ("None", "Ready") and b in r2 and bi.guarded_by(b, se)]
    rm = [s.block for s in bi.sites if s.key == ("Slab", "remove") and s.block in r2 and bi.guarded_by(s.block, se)]
    if dead or rm:
        probs.append("a member that yielded an item is removed / marked finished")
    if probs:
        for p in sorted(set(probs)):
            ctx.fail("C12.ITEM", u.where, p, site=c.where)
    else:
        ctx.ok("C12.ITEM", u.where, "member Some => yields (Key(i), item), stays live, scan stops")
    flow.rule_integrity(ctx, bi, "C12.ITEM", u.where, ("Ready(Some)",), "the yielded (key, item) pair")


def rule_endm(ctx, M, u):
    bi = u.bi
    c = the_cps(ctx, u)
    ne = bi.outcome_edges(c.site, "Ready", "None")
    header, exits = common.loop_exits(bi, c.block)
    probs = []
    if not ne:
        ctx.fail("C12.ENDM", u.where, "no Ready(None) edge", site=c.where)
        return
    st = [b for b, variant, idx, base, w in scan.state_sets(bi) if variant == "None" and idx == c.idx]
    sr = [s.block for s in bi.sites if s.key == ("Slab", "remove") and s.arg(0) == sf("streams") and s.arg(1) == c.idx]
    all_sr = [s.block for s in bi.sites if s.callee.owner == "Slab" and s.callee.name in ("remove", "try_remove", "clear")]
    qp = [s.block for s in bi.sites if s.callee.owner == "SmallVec" and s.callee.name == "push" and s.arg(0) == sf("key_removal_queue") and s.arg(1) == c.idx]
    all_qp = [s.block for s in bi.sites if s.callee.name in ("push", "insert", "extend") and s.arg(0) == sf("key_removal_queue")]
    counters = local_counters(bi)
    cnt = [L for L, (init, inc, other) in counters.items() if any(bi.guarded_by(b, ne) for b in inc)]
    inc_blocks = counters[cnt[0]][1] if len(cnt) == 1 else []
    for name, blocks in (("states[i] := None", st), ("slab.remove(i)", sr), ("key_removal_queue.push(i)", qp), ("ended counter + 1", inc_blocks)):
        for p in flow.once_on_paths(bi, [t for _, t in ne], [b for b in blocks if bi.guarded_by(b, ne)], exits):
            probs.append("%s: %s" % (name, p))
    if set(all_sr) != set(sr) or set(all_qp) != set(qp) or not all(bi.guarded_by(x, ne) for x in sr + qp + inc_blocks):
        probs.append("slab removal / queue push / ended counter also happen outside the member's own None edge")
    r = bi.reach_from_edges(ne, stop_blocks=[header] if header is not None else [])
    if header is None or header not in r or any(x in r for x in bi.return_blocks):
        probs.append("the scan does not continue after a member ended")
    if probs:
        for p in sorted(set(probs)):
            ctx.fail("C12.ENDM", u.where, p, site=c.where)
    else:
        ctx.ok("C12.ENDM", u.where, "member None => state None, slab.remove(i), queue.push(i), ended+1 once each; scan continues")


def rule_drain(ctx, M, u):
    bi = u.bi
    c = the_cps(ctx, u)
    q = sf("key_removal_queue")
    kr = [s for s in bi.sites if s.key == ("BTreeSet", "remove") and s.arg(0) == sf("keys")]
    cl = [s for s in bi.sites if s.callee.name == "clear" and s.arg(0) == q]
    probs = []
    good_kr = []
    for s in kr:
        r = scan.loop_item_root(s.arg(1))
        if r is not None and r[2] and r[2][0][0] == "call" and r[2][0][1][1] in ("iter", "drain", "into_iter") and r[2][0][2] and r[2][0][2][0] == q:
            nxt = bi.by_block.get(r[3])
            se = bi.outcome_edges(nxt, "Some") if nxt is not None else []
            lp = bi.body.innermost_loop(s.block)
            if se and lp is not None:
                ok, bad = bi.must_reach([t for _, t in se], [s.block], [lp[0]] + list(bi.return_blocks))
                if ok:
                    good_kr.append((s, nxt))
    # closure form: `queue.iter().for_each(|key| { keys.remove(key); })` - every item, once, no early exit
    foreach = None
    if not good_kr:
        for s in bi.sites:
            if s.callee.name == "for_each" and s.args and len(s.args) >= 2:
                it, cl_t = s.arg(0), s.arg(1)
                if not (it[0] == "call" and it[1][1] in ("iter", "drain", "into_iter") and it[2] and it[2][0] == q):
                    continue
                cp = cl_t[1][1] if cl_t[0] == "agg" and isinstance(cl_t[1], tuple) and cl_t[1][0] == "closure" else (cl_t[1] if cl_t[0] == "closure" else None)
                cb = M.by_cdef.get(cp) if cp else None
                if cb is None:
                    continue
                cbi = M.info(cb)
                rem = [x for x in cbi.sites if x.key == ("BTreeSet", "remove")]
                caps = cl_t[2] if cl_t[0] == "agg" else ()
                if len(rem) == 1 and rem[0].arg(1) == ("param", 2) and all(cb.dominates(rem[0].block, r_) for r_ in cbi.return_blocks) \
                        and any(c_ == sf("keys") for c_ in caps):
                    foreach = s
    if foreach is not None:
        class _N:
            pass
        nx = _N()
        nx.block = foreach.block
        good_kr = [(foreach, nx)]
        kr = kr + [foreach]
    drains = bool(good_kr) and foreach is None and scan.loop_item_root(good_kr[0][0].arg(1))[2][0][1][1] == "drain"
    if foreach is not None and foreach.arg(0)[1][1] == "drain":
        drains = True
    if len(good_kr) != 1:
        probs.append("no loop removing every queued key from `keys`")
    if len(cl) != 1 and not drains:
        probs.append("the key removal queue is not cleared exactly once")
    if drains and not cl:
        # `for key in queue.drain(..)` empties the queue by itself: the loop is the clearing
        class _C:
            pass
        c_ = _C()
        c_.block = good_kr[0][1].block
        nx_ = good_kr[0][1]
        cl = [c_]
    ne = bi.outcome_edges(c.site, "Ready", "None")
    if good_kr and cl and ne:
        s, nxt = good_kr[0]
        # from a member's None edge: the removal loop's next() and then clear() are reached before the return
        # library model: after `queue.push(i)` (C12.ENDM: pushed on every such path, nothing pops before the
        # drain) `queue.is_empty()` is false, so the skip edge of `if !queue.is_empty()` is infeasible here
        skip = []
        for t_ in bi.sites:
            if t_.callee.name == "is_empty" and t_.arg(0) == q:
                skip += bi.outcome_edges(t_, True)
        for name, blocks in (("the key-removal loop", [nxt.block]), ("queue.clear()", [cl[0].block])):
            r_ = bi.reach_from_edges(ne, avoid_blocks=blocks, stop_blocks=bi.return_blocks, avoid_edges=skip)
            ok = not any(x in r_ for x in bi.return_blocks)
            if not ok:
                probs.append("%s is not reached on every path from a member's end to the return" % name)
        # clear only after the loop is exhausted
        exit_e = bi.outcome_edges(nxt, "None") if foreach is None else ([(foreach.block, foreach.target)] if foreach.target is not None else [])
        if not drains and (not exit_e or not bi.guarded_by(cl[0].block, exit_e)):
            probs.append("the queue is cleared before every queued key was removed")
    ctx.check(not probs, "C12.DRAIN", u.where, "queued keys are all removed from `keys`, then the queue is cleared, before the return",
              site=u.body.span, path=probs)
    # keys are removed nowhere else in the poll body
    ctx.check(len(kr) == len(good_kr), "C12.DRAIN", u.where, "keys are removed only for queued (ended) members", site=u.body.span)


def rule_none(ctx, M, u):
    """returns the guard edges (ended == count) for rule_empty"""
    bi = u.bi
    c = the_cps(ctx, u)
    counters = local_counters(bi)
    ne = bi.outcome_edges(c.site, "Ready", "None")
    header = c.loop[0] if c.loop else None
    guards = []
    probs = []
    cnt = [L for L, (init, inc, other) in counters.items() if any(bi.guarded_by(b, ne) for b in inc)]
    if len(cnt) != 1:
        probs.append("no unique per-poll ended counter")
    else:
        L = cnt[0]
        init, inc, other = counters[L]
        down = DIRECTION.get((id(bi), L)) == -1

        def is_count(t):
            if isinstance(t, tuple) and t[0] == "call" and t[1] == ("Slab", "len") and t[2] and t[2][0] == sf("streams"):
                # read before the scan
                return header is not None and bi.body.dominates(t[3], header) and not (c.loop and t[3] in c.loop[1])
            return False
        init_ok = len(init) == 1 and (is_count(init[0][1]) if down else init[0][1] == 0)
        if other or not init_ok or (header is not None and not bi.body.dominates(init[0][0], header)) or \
                (c.loop and init[0][0] in c.loop[1]):
            probs.append("ended counter is not initialised to 0 once before the scan")
        if down:
            # counting down from the number of members read before the scan: all ended <=> the local reached 0
            guards = flow.edges_where(bi, ("phi", L), "Eq", ("const", 0))
        else:
            guards = flow.edges_where(bi, ("phi", L), "Eq", is_count)
        if not guards:
            probs.append("no test ended == number of members (read before the scan)")
    nones = [r for r in flow.returned_values(bi) if r[1] == "Ready(None)"]
    empties = []
    for blk_, eds_ in grouplike.empty_tests(bi, sf("streams")):
        empties += eds_
    late = [r for r in nones if not bi.guarded_by(r[0], empties)]
    if not late:
        probs.append("Ready(None) is never produced when the last members end during a poll")
    for r in late:
        if not guards or not bi.guarded_by(r[0], guards):
            probs.append("Ready(None) is produced without all members present at the start of the poll having ended")
    # evaluated after the scan on every path that ended a member
    if guards and ne:
        tests = sorted({a for a, b in guards})
        ok, bad = bi.must_reach([t for _, t in ne], tests, bi.return_blocks)
        if not ok:
            probs.append("the all-ended test is not evaluated after a member ended")
    ctx.check(not probs, "C12.NONE", u.where, "Ready(None) only when empty or when every member present at the start ended in this poll",
              site=u.body.span, path=probs)
    return guards
