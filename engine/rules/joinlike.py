"""Rules shared by C04 (join) and C05 (try_join): positional data flow, completion counter
discipline, zero-length world, the FutureExt front-end."""
from .. import scan, families, zw
from ..families import short, ctor_fields, self_path, sub_struct_pos
from ..sites import is_agg
from ..terms import simple_name
from . import common, flow, c02


def ok_labels(u):
    return ("Ready", "Ok") if u.family == "try_join" else ("Ready",)


def counter_field(M, u):
    """(field name, delta) of the completion counter: the integer field of self that is compared
    in the test guarding the completion return (fallback: the field in/decremented by one).  The
    direction is taken from the constructor: starting at 0 it counts up, otherwise down."""
    bi = u.bi
    kinds = ("Ready(Ok)",) if u.family == "try_join" else ("Ready",)
    rets = flow.returns_of(bi, *kinds)
    cands = {}
    for e, o, x, y in flow.compare_tests(bi):
        for t in (x, y):
            sp_ = self_path(t)
            if sp_ is not None and len(sp_) == 1:
                eds = [ed for ed in (bi.edge(e, True), bi.edge(e, False)) if ed]
                for ed in eds:
                    if rets and all(bi.guarded_by(r[0], [ed]) for r in rets):
                        cands[sp_[0]] = True
    if len(cands) != 1:
        names = {}
        for b, pt, d, sp in scan.increments(bi):
            sp_ = self_path(pt)
            if sp_ is not None and len(sp_) == 1 and abs(d) == 1:
                names[sp_[0]] = True
        cands = names
    if len(cands) != 1:
        return None
    name = next(iter(cands))
    fields, cb, cbi = ctor_fields(M, u.member)
    init = (fields or {}).get(name)
    delta = 1 if init == ("const", 0) else -1
    return name, delta


def rule_pos(ctx, M, u, rule):
    """the child's own output goes to the child's own slot"""
    bi = u.bi
    labs = ok_labels(u)
    for c in u.cps:
        edges = bi.outcome_edges(c.site, *labs)
        if not edges:
            ctx.fail(rule, u.where, "no %s edge for %s" % ("/".join(labs), c.label), site=c.where)
            continue
        ws = [(b, slot, idx, v, w) for b, slot, idx, v, w in c02.slot_writes(bi) if bi.guarded_by(b, edges)]
        probs = []
        if len(ws) != 1:
            probs.append("%d output writes on the child's %s path (expected 1)" % (len(ws), "/".join(labs)))
        for b, slot, idx, v, w in ws:
            if not c02.slot_is_child(M, u, c, slot, idx, b):
                probs.append("output is written to a slot that is not the child's own position")
            if v is None or not flow.is_payload(v, c.block, *labs):
                probs.append("value written is not the child's own %s payload" % "/".join(labs))
        # any write of this child's payload elsewhere?
        for b, slot, idx, v, w in c02.slot_writes(bi):
            if v is not None and flow.derives_from(v, c.block) and not c02.slot_is_child(M, u, c, slot, idx, b):
                probs.append("the child's output also flows to another slot")
        if probs:
            for p in sorted(set(probs)):
                ctx.fail(rule, u.where, "%s: %s" % (c.label, p), site=c.where)
        else:
            ctx.ok(rule, u.where, "%s: output -> own slot" % c.label, sample={"write": ws[0][4]})


def rule_result(ctx, M, u, rule):
    """the completion value is the positional container of the slots"""
    bi = u.bi
    kinds = ("Ready(Ok)",) if u.family == "try_join" else ("Ready",)
    rets = flow.returns_of(bi, *kinds)
    if not rets:
        ctx.fail(rule, u.where, "no completion return", site=u.body.span)
        return
    for b, kind, payload, t in rets:
        probs = []
        if u.container == "tuple":
            if not (payload is not None and payload[0] == "agg" and payload[1] == "tuple" and len(payload[2]) == u.arity):
                probs.append("result is not a %d-tuple" % u.arity)
            else:
                for k, comp in enumerate(payload[2]):
                    good = comp[0] == "call" and comp[1] == ("MaybeUninit", "assume_init") and comp[2] and comp[2][0][0] == "field" and comp[2][0][2] == k
                    if not good:
                        probs.append("result position %d is not output slot %d" % (k, k))
                        continue
                    base = comp[2][0][1]
                    # base must be the local swapped with self.outputs
                    swaps = [t_ for t_ in flow.takes_of(bi, scan.self_field("outputs")) if t_.taken == base]
                    if len(swaps) != 1:
                        probs.append("result position %d does not come from self.outputs" % k)
        else:
            takes = [s for s in bi.sites if s.callee.owner in ("OutputArray", "OutputVec") and s.callee.name == "take"]
            if not (len(takes) == 1 and payload is not None and payload[0] == "call" and payload[3] == takes[0].block
                    and takes[0].arg(0) == scan.self_field("items")):
                probs.append("result is not self.items.take()")
        if probs:
            for p in sorted(set(probs)):
                ctx.fail(rule, u.where, p, site=bi.describe(b))
        else:
            ctx.ok(rule, u.where, "completion value is the positional output container", sample={"return": bi.describe(b)})


def rule_take_util(ctx, M, rule):
    """Output{Array,Vec}::take hand back the same storage (positions kept)."""
    from . import prims
    owners = ["output::array::OutputArray"] + ([] if M.config == "core" else ["output::vec::OutputVec"])
    for owner in owners:
        b = prims.find_method(M, owner, "take")
        ctx.require(b is not None, owner + "::take")
        bi = M.info(b)
        data = ("field", ("param", 1), "data")
        swaps = flow.takes_of(bi, data)
        ok = len(swaps) == 1
        other = swaps[0].taken if ok else None
        rets = flow.returned_values(bi)
        good = False
        for blk, kind, payload, t in rets:
            # array: array_assume_init(other) ; vec: the swapped local itself
            if t == other or (t[0] == "call" and t[1][1] == "array_assume_init" and t[2] and t[2][0] == other):
                good = True
            elif t[0] in ("local", "phi") and other is not None and other[0] in ("local", "phi") and t[1] == other[1]:
                good = True
        ctx.check(ok and good, rule, b.def_, "take() returns the whole slot storage in place (positions kept)", site=b.span)
    if "array_assume_init" in "".join(x.def_ for x in M.F.bodies if x.name == "array_assume_init"):
        for x in M.F.bodies:
            if x.name == "array_assume_init" and x.kind == "Fn":
                bi = M.info(x)
                reads = [s for s in bi.sites if s.callee.name == "read"]
                ok = len(reads) == 1 and reads[0].arg(0) in (("param", 1), ("cast", "PtrToPtr", ("param", 1)))
                if not ok and len(reads) == 1:
                    a = reads[0].arg(0)
                    while a[0] == "cast":
                        a = a[2]
                    ok = a == ("param", 1)
                if not ok and not reads:
                    # element-wise form: `array.map(|slot| slot.assume_init())` - <[T; N]>::map keeps positions
                    rets = flow.returned_values(bi)
                    if len(rets) == 1 and rets[0][3][0] == "call" and rets[0][3][1][1] == "map" and rets[0][3][2] and rets[0][3][2][0] == ("param", 1):
                        cl = [y for y in M.F.bodies if y.kind == "Closure" and y.root == x.def_]
                        if len(cl) == 1:
                            cr = flow.returned_values(M.info(cl[0]))
                            ok = len(cr) == 1 and cr[0][3][0] == "call" and cr[0][3][1][1] == "assume_init" and cr[0][3][2] and cr[0][3][2][0] == ("param", 2)
                ctx.check(ok, rule, x.def_, "array_assume_init reinterprets the given array in place", site=x.span)


def rule_cnt(ctx, M, u, rule):
    bi = u.bi
    labs = ok_labels(u)
    cf = counter_field(M, u)
    if cf is None:
        ctx.fail(rule, u.where, "no unique completion counter (a self field changed by +-1) found", site=u.body.span)
        return
    name, delta = cf
    ft = scan.self_field(name)
    fields, cb, cbi = ctor_fields(M, u.member)
    init = (fields or {}).get(name)
    # initial value and target
    if delta < 0:
        init_ok = init == ("sym", "N") or (init is not None and init[0] == "call" and init[1][1] == "len") or (
            u.container == "tuple" and init == ("const", u.arity))
        target = lambda t: t == ("const", 0)
        tdesc = "%s == 0" % name
        idesc = "number of children"
    else:
        init_ok = init == ("const", 0)
        if u.container == "tuple":
            target = lambda t: t == ("const", u.arity)
        else:
            target = lambda t: t == ("sym", "N") or t == scan.self_field("len") or (t[0] == "call" and t[1][1] == "len")
        tdesc = "%s == number of children" % name
        idesc = "0"
    ctx.check(init_ok, rule, cb.def_ if cb else u.where, "%s: counter `%s` starts at %s" % (u.label, name, idesc),
              site=cb.span if cb else u.body.span, sample={"init": short(init) if init else None})
    ups = flow.counter_updates(bi, name)
    all_ok_edges = []
    for c in u.cps:
        # the counter counts *resolved* children: it moves on the Ready edge (try_join: before the
        # Ok/Err split; the Err side returns at once)
        edges = bi.outcome_edges(c.site, "Ready")
        all_ok_edges += edges
        if not edges:
            continue
        header, exits = common.loop_exits(bi, c.block)
        avoid = common.arm_feasible_avoid(u, c)
        mine = [b for b, d, sp in ups if bi.guarded_by(b, edges)]
        probs = flow.once_on_paths(bi, [t for _, t in edges], mine, exits, avoid)
        wrong = [b for b, d, sp in ups if b in mine and d != delta]
        if wrong:
            probs.append("counter changed by something other than %+d" % delta)
        if probs:
            for p in sorted(set(probs)):
                ctx.fail(rule, u.where, "%s: counter update on its Ready path: %s" % (c.label, p), site=c.where)
        else:
            ctx.ok(rule, u.where, "%s: counter %+d exactly once on its Ready path" % (c.label, delta))
    # no counter write outside a child's completion path
    loose = [(b, sp) for b, d, sp in ups if not bi.guarded_by(b, all_ok_edges)]
    ctx.check(not loose, rule, u.where, "counter `%s` is written only on children's completion paths" % name, site=u.body.span,
              path=[sp for _, sp in loose])
    # completion returns guarded by the counter test
    kinds = ("Ready(Ok)",) if u.family == "try_join" else ("Ready",)
    # an up-counter is bounded by the number of children (starts at 0, +1 exactly once per child - checked above)
    guard = flow.edges_where(bi, ft, "Eq", target, bounded=delta > 0)
    rets = flow.returns_of(bi, *kinds)
    for b, kind, payload, t in rets:
        ctx.check(bool(guard) and bi.guarded_by(b, guard), rule, u.where, "completion is returned only when %s" % tdesc, site=bi.describe(b))
    if not rets:
        ctx.fail(rule, u.where, "no completion return", site=u.body.span)
    # same poll: after a child completes, the counter test is evaluated before any Pending return
    tests = [e["block"] for e, o, x, y in flow.compare_tests(bi) if (x == ft and target(y)) or (y == ft and target(x))]
    pend = common.pending_blocks(bi)
    not_done = flow.edges_where(bi, ft, "Ne", target, bounded=delta > 0)
    for c in u.cps:
        edges = bi.outcome_edges(c.site, *labs)
        if not edges:
            continue
        avoid = common.arm_feasible_avoid(u, c)
        # Pending may be reached only through the "counter != target" edge of the completion test
        r = bi.reach_from_edges(edges, avoid_edges=list(avoid) + not_done)
        bad = sorted(b for b in pend if b in r)
        ctx.check(bool(tests) and bool(not_done) and not bad, rule, u.where,
                  "%s: after it completes, the completion test is evaluated before Pending can be returned" % c.label, site=c.where,
                  path=common.fmt_blocks(bi, bad))


def rule_zero(ctx, M, u, rule, expect_kinds):
    """zero-length world: first poll returns the empty completion value"""
    bi = u.bi
    fields, cb, cbi = ctor_fields(M, u.member)
    if fields is None:
        ctx.fail(rule, u.where, "constructor aggregate not found", site=u.body.span)
        return
    z = zw.ZeroWorld(bi, fields, flow.classify)
    res = z.run()
    cps_blocks = {c.block for c in u.cps}
    probs = []
    kinds = sorted({k for _, k in res.returns if k is not None})
    if not res.returns:
        probs.append("no return is reachable in the zero-length world")
    for b, k in sorted(res.returns, key=lambda x: x[0]):
        if k not in expect_kinds:
            probs.append("zero-length world can return %s" % k)
    if cps_blocks & res.reached:
        probs.append("a child poll is reachable in the zero-length world")
    for b, w in res.divzero:
        probs.append("zero-length world reaches a division by the container length")
    for b, w in res.panics:
        probs.append("zero-length world panics (every branch on the way is decided by the empty input)")
    if probs:
        for p in sorted(set(probs)):
            ctx.fail(rule, u.where, p, site=u.body.span)
    else:
        ctx.ok(rule, u.where, "zero-length world: returns %s, polls nothing" % "/".join(kinds),
               sample={"states": res.states, "returns": sorted(res.returns, key=str), "blocks_reached": len(res.reached)})
    return res


def rule_zero_tuple0(ctx, M, family, rule, expect_kind):
    """the 0-tuple member: straight-line body returning the empty completion value"""
    ms = [m for m in M.family(family, containers=("tuple",)) if m.arity == 0]
    ctx.require(len(ms) == 1 and ms[0].poll is not None, "%s for ()" % family)
    m = ms[0]
    bi = M.info(m.poll)
    rets = flow.returned_values(bi)
    ok = len(rets) == 1 and rets[0][1] == expect_kind and not bi.all_polls() and not any(
        bi.body.term(b)["k"] == "switch" for b in bi.body.reachable if not bi.body.is_cleanup(b))
    ctx.check(ok, rule, m.poll.def_, "%s of () returns %s at once" % (family, expect_kind), site=m.poll.span,
              sample={"returns": [(r[0], r[1]) for r in rets]})


def rule_vec_assume_init(ctx, M, rule):
    """`vec_assume_init(v: Vec<MaybeUninit<T>>) -> Vec<T>` hands back the very same elements, in place:
       (a) `ptr::read(&v as *const _ as *const Vec<T>)` of the argument (+ forget), or
       (b) `Vec::from_raw_parts(v.as_mut_ptr() as *mut T, v.len(), v.capacity())` - pointer, LENGTH, CAPACITY of the argument in
           that order (swapped, a Vec of zero-sized items claims usize::MAX elements), or
       (c) `v.into_iter().map(|s| s.assume_init()).collect()`."""
    n = 0
    for x in M.F.bodies:
        if x.name != "vec_assume_init" or x.kind != "Fn":
            continue
        n += 1
        bi = M.info(x)

        def from_arg(t, depth=0):
            while t is not None and depth < 12:
                if t == ("param", 1):
                    return True
                if t[0] == "cast":
                    t = t[2]
                elif t[0] == "call" and t[2] and t[1][1] in ("new", "deref", "deref_mut", "as_mut_ptr", "as_ptr", "cast", "as_mut", "as_ref"):
                    t = t[2][0]
                elif t[0] in ("field", "variant", "index"):
                    t = t[1]
                else:
                    return False
                depth += 1
            return False
        ok = False
        reads = [s for s in bi.sites if s.callee.name == "read"]
        frp = [s for s in bi.sites if s.callee.name == "from_raw_parts"]
        rets = flow.returned_values(bi)
        if len(reads) == 1 and not frp:
            ok = from_arg(reads[0].arg(0))
        elif len(frp) == 1 and not reads:
            a0, a1, a2 = frp[0].arg(0), frp[0].arg(1), frp[0].arg(2)
            ok = (from_arg(a0) and a1 is not None and a1[0] == "call" and a1[1][1] == "len" and from_arg(a1[2][0])
                  and a2 is not None and a2[0] == "call" and a2[1][1] == "capacity" and from_arg(a2[2][0]))
            ok = ok and len(rets) == 1 and rets[0][3][0] == "call" and rets[0][3][3] == frp[0].block
        elif not reads and not frp and len(rets) == 1:
            t = rets[0][3]
            if t[0] == "call" and t[1][1] in ("collect", "from_iter") and t[2] and t[2][0][0] == "call" and t[2][0][1][1] == "map":
                src = t[2][0][2][0]
                while src[0] == "call" and src[1][1] in ("into_iter", "by_ref") and src[2]:
                    src = src[2][0]
                cl = [y for y in M.F.bodies if y.kind == "Closure" and y.root == x.def_]
                if src == ("param", 1) and len(cl) == 1:
                    cr = flow.returned_values(M.info(cl[0]))
                    ok = len(cr) == 1 and cr[0][3][0] == "call" and cr[0][3][1][1] == "assume_init" and cr[0][3][2] and cr[0][3][2][0] == ("param", 2)
        ctx.check(ok, rule, x.def_, "vec_assume_init hands back the argument's own elements in place (pointer, length, capacity in that order)", site=x.span)
    return n


def rule_ext(ctx, M, trait_suffix, method, family_trait_method, rule):
    """FutureExt/StreamExt::<method>(self, other) == Family::<method>((self, other))"""
    found = 0
    for b in M.F.bodies:
        if b.name != method or b.kind != "AssocFn":
            continue
        if trait_suffix not in b.def_:
            continue
        bi = M.info(b)
        calls = [s for s in bi.sites if s.callee.name == family_trait_method and s.callee.trait is not None]
        if not calls:
            continue
        found += 1
        s = calls[0]
        a = s.arg(0)
        ok = a is not None and a[0] == "agg" and a[1] == "tuple" and len(a[2]) == 2 and a[2][0] == ("param", 1)
        if ok:
            second = a[2][1]
            ok = second == ("param", 2) or (second[0] == "call" and second[2] and second[2][0] == ("param", 2))
        rets = flow.returned_values(bi)
        ok = ok and len(calls) == 1 and any(t[0] == "call" and t[3] == s.block for _, _, _, t in rets)
        ctx.check(ok, rule, b.def_, "%s(self, other) = %s((self, other)), operands in order" % (method, family_trait_method), site=b.span,
                  sample={"arg": short(a) if a else None})
    # what `x.<method>(..)` means: no inherent method of that name anywhere in the crate (it would win method resolution
    # over the extension trait), and nobody takes a by-value combinator apart to rebuild another one from its parts
    from . import common
    common.rule_no_shadow(ctx, M, {method}, rule, "extension-trait")
    ok_, control = common.rule_children_stay(ctx, M, rule)
    ctx.require(control >= 1 or M.config == "core", "positive control of the move-out audit (no by-value field move found in any crate type)")
    return found
