"""Rules shared by C06 (race) and C07 (race_ok) and C08 (merge): 'first child seen with the deciding
result wins the call', scan-exit guard of Pending."""
from .. import scan, families
from ..families import short
from . import common, flow


def scan_next_sites(u):
    """`next()` call sites that drive the scan loop(s) containing the child polls."""
    bi = u.bi
    out = {}
    for c in u.cps:
        idx = c.loop_idx if c.pos is not None else c.idx
        r = scan.root_call(idx) if idx is not None else None
        if r is None:
            r = scan.loop_item_root(c.child)
        if r is not None and r[1][1] == "next":
            s = bi.by_block.get(r[3])
            if s is not None:
                out[s.block] = s
    return list(out.values())


def scan_exit_edges(u):
    bi = u.bi
    edges = []
    for s in scan_next_sites(u):
        edges += bi.outcome_edges(s, "None")
    return edges


def rule_win(ctx, M, u, rule, labels, ret_kind, flag=None, flag_required=True):
    """On the deciding edge of every child poll: the payload is returned in the same call, the
    done flag is set, nothing else is polled."""
    bi = u.bi
    all_cps = {c.block for c in u.cps}
    rets = flow.returns_of(bi, ret_kind)
    claimed = set()
    flag_w = []
    if flag:
        flag_w = [b for b, pt, v, sp in scan.field_writes(bi) if pt == scan.self_field(flag) and v == ("const", 1)]
    for c in u.cps:
        edges = bi.outcome_edges(c.site, *labels)
        if not edges:
            ctx.fail(rule, u.where, "no %s edge for %s" % ("/".join(labels), c.label), site=c.where)
            continue
        avoid = common.arm_feasible_avoid(u, c)
        mine = [r for r in rets if r[2] is not None and flow.is_payload(r[2], c.block, *labels)]
        for r in mine:
            claimed.add(r[0])
        probs = []
        if not mine:
            probs.append("its %s payload is not what is returned" % "/".join(labels))
        else:
            header, exits = common.loop_exits(bi, c.block)
            goal = [r[0] for r in mine]
            r1 = bi.reach_from_edges(edges, avoid_blocks=goal, stop_blocks=exits, avoid_edges=avoid)
            if any(x in r1 for x in exits):
                probs.append("a path from its %s edge does not return that value in the same call" % "/".join(labels))
            r2 = bi.reach_from_edges(edges, avoid_edges=avoid)
            if header is not None and header in r2:
                probs.append("the scan continues after the deciding result")
            if all_cps & r2:
                probs.append("a child is polled after the deciding result")
            if flag and flag_required:
                ok, bad = bi.must_reach([t for _, t in edges], flag_w, bi.return_blocks)
                if not flag_w or not ok:
                    probs.append("`%s` is not set on every such path" % flag)
        if probs:
            for p in sorted(set(probs)):
                ctx.fail(rule, u.where, "%s: %s" % (c.label, p), site=c.where)
        else:
            ctx.ok(rule, u.where, "%s: %s => returned in the same call, nothing polled afterwards" % (c.label, "/".join(labels)),
                   sample={"returns": common.fmt_blocks(bi, [r[0] for r in mine])})
    return rets, claimed


def rule_pending_after_scan(ctx, M, u, rule, extra_guard_edges=()):
    """Poll::Pending is produced only after the scan loop ran to its end (every child was polled
    or skipped as finished)."""
    bi = u.bi
    ex = scan_exit_edges(u)
    pend = common.pending_blocks(bi)
    if not pend:
        ctx.fail(rule, u.where, "no Pending result in the body", site=u.body.span)
        return
    guards = list(ex) + list(extra_guard_edges)
    body = bi.body
    for b in pend:
        ok = bool(ex) and bi.guarded_by(b, guards)
        if not ok and ex:
            # `let mut ret = Poll::Pending; for .. { .. ret = Poll::Ready(x); break; } ret`: the Pending built up front is
            # what is returned only if no later definition of the carrier overwrote it - i.e. on paths from here to the
            # return that avoid every other definition, and those must cross the scan's exit edge
            for st in body.stmts(b):
                if st["k"] == "assign" and not st["lhs"]["p"] and st["lhs"]["l"] != 0 and st["rv"]["k"] == "agg" and st["rv"].get("vname") == "Pending":
                    L = st["lhs"]["l"]
                    others = [d[0] for d in body.defs.get(L, []) if d[0] != b and d[0] in body.reachable and not body.is_cleanup(d[0])]
                    carried = all(rv.get("k") == "use" and bi.T.of_rvalue(rv, 0) == ("phi", L) for _, _, rv in bi.assigns_to_return()
                                  if not (rv.get("k") == "agg"))
                    r = body.reach(body.succs(b), avoid_blocks=others, avoid_edges=guards)
                    if others and carried and not any(x in r for x in bi.return_blocks):
                        ok = True
        ctx.check(ok, rule, u.where, "Pending is produced only on the scan loop's exit edge", site=bi.describe(b))
