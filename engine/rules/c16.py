"""C16 — selective polling (std): a child is polled only if its own bit was set, bits are set only
by its own waker (or in the exempt cases), and each child holds the waker of its own index."""
from .. import scan, families
from ..families import short
from ..sites import peel_type
from ..terms import simple_name, subterms
from . import common, prims

PROPERTY = "C16"
LEVEL = "other"
CONFIGS_QUICK = ["std", "std-rel"]
CONFIGS_THOROUGH = ["std", "std-rel"]
EXPLANATION = (
    "Gating and who-may-arm analysis on the std build's MIR: (GATE) every child-poll site of join/try_join/merge/zip/"
    "FutureGroup/StreamGroup (all arities) is control-dependent on clear_ready(i)==true for the polled child's own index; "
    "(ARMERS) every call that sets readiness bits is one of: Wake::wake with self.id, re-arm of the child that just yielded "
    "an item (merge/StreamGroup), set_all_ready on zip's full-row path, arming the freshly inserted key, or the growth path of "
    "resize - any other arming site (e.g. arm-all at the top of poll) is a violation; (OWNWAKER) waker i is built with id i in "
    "WakerArray::new / WakerVec::new / resize and get(i) returns wakers[i]; (CFG) the bit-tracking implementation (not the "
    "no_std fallback) is the one linked in std; (BITS) bit-table primitives match their transfer tables.")
EXPLANATION += (' (OWNWAKER) the inline waker stores its child position at full width (usize).')
ASSUMPTIONS = [
    "std::sync::Mutex / Arc / Waker::from(Arc<impl Wake>) behave per std documentation",
    "stale wake-ups of an earlier holder of a reused group key are exempted by the property itself",
]
RULES = {
    "C16.GATE": "each child poll is guarded by the true edge of clear_ready(i) with i the polled child's index",
    "C16.ARMERS": "bits are set only by the five allowed kinds of site",
    "C16.OWNWAKER": "InlineWaker ids equal their position; get(i) returns wakers[i]",
    "C16.CFG": "std build links the bit-tracking waker implementation",
    "C16.BITS": "bit-table primitives match their transfer tables",
    "C16.EARLY": "no child is polled on a path where any_ready() was false",
}


def run(ctx):
    for rid, text in RULES.items():
        ctx.rule(rid, text)
    for cfg in ctx.configs:
        ctx.current_config = cfg
        M = ctx.model(cfg)
        units = families.subwaker_units(M)
        # the who-may-arm audit and the primitive tables do not depend on where a step sits on a path: they run first, so
        # that a body the path rules cannot read (protocol steps inside a closure -> inconclusive) does not hide them
        rule_ownwaker(ctx, M)
        prims.check_bits(ctx, M, "C16.BITS")
        rule_armers(ctx, M, units)
        for u in units:
            rule_gate(ctx, u)
            rule_cfg(ctx, M, u)
        ctx.floor("C16.GATE", cfg, 4 * 78 + 10)
        ctx.floor("C16.ARMERS", cfg, 78 + 12 + 6)
        ctx.floor("C16.OWNWAKER", cfg, 5)
    return {}


def rule_gate(ctx, u):
    bi = u.bi
    dis = scan.disarm_sites(bi)
    for c in u.cps:
        edges = []
        for d in dis:
            if common.same_index(u, c, d.arg(1)):
                edges += bi.outcome_edges(d, True)
        ok = bool(edges) and bi.guarded_by(c.block, edges)
        ctx.check(ok, "C16.GATE", u.where, "%s polled only after clear_ready of its own index returned true" % c.label,
                  site=c.where, sample={"gate_edges": edges})
        # any_ready()==false must not lead to a child poll
        for a in scan.any_ready_sites(bi):
            fe = bi.outcome_edges(a, False)
            if fe:
                r = bi.reach_from_edges(fe)
                if c.block in r:
                    ctx.fail("C16.EARLY", u.where, "%s reachable although any_ready() was false" % c.label, site=a.where)
    if scan.any_ready_sites(bi):
        ctx.ok("C16.EARLY", u.where, "any_ready()==false leads straight to Pending", sample={"sites": [a.where for a in scan.any_ready_sites(bi)]})


def rule_cfg(ctx, M, u):
    bi = u.bi
    subs = scan.subwaker_sites(bi)
    ok = bool(subs) and all(("waker_array" in (s.callee.cpath or "")) or ("waker_vec" in (s.callee.cpath or "")) for s in subs)
    ok = ok and all("no_std" not in (s.callee.cpath or "") for s in subs)
    ctx.check(ok, "C16.CFG", u.where, "sub-wakers come from the bit-tracking WakerArray/WakerVec", site=u.body.span,
              sample={"callee": subs[0].callee.cpath if subs else None})


def rule_fresh_tables(ctx, M):
    """A fresh waker / readiness table has every bit set: creating one anywhere but in a constructor re-arms every child
    (and detaches the wakers already handed out)."""
    F = M.F
    ctor_names = {"new", "with_capacity", "default", "from_parts", "join", "try_join", "merge", "zip", "from_iter", "readiness"}
    n = 0
    for b in F.bodies:
        if b.kind in ("Const", "AnonConst") or b.n > 5000:
            continue
        interesting = False
        for blk, t in b.calls():
            f = t["func"]
            if "indirect" not in f and f["name"] == "new" and f.get("impl_self") is not None:
                ty = F.types[f["impl_self"]]
                if ty["k"] == "adt" and simple_name(ty["cpath"]) in scan.READY + scan.WAKERS:
                    interesting = True
        if not interesting:
            continue
        n += 1
        root_name = b.root_name or b.name
        ok = b.name in ctor_names or root_name in ctor_names
        ctx.check(ok, "C16.ARMERS", b.def_, "waker / readiness tables (all bits set) are created only by constructors", site=b.span)
    return n


def rule_armers(ctx, M, units):
    F = M.F
    rule_fresh_tables(ctx, M)
    unit_by_def = {u.body.def_: u for u in units}
    for b in F.bodies:
        if b.kind in ("Const", "AnonConst") or b.n > 5000:
            continue
        hit = False
        for blk, t in b.calls():
            f = t["func"]
            if "indirect" in f or f["name"] not in ("set_ready", "set_all_ready", "resize") or f.get("impl_self") is None:
                continue
            ty = F.types[f["impl_self"]]
            if ty["k"] == "adt" and simple_name(ty["cpath"]) in scan.READY + scan.WAKERS and blk in b.reachable:
                hit = True
        if not hit:
            continue
        bi = M.info(b)
        u = unit_by_def.get(b.def_)
        for s in bi.sites:
            c = s.callee
            if c.owner not in scan.READY + scan.WAKERS or c.name not in ("set_ready", "set_all_ready", "resize"):
                continue
            where = b.def_
            if c.name == "set_ready":
                idx = s.arg(1)
                if b.name == "wake" and b.j.get("impl_trait_c") == "alloc::task::Wake":
                    ok = idx == ("field", ("param", 1), "id")
                    ctx.check(ok, "C16.ARMERS", where, "Wake::wake arms exactly self.id", site=s.where)
                elif u is not None and u.family in ("merge", "stream_group"):
                    # must be in the Ready(Some) region of the poll of the same child
                    ok = False
                    for cp in u.cps_unchecked:
                        if common.same_index(u, cp, idx, s.block):
                            ed = bi.outcome_edges(cp.site, "Ready", "Some")
                            if ed and bi.guarded_by(s.block, ed):
                                ok = True
                    ctx.check(ok, "C16.ARMERS", where, "re-arm only of the child that just yielded an item", site=s.where,
                              sample={"index": short(idx)})
                elif b.name in ("insert", "insert_pinned") and M.adt_of_type(b.impl_self) in (M.groups["future_group"]["adt"], M.groups["stream_group"]["adt"]):
                    ins = [x for x in bi.sites if x.callee.owner == "Slab" and x.callee.name == "insert"]
                    ok = bool(ins) and idx == ins[0].term
                    ctx.check(ok, "C16.ARMERS", where, "insert arms exactly the inserted key", site=s.where)
                else:
                    ctx.fail("C16.ARMERS", where, "set_ready(%s) at a site that is not an allowed armer" % short(idx), site=s.where)
            elif c.name == "set_all_ready":
                if u is not None and u.family == "zip":
                    # only the genuine all-slots-filled test counts: state.iter().all(|s| s.is_ready())
                    from . import c09
                    te = []
                    for site_, te_, fe_, full_, pred_ in c09.all_ready_tests(M, u):
                        if full_ and pred_:
                            te += te_
                    ok = bool(te) and bi.guarded_by(s.block, te)
                    ctx.check(ok, "C16.ARMERS", where, "set_all_ready only on the full-row path", site=s.where)
                else:
                    ctx.fail("C16.ARMERS", where, "set_all_ready at a site that is not zip's full-row path", site=s.where)
            elif c.name == "resize":
                # WakerVec::resize / ReadinessVec::resize: only from group reserve / insert_pinned / WakerVec::resize itself
                ok = b.name in ("reserve", "insert_pinned", "resize")
                ctx.check(ok, "C16.ARMERS", where, "readiness resize only from reserve / insert_pinned / WakerVec::resize", site=s.where)


class _Lit:
    """a struct literal standing in for a `new(id, ..)` call site"""

    def __init__(self, block, idt):
        self.block = block
        self._id = idt

    def arg(self, k):
        return self._id if k == 0 else None


def _waker_new_sites(M, bi, inline, depth=0):
    """(BodyInfo, site) of every `<inline>::new(id, ..)` reachable in this body or in closures it builds"""
    out = [(bi, s) for s in bi.sites if s.callee.owner == inline and s.callee.name == "new"]
    # the constructor written out as a struct literal: `InlineWakerVec { id, readiness }`
    body = bi.body
    for b in sorted(body.reachable):
        if body.is_cleanup(b):
            continue
        for st in body.stmts(b):
            if st["k"] == "assign" and st["rv"]["k"] == "agg" and st["rv"].get("ak") == "adt" and simple_name(st["rv"].get("cpath")) == inline \
                    and not (body.impl_self is not None and simple_name(M.adt_of_type(body.impl_self) or "") == inline):
                names = st["rv"].get("fnames") or []
                if "id" in names:
                    out.append((bi, _Lit(b, bi.T.of_operand(st["rv"]["fields"][names.index("id")]))))
    if depth < 2:
        for (_, cp, nb, st) in nested(M, bi):
            if nb is not None:
                out += _waker_new_sites(M, M.info(nb), inline, depth + 1)
    return out


def _id_is_position(M, bi, xi, site, start_pred):
    """The id handed to the sub-waker is the position at which that waker is stored:
       - closure parameter of `array::from_fn(|i| ..)` / `(lo..hi).map(|i| ..)` (collect / extend), or
       - the loop variable of `for i in lo..hi { wakers.push(..) }`,
    with `lo` satisfying start_pred (0 for a fresh table, the old length when growing)."""
    idt = site.arg(0)
    if xi is not bi:
        if idt != ("param", 2):
            return False
        # the closure is the argument of from_fn (array) or of map over a Range lo..hi
        cdef = xi.body.j["cdef"]
        for s in bi.sites:
            for a in s.args:
                if a is not None and a[0] == "agg" and isinstance(a[1], tuple) and a[1][0] == "closure" and a[1][1] == cdef:
                    if s.callee.name == "from_fn":
                        return start_pred(("const", 0))
                    if s.callee.name == "map":
                        src = s.arg(0)
                        if src is not None and src[0] == "agg" and src[1] == ("Range", "Range"):
                            return start_pred(src[2][0])
        return False
    r = scan.loop_item_root(idt)
    if r is not None and r[2]:
        it = r[2][0]
        while it[0] == "call" and it[1][1] in ("into_iter", "by_ref") and it[2]:
            it = it[2][0]
        if it[0] == "agg" and it[1] == ("Range", "Range") and idt == ("field", ("variant", r, "Some"), 0):
            lp = bi.body.innermost_loop(site.block)
            pushes = [p for p in bi.sites if p.callee.name == "push" and lp is not None and p.block in lp[1]]
            return start_pred(it[2][0]) and len(pushes) == 1
    return False


def rule_ownwaker(ctx, M):
    for owner, inline in (("waker_array::WakerArray", "InlineWakerArray"), ("waker_vec::WakerVec", "InlineWakerVec")):
        b = prims.find_method(M, owner, "new")
        ctx.require(b is not None, owner + "::new")
        bi = M.info(b)
        sites = _waker_new_sites(M, bi, inline)
        ok = len(sites) == 1 and _id_is_position(M, bi, sites[0][0], sites[0][1], lambda lo: lo == ("const", 0))
        ctx.check(ok, "C16.OWNWAKER", b.def_, "waker i is created with id i", site=b.span)
        g = prims.find_method(M, owner, "get")
        ctx.require(g is not None, owner + "::get")
        gi = M.info(g)
        okg = False
        for s in gi.sites:
            if s.callee.name == "get" and s.arg(0) == ("field", ("param", 1), "wakers") and s.arg(1) == ("param", 2):
                okg = True
        ctx.check(okg, "C16.OWNWAKER", g.def_, "get(i) returns wakers[i]", site=g.span)
    # the per-child waker remembers its position at full width: a narrower `id` field aliases children beyond its range
    for adt in M.F.d["adts"]:
        if adt["path"].split("::")[-1] in ("InlineWakerArray", "InlineWakerVec") and "no_std" not in adt["path"]:
            for v in adt["variants"]:
                for fld in v["fields"]:
                    if fld["name"] == "id":
                        t = M.F.types[fld["ty"]]
                        ctx.check(t.get("k") == "prim" and t.get("name") == "usize", "C16.OWNWAKER", adt["path"],
                                  "the waker's child position `id` is stored as a usize", site=adt.get("span"))
    # WakerVec::resize: ids of new wakers continue at the old length
    r = prims.find_method(M, "waker_vec::WakerVec", "resize")
    ctx.require(r is not None, "WakerVec::resize")
    ri = M.info(r)
    old_len = lambda t: t is not None and t[0] == "call" and t[1][1] == "len" and t[2] and t[2][0] == ("field", ("param", 1), "wakers")
    # form A: resize_with(len, || { let w = new(index, ..); index += 1; w }) with index starting at wakers.len()
    ok_init = False
    for (_, cp, nb, st) in nested(M, ri):
        caps = [ri.T.of_operand(f) for f in st["rv"]["fields"]]
        if any(old_len(c_) for c_ in caps):
            ok_init = True
    ok_inc = False
    for (_, cp, nb, _) in nested(M, ri):
        if nb is None:
            continue
        nbi = M.info(nb)
        news = [s for s in nbi.sites if s.callee.owner == "InlineWakerVec" and s.callee.name == "new"]
        incs = scan.increments(nbi)
        if news and len(incs) == 1 and incs[0][2] == 1:
            idt = news[0].arg(0)
            ok_inc = idt == incs[0][1] and nb.dominates(news[0].block, incs[0][0])
    form_a = ok_init and ok_inc
    # form B: wakers.extend((old_len..len).map(|i| new(i, ..)))  /  for i in old_len..len { wakers.push(new(i, ..)) }
    sites = _waker_new_sites(M, ri, "InlineWakerVec")
    form_b = len(sites) == 1 and _id_is_position(M, ri, sites[0][0], sites[0][1], old_len)
    if form_b and sites[0][0] is not ri:
        ext = [s for s in ri.sites if s.callee.name in ("extend", "extend_from_slice") and s.arg(0) == ("field", ("param", 1), "wakers")]
        form_b = len(ext) == 1
    ctx.check(form_a or form_b, "C16.OWNWAKER", r.def_, "resize continues ids at wakers.len(), +1 per new waker", site=r.span)
    rz = [s for s in ri.sites if s.callee.owner == "ReadinessVec" and s.callee.name == "resize"]
    ctx.check(bool(rz) and rz[0].arg(1) == ("param", 2), "C16.OWNWAKER", r.def_, "readiness table is resized to the same length", site=r.span)


def nested(M, bi):
    from .costream import nested_coroutines
    return nested_coroutines(M, bi)
