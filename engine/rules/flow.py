"""Value-flow vocabulary shared by the result-shape rules (C04-C15, C17): payload provenance,
classification of the values a poll body returns, comparison tests in both MIR shapes, counter
discipline, guards of final returns."""
from .. import scan
from ..sites import is_agg
from ..terms import subterms, term_str
from . import common

CMP_BIN = {"Eq": "Eq", "Ne": "Ne", "Lt": "Lt", "Le": "Le", "Gt": "Gt", "Ge": "Ge"}
CMP_CALL = {"eq": "Eq", "ne": "Ne", "lt": "Lt", "le": "Le", "gt": "Gt", "ge": "Ge"}
NEG = {"Eq": "Ne", "Ne": "Eq", "Lt": "Ge", "Ge": "Lt", "Gt": "Le", "Le": "Gt"}
SWAP = {"Eq": "Eq", "Ne": "Ne", "Lt": "Gt", "Gt": "Lt", "Le": "Ge", "Ge": "Le"}


# ------------------------------------------------------------------------------------------------
# payload provenance
# ------------------------------------------------------------------------------------------------

def payload_source(t):
    """(site block, projection path) when t is a chain of variant/field projections of a call
    result; else (None, None)."""
    path = []
    while t is not None and t[0] in ("field", "variant"):
        path.append((t[0], t[2]))
        t = t[1]
    if t is not None and t[0] == "call":
        return t[3], tuple(reversed(path))
    return None, None


def variant_path(*labels):
    out = []
    for lab in labels:
        out.append(("variant", lab))
        out.append(("field", 0))
    return tuple(out)


def is_payload(t, site_block, *labels):
    """t is exactly the payload of `site`'s result under the variant chain labels."""
    b, path = payload_source(t)
    return b == site_block and path == variant_path(*labels)


def derives_from(t, site_block):
    """some subterm of t is (a projection of) the result of the call at site_block."""
    for s in subterms(t):
        if s[0] == "call" and s[3] == site_block:
            return True
    return False


# ------------------------------------------------------------------------------------------------
# returned values
# ------------------------------------------------------------------------------------------------

def classify(t):
    """(kind, payload term) of a Poll-typed value term."""
    if t[0] == "agg" and t[1] == ("Poll", "Pending"):
        return "Pending", None
    if t[0] == "agg" and t[1] == ("Poll", "Ready"):
        x = t[2][0]
        if x[0] == "agg" and isinstance(x[1], tuple) and x[1][0] in ("Option", "Result"):
            return "Ready(%s)" % x[1][1], (x[2][0] if x[2] else None)
        return "Ready", x
    if t[0] == "agg" and isinstance(t[1], tuple) and t[1][0] in ("Option", "Result", "ConsumerState", "ControlFlow"):
        return t[1][1], (t[2][0] if t[2] else None)
    return "other", t


def returned_values(bi):
    """Every value that may flow into `_0`: (block where the value is built, kind, payload, term).
    `_0 = move L` with a multi-definition L is expanded to L's definitions."""
    cached = getattr(bi, "_returned_values", None)
    if cached is not None:
        return cached
    out = []
    body = bi.body

    def expand(block, t, depth=0):
        if t[0] == "phi" and depth < 4:
            for d in body.defs.get(t[1], []):
                if d[0] not in body.reachable or body.is_cleanup(d[0]):
                    continue
                expand(d[0], bi.T._of_def(t[1], d, 1), depth + 1)
            return
        kind, payload = classify(t)
        out.append((block, kind, payload, t))

    for b, i, rv in bi.assigns_to_return():
        if rv.get("k") == "callresult":
            t = bi.T.of_call(b, body.term(b), 0)
        else:
            t = bi.T.of_rvalue(rv, 0)
        expand(b, t)
    bi._returned_values = out
    return out


def returns_of(bi, *kinds):
    return [r for r in returned_values(bi) if r[1] in kinds]


# ------------------------------------------------------------------------------------------------
# comparisons (both MIR shapes)
# ------------------------------------------------------------------------------------------------

def compare_tests(bi):
    """(switch entry, op, a, b): the True edge of entry is taken iff `a op b`."""
    cached = getattr(bi, "_compare_tests", None)
    if cached is not None:
        return cached
    out = []
    for e in bi.switches:
        if e["kind"] != "bool":
            continue
        s = e["subject"]
        if s[0] == "binop" and s[1] in CMP_BIN:
            out.append((e, CMP_BIN[s[1]], s[2], s[3]))
        elif s[0] == "call" and s[1][0] in ("PartialEq", "PartialOrd", "usize", "Ord") and s[1][1] in CMP_CALL and len(s[2]) == 2:
            out.append((e, CMP_CALL[s[1][1]], s[2][0], s[2][1]))
    bi._compare_tests = out
    return out


def edges_where(bi, a, op, b):
    """CFG edges on which `a op b` is known to hold (a, b terms; b may be a predicate on terms)."""
    out = []
    bp = b if callable(b) else (lambda t, b=b: t == b)
    for e, o, x, y in compare_tests(bi):
        for (xx, yy, oo) in ((x, y, o), (y, x, SWAP[o])):
            if xx == a and bp(yy):
                if oo == op:
                    ed = bi.edge(e, True)
                    if ed:
                        out.append(ed)
                elif NEG[oo] == op:
                    ed = bi.edge(e, False)
                    if ed:
                        out.append(ed)
    return out


def test_blocks(bi, a, b=None):
    """blocks of switches comparing term a (with b if given)."""
    out = []
    for e, o, x, y in compare_tests(bi):
        if (x == a and (b is None or y == b)) or (y == a and (b is None or x == b)):
            out.append(e["block"])
    return out


# ------------------------------------------------------------------------------------------------
# counters
# ------------------------------------------------------------------------------------------------

def counter_updates(bi, field):
    """(block, delta or None, sp) for every write to self.<field>."""
    ft = scan.self_field(field)
    incs = {(b, sp): d for b, pt, d, sp in scan.increments(bi) if pt == ft}
    out = []
    for b, pt, v, sp in scan.field_writes(bi):
        if pt == ft:
            out.append((b, incs.get((b, sp)), sp))
    return out


def once_on_paths(bi, starts, blocks, exits, avoid_edges=()):
    """On every path from `starts` to an exit, exactly one block of `blocks` is visited:
    (a) must-reach; (b) from the successors of each such block no other block of the set is
    reachable before an exit."""
    probs = []
    if not blocks:
        return ["no such site"]
    r = bi.body.reach(starts, avoid_blocks=blocks, stop_blocks=exits, avoid_edges=avoid_edges)
    if any(x in r for x in exits):
        probs.append("not reached on every path")
    for b in blocks:
        r2 = bi.body.reach(bi.body.succs(b), stop_blocks=exits, avoid_edges=avoid_edges)
        r2 = {x for x in r2 if x not in exits or x in blocks}
        again = [x for x in blocks if x in r2 and not (x in exits)]
        if again:
            probs.append("can happen twice on one path")
    return probs


def fmt_edges(bi, edges):
    return ["bb%d->bb%d %s" % (a, b, bi.body.term(a).get("sp", "")) for a, b in edges]
