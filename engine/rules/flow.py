"""Value-flow vocabulary shared by the result-shape rules (C04-C15, C17): payload provenance,
classification of the values a poll body returns, comparison tests in both MIR shapes, counter
discipline, guards of final returns."""
from .. import scan
from ..sites import is_agg
from ..terms import subterms, term_str
from . import common

CMP_BIN = {"Eq": "Eq", "Ne": "Ne", "Lt": "Lt", "Le": "Le", "Gt": "Gt", "Ge": "Ge"}
CMP_CALL = {"eq": "Eq", "ne": "Ne", "lt": "Lt", "le": "Le", "gt": "Gt", "ge": "Ge"}
NEG = {"Eq": "Ne", "Ne": "Eq", "Lt": "Ge", "Ge": "Lt", "Gt": "Le", "Le": "Gt"}
SWAP = {"Eq": "Eq", "Ne": "Ne", "Lt": "Gt", "Gt": "Lt", "Le": "Ge", "Ge": "Le"}


# ------------------------------------------------------------------------------------------------
# payload provenance
# ------------------------------------------------------------------------------------------------

def payload_source(t):
    """(site block, projection path) when t is a chain of variant/field projections of a call
    result; else (None, None)."""
    path = []
    while t is not None and t[0] in ("field", "variant"):
        path.append((t[0], t[2]))
        t = t[1]
    if t is not None and t[0] == "call":
        return t[3], tuple(reversed(path))
    return None, None


def variant_path(*labels):
    out = []
    for lab in labels:
        out.append(("variant", lab))
        out.append(("field", 0))
    return tuple(out)


def is_payload(t, site_block, *labels):
    """t is exactly the payload of `site`'s result under the variant chain labels."""
    b, path = payload_source(t)
    return b == site_block and path == variant_path(*labels)


def derives_from(t, site_block):
    """some subterm of t is (a projection of) the result of the call at site_block."""
    for s in subterms(t):
        if s[0] == "call" and s[3] == site_block:
            return True
    return False


# ------------------------------------------------------------------------------------------------
# returned values
# ------------------------------------------------------------------------------------------------

def classify(t):
    """(kind, payload term) of a Poll-typed value term."""
    if t[0] == "agg" and t[1] == ("Poll", "Pending"):
        return "Pending", None
    if t[0] == "agg" and t[1] == ("Poll", "Ready"):
        x = t[2][0]
        if x[0] == "agg" and isinstance(x[1], tuple) and x[1][0] in ("Option", "Result"):
            return "Ready(%s)" % x[1][1], (x[2][0] if x[2] else None)
        return "Ready", x
    if t[0] == "agg" and isinstance(t[1], tuple) and t[1][0] in ("Option", "Result", "ConsumerState", "ControlFlow"):
        return t[1][1], (t[2][0] if t[2] else None)
    return "other", t


def returned_values(bi):
    """Every value that may flow into `_0`: (block where the value is built, kind, payload, term).
    `_0 = move L` with a multi-definition L is expanded to L's definitions."""
    cached = getattr(bi, "_returned_values", None)
    if cached is not None:
        return cached
    out = []
    body = bi.body

    def expand(block, t, depth=0):
        if t[0] == "phi" and depth < 4:
            for d in body.defs.get(t[1], []):
                if d[0] not in body.reachable or body.is_cleanup(d[0]):
                    continue
                expand(d[0], bi.T._of_def(t[1], d, 1), depth + 1)
            return
        # values read back from a carrier local (`break Some(x)` .. `Some(x) => Ready(x)`): one entry per
        # alternative, located at the carrier definition that fixes it
        for t2, anchor in refine_alts(bi, t):
            kind, payload = classify(t2)
            out.append((anchor if anchor is not None else block, kind, payload, t2))

    for b, i, rv in bi.assigns_to_return():
        if rv.get("k") == "callresult":
            t = bi.T.of_call(b, body.term(b), 0)
        else:
            t = bi.T.of_rvalue(rv, 0)
        expand(b, t)
    bi._returned_values = out
    return out


def refine(bi, t, depth=0):
    """Variant-refined reading of values carried by a multi-definition local: inside the `V` arm of a match on
    local L, `L@V.k` can only be field k of the definition of L that builds variant V - provided every live definition
    of L is a literal aggregate and exactly one of them has variant V.  (`let completed = loop { .. break Some(x) ..
    break None }; match completed { Some(x) => ..` reads x.)  Applied recursively; anything else is left alone."""
    if not isinstance(t, tuple) or not t or depth > 8:
        return t
    if t[0] == "field" and isinstance(t[1], tuple) and t[1] and t[1][0] == "variant":
        base = refine(bi, t[1][1], depth + 1)
        v = t[1][2]
        k = t[2]
        if base[0] == "phi" and base[1] not in bi.T._mut_borrowed():
            defs = []
            for d in _live_defs(bi, base[1]):
                defs.append(bi.T._of_def(base[1], d, 1))
            aggs = [d for d in defs if d[0] == "agg" and isinstance(d[1], tuple) and len(d[1]) == 2]
            if defs and len(aggs) == len(defs):
                hit = [d for d in aggs if d[1][1] == v]
                if len(hit) == 1 and isinstance(k, int) and k < len(hit[0][2]):
                    return refine(bi, hit[0][2][k], depth + 1)
        elif base[0] == "agg" and isinstance(base[1], tuple) and len(base[1]) == 2 and base[1][1] == v and isinstance(k, int) and k < len(base[2]):
            return refine(bi, base[2][k], depth + 1)
        return ("field", ("variant", base, v), k)
    if t[0] == "field":
        base = refine(bi, t[1], depth + 1)
        # components of an aggregate that was just read back from a carrier definition (a value captured when it was
        # built); an aggregate term the value engine left unprojected belongs to a local that is written through a
        # reference (`mem::swap(&mut out, ..)`) and must stay as it is
        if base != t[1]:
            if base[0] == "agg" and base[1] == "tuple" and isinstance(t[2], int) and t[2] < len(base[2]):
                return refine(bi, base[2][t[2]], depth + 1)
            if base[0] == "agg" and isinstance(base[1], tuple) and len(base[2]) == 1 and t[2] == 0 and base[1][0] == base[1][1]:
                return refine(bi, base[2][0], depth + 1)      # newtype struct: Key(i).0 = i
        return ("field", base, t[2]) + tuple(t[3:])
    if t[0] == "agg":
        return ("agg", t[1], tuple(refine(bi, x, depth + 1) for x in t[2])) + tuple(t[3:])
    if t[0] == "call" and len(t) >= 3:
        return ("call", t[1], tuple(refine(bi, x, depth + 1) for x in t[2])) + tuple(t[3:])
    return t


def refine_alts(bi, t, depth=0):
    """Like `refine`, but when several definitions of a carrier local build the variant that is read, each of them is an
    alternative: [(term, block of the carrier definition that fixes the alternative or None)].
    (`let settled = match .. { .. => Some(Some(item)), .. => Some(None), .. => None }; if let Some(out) = settled { return
    Ready(out) }` returns Ready(Some(item)) from the first definition and Ready(None) from the second.)"""
    if not isinstance(t, tuple) or not t or depth > 6:
        return [(t, None)]
    if t[0] == "field" and isinstance(t[1], tuple) and t[1] and t[1][0] == "variant":
        v, k = t[1][2], t[2]
        outs = []
        for base, anchor in refine_alts(bi, t[1][1], depth + 1):
            if base[0] == "phi" and base[1] not in bi.T._mut_borrowed():
                defs = [(d[0], bi.T._of_def(base[1], d, 1)) for d in _live_defs(bi, base[1])]
                aggs = [(b_, d) for b_, d in defs if d[0] == "agg" and isinstance(d[1], tuple) and len(d[1]) == 2]
                hit = [(b_, d) for b_, d in aggs if d[1][1] == v and isinstance(k, int) and k < len(d[2])]
                if defs and len(aggs) == len(defs) and hit:
                    for b_, d in hit:
                        for x, a2 in refine_alts(bi, d[2][k], depth + 1):
                            outs.append((x, a2 if a2 is not None else b_))
                    continue
            elif base[0] == "agg" and isinstance(base[1], tuple) and len(base[1]) == 2 and base[1][1] == v and isinstance(k, int) and k < len(base[2]):
                for x, a2 in refine_alts(bi, base[2][k], depth + 1):
                    outs.append((x, a2 if a2 is not None else anchor))
                continue
            outs.append((("field", ("variant", base, v), k), anchor))
        return outs
    if t[0] == "field":
        outs = []
        for base, anchor in refine_alts(bi, t[1], depth + 1):
            if base == t[1]:
                outs.append((t, anchor))
                continue
            if base[0] == "agg" and base[1] == "tuple" and isinstance(t[2], int) and t[2] < len(base[2]):
                for x, a2 in refine_alts(bi, base[2][t[2]], depth + 1):
                    outs.append((x, a2 if a2 is not None else anchor))
            elif base[0] == "agg" and isinstance(base[1], tuple) and len(base[2]) == 1 and t[2] == 0 and base[1][0] == base[1][1]:
                for x, a2 in refine_alts(bi, base[2][0], depth + 1):
                    outs.append((x, a2 if a2 is not None else anchor))
            else:
                outs.append((("field", base, t[2]) + tuple(t[3:]), anchor))
        return outs
    if t[0] == "agg" and len(t[2]) <= 3:
        combos = [((), None)]
        for x in t[2]:
            nxt = []
            for fx, a2 in refine_alts(bi, x, depth + 1):
                for pre, a1 in combos:
                    nxt.append((pre + (fx,), a1 if a1 is not None else a2))
            combos = nxt[:16]
        return [(("agg", t[1], pre) + tuple(t[3:]), a) for pre, a in combos]
    if t[0] == "call" and len(t) >= 3:
        # arguments read back from a carrier (`B::from_residual(residual)` with `residual` broken out of a loop)
        return [(("call", t[1], tuple(refine(bi, x, depth + 1) for x in t[2])) + tuple(t[3:]), None)]
    return [(t, None)]


def rule_final_values(ctx, bi, rule, where):
    """A final result parked in a carrier local (`ret = Poll::Ready(..)`, `break Some(x)`) is what the call returns: on no
    path from the assignment to the return is a child polled, and no other definition of the carrier overwrites it.
    (With early `return`s this holds by construction; the single-exit shape needs the `break` that a `return` implied.)"""
    body = bi.body
    polls = {s.block for s in bi.all_polls()}
    n = 0
    for b, i, rv in bi.assigns_to_return():
        if rv.get("k") != "use":
            continue
        t = bi.T.of_rvalue(rv, 0)
        if t[0] != "phi":
            continue
        L = t[1]
        defs = [d for d in _live_defs(bi, L)]
        for d in defs:
            dt = bi.T._of_def(L, d, 1)
            kind = classify(dt)[0]
            if not kind.startswith("Ready"):
                continue
            n += 1
            others = [x[0] for x in defs if x is not d]
            r = body.reach(body.succs(d[0]), stop_blocks=[b])
            probs = []
            if any(x in r for x in polls):
                probs.append("a child is polled after the result was decided")
            # an overwrite by a later iteration of the scan: another definition of the carrier reachable without
            # leaving the loop the result was decided in (what happens after the loop - `if ended == count { ret =
            # Ready(None) }` - is guarded by the family's own completion rules)
            lp = body.innermost_loop(d[0])
            over = []
            if lp is not None:
                inside = set(lp[1])
                r_in = body.reach([x for x in body.succs(d[0]) if x in inside], stop_blocks=[x for x in range(body.n) if x not in inside])
                over = [x for x in others if x in r_in and x in inside and x != d[0]]
            if over:
                probs.append("the decided result can be overwritten before it is returned (%s)" % ", ".join(bi.describe(x) for x in over[:2]))
            ctx.check(not probs, rule, where, "%s parked in `%s` is returned as it is, nothing is polled in between" % (kind, body.locals[L].get("name") or "_%d" % L),
                      site=bi.describe(d[0]), path=probs)
    return n


def returns_of(bi, *kinds):
    return [r for r in returned_values(bi) if r[1] in kinds]


# ------------------------------------------------------------------------------------------------
# comparisons (both MIR shapes)
# ------------------------------------------------------------------------------------------------

def compare_tests(bi):
    """(switch entry, op, a, b): the True edge of entry is taken iff `a op b`."""
    cached = getattr(bi, "_compare_tests", None)
    if cached is not None:
        return cached
    out = []
    for e in bi.switches:
        if e["kind"] != "bool":
            continue
        s = e["subject"]
        if s[0] == "binop" and s[1] in CMP_BIN:
            out.append((e, CMP_BIN[s[1]], s[2], s[3]))
        elif s[0] == "call" and s[1][0] in ("PartialEq", "PartialOrd", "usize", "Ord", "ref") and s[1][1] in CMP_CALL and len(s[2]) == 2:
            out.append((e, CMP_CALL[s[1][1]], s[2][0], s[2][1]))
        elif s[0] == "phi":
            # `let all_done = a == b; if all_done {` where the local has one live comparison def
            ts = set()
            for d in bi.body.defs.get(s[1], []):
                if d[0] in bi.body.reachable and not bi.body.is_cleanup(d[0]):
                    ts.add(bi.T._of_def(s[1], d, 1))
            if len(ts) == 1:
                t = next(iter(ts))
                if t[0] == "binop" and t[1] in CMP_BIN:
                    out.append((e, CMP_BIN[t[1]], t[2], t[3]))
    # `match n { 0 => A, _ => B }`: an integer switch with one listed value is the comparison `n == 0`
    for e in bi.switches:
        if e["kind"] == "int" and len([k for k in e["edges"] if k != "otherwise"]) == 1 and e["edges"].get("otherwise") is not None:
            v = [k for k in e["edges"] if k != "otherwise"][0]
            if isinstance(v, int) and not e.get("negated"):
                syn = dict(e, kind="bool", edges={True: e["edges"][v], False: e["edges"]["otherwise"]}, synthetic=True)
                out.append((syn, "Eq", e["subject"], ("const", v)))
    # unsigned counters: `x < 1`, `x <= 0` say `x == 0`; `x >= 1`, `x > 0` say `x != 0`
    extra = []
    for e, o, x, y in out:
        for (xx, yy, oo) in ((x, y, o), (y, x, SWAP[o])):
            if yy == ("const", 1) and oo == "Lt" or yy == ("const", 0) and oo == "Le":
                extra.append((e, "Eq", xx, ("const", 0)))
            elif yy == ("const", 1) and oo == "Ge" or yy == ("const", 0) and oo == "Gt":
                extra.append((e, "Ne", xx, ("const", 0)))
    out += extra
    # differences compared with zero:  a - b == 0  is  a == b ;  a.saturating_sub(b) == 0  is  a <= b
    diff = []
    for e, o, x, y in out:
        for (xx, yy, oo) in ((x, y, o), (y, x, SWAP[o])):
            if yy != ("const", 0):
                continue
            d = xx[1] if xx[0] == "field" and xx[2] == 0 and xx[1][0] == "binop" else xx
            if d[0] != "binop" or not d[1].startswith("Sub"):
                continue
            if d[1] == "SubSat":
                if oo == "Eq":
                    diff.append((e, "Le", d[2], d[3]))
                elif oo in ("Ne", "Gt"):
                    diff.append((e, "Gt", d[2], d[3]))
            elif oo in ("Eq", "Ne"):
                diff.append((e, oo, d[2], d[3]))
            elif oo == "Gt":
                diff.append((e, "Ne", d[2], d[3]))
    out += diff
    bi._compare_tests = out
    return out


def edges_where(bi, a, op, b, bounded=False):
    """CFG edges on which `a op b` is known to hold (a, b terms; b may be a predicate on terms).
    bounded=True: `a` is a counter that the caller has shown never exceeds `b` (it starts at 0 and moves by +1 once per
    child, b is the number of children), so `a >= b` says `a == b` and `a < b` says `a != b`."""
    out = []
    bp = b if callable(b) else (lambda t, b=b: t == b)
    for e, o, x, y in compare_tests(bi):
        for (xx, yy, oo) in ((x, y, o), (y, x, SWAP[o])):
            if bounded and xx == a and bp(yy) and oo in ("Ge", "Lt"):
                oo = "Eq" if oo == "Ge" else "Ne"
            if xx == a and bp(yy):
                if oo == op:
                    ed = bi.edge(e, True)
                    if ed:
                        out.append(ed)
                elif NEG[oo] == op:
                    ed = bi.edge(e, False)
                    if ed:
                        out.append(ed)
    return out


def test_blocks(bi, a, b=None):
    """blocks of switches comparing term a (with b if given)."""
    out = []
    for e, o, x, y in compare_tests(bi):
        if (x == a and (b is None or y == b)) or (y == a and (b is None or x == b)):
            out.append(e["block"])
    return out


# ------------------------------------------------------------------------------------------------
# counters
# ------------------------------------------------------------------------------------------------

def counter_updates(bi, field):
    """(block, delta or None, sp) for every write to self.<field>."""
    ft = scan.self_field(field)
    incs = {(b, sp): d for b, pt, d, sp in scan.increments(bi) if pt == ft}
    out = []
    for b, pt, v, sp in scan.field_writes(bi):
        if pt == ft:
            out.append((b, incs.get((b, sp)), sp))
    return out


def once_on_paths(bi, starts, blocks, exits, avoid_edges=()):
    """On every path from `starts` to an exit, exactly one block of `blocks` is visited:
    (a) must-reach; (b) from the successors of each such block no other block of the set is
    reachable before an exit."""
    probs = []
    if not blocks:
        return ["no such site"]
    r = bi.body.reach(starts, avoid_blocks=blocks, stop_blocks=exits, avoid_edges=avoid_edges)
    if any(x in r for x in exits):
        probs.append("not reached on every path")
    for b in blocks:
        r2 = bi.body.reach(bi.body.succs(b), stop_blocks=exits, avoid_edges=avoid_edges)
        r2 = {x for x in r2 if x not in exits or x in blocks}
        again = [x for x in blocks if x in r2 and not (x in exits)]
        if again:
            probs.append("can happen twice on one path")
    return probs


def fmt_edges(bi, edges):
    return ["bb%d->bb%d %s" % (a, b, bi.body.term(a).get("sp", "")) for a, b in edges]


# ------------------------------------------------------------------------------------------------
# integrity of a returned value: nobody mutates it in place between its production and the return
# ------------------------------------------------------------------------------------------------

def _live_defs(bi, l):
    body = bi.body
    return [d for d in body.defs.get(l, []) if d[0] in body.reachable and not body.is_cleanup(d[0])]


def _owns_value(bi, l):
    t = bi.body.local_ty(l)
    if t["k"] in ("ref", "ptr"):
        return False
    if t["k"] == "adt" and t["cpath"].rsplit("::", 1)[-1] == "Pin":
        return False
    return True


def carrier_locals(bi, op, limit=40):
    """Locals that *own* the value of operand `op` on its way to the return: follows moves/copies,
    aggregate fields, casts and by-value (moved, non-reference) call arguments backwards over the
    definitions.  References into `self` and the parameters themselves are not carriers."""
    from ..mir import op_place
    body = bi.body
    seen = set()
    work = [op]
    while work and len(seen) < limit:
        o = work.pop()
        p = op_place(o)
        if p is None:
            continue
        l = p["l"]
        if "*" in p["p"]:
            continue    # read through a reference: the value does not live in a local
        if l in seen or (1 <= l <= body.argc) or not _owns_value(bi, l):
            continue
        seen.add(l)
        for d in _live_defs(bi, l):
            if d[2] == "assign":
                rv = d[3]
                k = rv["k"]
                if k in ("use", "cast"):
                    work.append(rv["op"])
                elif k == "agg":
                    work.extend(rv["fields"])
            elif d[2] == "call":
                for a in d[3]["args"]:
                    if "mv" in a:
                        work.append(a)
    return seen


def in_place_mutators(bi, carriers):
    """Call sites (non-transparent callee) that receive a `&mut` into one of the carrier locals."""
    from ..mir import op_place
    from ..terms import TRANSPARENT, IDENTITY_CPATHS
    body = bi.body
    alias = {}   # local holding &mut into carrier -> carrier
    changed = True
    rounds = 0
    while changed and rounds < 6:
        changed = False
        rounds += 1
        for b in sorted(body.reachable):
            if body.is_cleanup(b):
                continue
            for st in body.stmts(b):
                if st["k"] != "assign" or st["lhs"]["p"]:
                    continue
                rv = st["rv"]
                dst = st["lhs"]["l"]
                if dst in alias:
                    continue
                if rv["k"] == "ref" and rv.get("mut"):
                    root = rv["place"]["l"]
                    derefs = "*" in rv["place"]["p"]
                    if root in carriers and not derefs:
                        alias[dst] = root
                        changed = True
                    elif root in alias and derefs:
                        alias[dst] = alias[root]
                        changed = True
                elif rv["k"] in ("use", "cast"):
                    p = op_place(rv["op"])
                    if p is not None and not p["p"] and p["l"] in alias:
                        alias[dst] = alias[p["l"]]
                        changed = True
            t = body.term(b)
            if t["k"] == "call" and not t["dest"]["p"] and t["dest"]["l"] not in alias:
                s = bi.by_block.get(b)
                if s is not None and not s.callee.indirect:
                    c = s.callee
                    if (c.key in TRANSPARENT or c.cpath in IDENTITY_CPATHS or (c.trait, c.name) in TRANSPARENT) and t["args"]:
                        p = op_place(t["args"][0])
                        if p is not None and not p["p"] and p["l"] in alias:
                            alias[t["dest"]["l"]] = alias[p["l"]]
                            changed = True
    out = []
    for s in bi.sites:
        c = s.callee
        if not c.indirect and (c.key in TRANSPARENT or c.cpath in IDENTITY_CPATHS or (c.trait, c.name) in TRANSPARENT):
            continue
        for a in s.t["args"]:
            p = op_place(a)
            if p is not None and not p["p"] and p["l"] in alias:
                out.append((s, alias[p["l"]]))
                break
    return out


def return_operands(bi, kinds):
    """(block, operand) of the payload operand of every `Poll::Ready(..)`-style aggregate that may
    flow into `_0` (directly, or through moves of locals) and whose classified kind is in kinds."""
    from ..mir import op_place
    out = []
    seen = set()

    def from_rv(b, rv, depth):
        if rv.get("k") == "agg" and rv["fields"]:
            t = bi.T.of_rvalue(rv, 0)
            if classify(t)[0] in kinds:
                out.append((b, rv["fields"][0]))
        elif rv.get("k") == "use" and depth < 6:
            p = op_place(rv["op"])
            if p is not None and not p["p"] and p["l"] not in seen:
                seen.add(p["l"])
                for d in _live_defs(bi, p["l"]):
                    if d[2] == "assign":
                        from_rv(d[0], d[3], depth + 1)

    for b, i, rv in bi.assigns_to_return():
        from_rv(b, rv, 0)
    return out


ALLOWED_MUTATORS = {
    ("core::mem::swap", "swap"),       # the take idiom; each rule checks what is swapped with what
    ("core::mem::replace", "replace"),
    ("core::mem::take", "take"),
}


def rule_integrity(ctx, bi, rule, where, kinds, what, allow_blocks=()):
    ops = return_operands(bi, kinds)
    for b, op in ops:
        car = carrier_locals(bi, op)
        muts = [(s, l) for s, l in in_place_mutators(bi, car) if s.key not in ALLOWED_MUTATORS and s.block not in allow_blocks]
        ctx.check(not muts, rule, where, "%s is not modified in place between its production and the return" % what,
                  site=bi.describe(b), path=["%s gets &mut _%d" % (s.where, l) for s, l in muts[:4]])
    return len(ops)


def edges_contradicting(bi, phi_term, def_block, labels):
    """Edges of discriminant switches on a multi-definition local (and on its payload chain) that
    contradict the variant chain `labels` the local was given at `def_block`, valid as long as no
    other definition of the local is reachable from def_block."""
    body = bi.body
    if phi_term[0] != "phi":
        return []
    L = phi_term[1]
    others = [d[0] for d in _live_defs(bi, L) if d[0] != def_block]
    r = body.reach(body.succs(def_block))
    if any(x in r for x in others):
        return []
    out = []
    subj = phi_term
    for lab in labels:
        for e in bi.switches:
            if e["kind"] == "discr" and e["subject"] == subj and e["block"] in r:
                for l2, tb in e["edges"].items():
                    if l2 != lab and tb is not None:
                        out.append((e["block"], tb))
        subj = ("field", ("variant", subj, lab), 0)
    return out


# ------------------------------------------------------------------------------------------------
# the "take the value out of a field" idiom in its three spellings
# ------------------------------------------------------------------------------------------------

class Take:
    """`mem::swap(&mut fresh, field)` (taken = the local), `mem::replace(field, fresh)` or
    `mem::take(field)` (taken = the call result)."""

    def __init__(self, site, taken):
        self.site = site
        self.block = site.block
        self.taken = taken
        self.where = site.where


def takes_of(bi, field_term):
    out = []
    for s in bi.sites:
        if s.key == ("core::mem::swap", "swap") and field_term in (s.arg(0), s.arg(1)):
            out.append(Take(s, s.arg(1) if s.arg(0) == field_term else s.arg(0)))
        elif s.key in (("core::mem::replace", "replace"), ("core::mem::take", "take")) and s.arg(0) == field_term:
            out.append(Take(s, s.term))
    return out


def all_take_blocks(bi):
    return [s.block for s in bi.sites if s.key in (("core::mem::swap", "swap"), ("core::mem::replace", "replace"), ("core::mem::take", "take"))]


# ------------------------------------------------------------------------------------------------
# a value of a crate-local struct, however it was built: `Adt::new(args)` or a struct literal
# ------------------------------------------------------------------------------------------------

def _subst(t, args):
    if not isinstance(t, tuple):
        return t
    if t and t[0] == "param" and len(t) == 2 and isinstance(t[1], int):
        return args[t[1] - 1] if 1 <= t[1] <= len(args) else t
    return tuple(_subst(x, args) if isinstance(x, tuple) else x for x in t)


def struct_view(M, t, adt_simple, bi=None):
    """{field name: term} when `t` denotes a freshly built `adt_simple` value: a struct literal, or a
    call of a crate-local constructor whose body returns one struct literal of its parameters
    (parameters substituted by the call's arguments).  None otherwise."""
    if t is None:
        return None
    F = M.F
    if t[0] == "agg" and isinstance(t[1], tuple) and t[1][0] == adt_simple:
        for a in F.d["adts"]:
            if a["cpath"].rsplit("::", 1)[-1] == adt_simple and a.get("variants"):
                for v in a["variants"]:
                    if v["name"] == t[1][1] and len(v["fields"]) == len(t[2]):
                        return {f["name"]: x for f, x in zip(v["fields"], t[2])}
        return None
    if t[0] == "call" and t[1][0] == adt_simple:
        # several ADTs share a simple name (array / vec `Join`): when the calling body is known, the call site says which
        owner_c = None
        if bi is not None and len(t) > 3:
            s_ = bi.by_block.get(t[3])
            if s_ is not None and not s_.callee.indirect:
                owner_c = s_.callee.owner_c
        for b in F.bodies:
            if b.name == t[1][1] and b.kind == "AssocFn" and b.impl_self is not None and (M.adt_of_type(b.impl_self) or "").rsplit("::", 1)[-1] == adt_simple \
                    and b.impl_trait is None and (owner_c is None or M.adt_of_type(b.impl_self) == owner_c):
                rets = returned_values(M.info(b))
                if len(rets) == 1:
                    inner = struct_view(M, rets[0][3], adt_simple, bi=M.info(b))
                    if inner is not None:
                        return {k: _subst(v, t[2]) for k, v in inner.items()}
        return None
    return None
