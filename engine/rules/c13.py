"""C13 — ConcurrentStream::for_each: exactly once, structured, within the limit."""
from .. import scan, families
from ..families import short
from ..terms import subterms
from . import flow, common, costream, c02
from .costream import cfield, cupvar

PROPERTY = "C13"
LEVEL = "other"
CONFIGS_QUICK = ["std", "std-rel"]
CONFIGS_THOROUGH = ["std", "alloc", "std-rel", "alloc-rel"]
EXPLANATION = (
    "Path rules on the (pre-borrowck, yield-explicit) MIR of the async bodies behind for_each: (BP) ForEachConsumer::send pushes a "
    "work future only through the exit edge `count.load() < limit` of its back-pressure loop, whose body awaits group.next(); on "
    "that edge count.fetch_add(1) and group.push(ForEachFut::new(f.clone(), <the given item future>, count.clone())) each happen "
    "exactly once; the counter starts at 0 and the limit field is Some(n) => n.get(), None => usize::MAX of the constructor "
    "argument, unmodified; (DEC) ForEachFut::poll decrements the shared counter exactly once, on the Ready edge of the closure's "
    "future, sets `done` there, and the counter is incremented nowhere but in send; (CALL) the closure is invoked only on the Ready "
    "edge of the item future, with that item, after which fut_t := None and fut_b := Some(<its result>) - one invocation per item, "
    "never before the item exists; (FLUSH) flush and progress return only through the None edge of group.next().await - resolution "
    "implies the group is drained; (DRIVE) in FromStream::drive every Some(item) taken from the source flows into exactly one "
    "consumer.send(ready(item)), every loop exit reaches consumer.flush() whose value is returned; vec::IntoConcurrentStream "
    "delegates; (LIMIT) for_each hands self.concurrency_limit() to ForEachConsumer::new; sibling agreement of every "
    "concurrency_limit impl (Limit returns its own field, FromStream None, others delegate); (OWN) the group is held by value. "
    "Together: live closure futures <= group members = count <= limit at every suspension point (argued, not measured).")
EXPLANATION += (" (LIMIT) Limit::new stores the requested limit unchanged and ConcurrentStream::limit builds Limit::new(self, limit): stacked limits cannot loosen each other.")
ASSUMPTIONS = [
    "futures_buffered::FuturesUnordered: every pushed future is polled until Ready and yielded by next() exactly once; next() -> None iff empty",
    "Ordering::Relaxed on a counter touched only from the single task that owns the consumer",
]
RULES = {
    "C13.BP": "send: push only on the count < limit exit of the back-pressure loop (body awaits group.next()); fetch_add(1) and push once each; pushed future wraps the given item future; limit/count constructor values",
    "C13.DEC": "ForEachFut::poll: fetch_sub(1) once, on the closure future's Ready edge, with done := true; counter incremented only in send; no other site of the module lowers or rewrites the counter (who-may-call over every atomic operation of concurrent_stream::for_each that is not a plain read)",
    "C13.CALL": "closure invoked only on the item future's Ready edge with that item; fut_t := None, fut_b := Some(result)",
    "C13.FLUSH": "flush / progress return only after group.next() yielded None",
    "C13.DRIVE": "drive: each Some(item) -> exactly one send(ready(item)); all exits reach flush, whose value is returned",
    "C13.LIMIT": "for_each passes concurrency_limit() to the consumer; concurrency_limit impls agree (Limit: own field; source: None; adapters: delegate)",
    "C13.OWN": "consumers own their group by value",
}


def run(ctx):
    for rid, text in RULES.items():
        ctx.rule(rid, text)
    for cfg in ctx.configs:
        ctx.current_config = cfg
        M = ctx.model(cfg)
        rule_bp(ctx, M, "ForEachConsumer", "ForEachFut", "C13.BP")
        rule_dec_call(ctx, M, "ForEachFut", "C13.DEC", "C13.CALL")
        rule_flush(ctx, M, "ForEachConsumer", "C13.FLUSH")
        rule_drive(ctx, M, "C13.DRIVE")
        rule_limit(ctx, M, "for_each", "ForEachConsumer", "C13.LIMIT")
        from . import common as _common
        _common.rule_no_shadow(ctx, M, {"enumerate", "limit", "take", "map", "for_each", "try_for_each", "collect", "drive", "concurrency_limit", "co", "into_co_stream"}, "C13.LIMIT", "ConcurrentStream", receivers=_common.CS_TRAITS)
        adts = {M.consumers[n]["adt"] for n in ("ForEachConsumer",) if n in M.consumers} | {
            a for a in M.F.adts_c if a.endswith("for_each::ForEachFut")}
        with ctx.renamed({"C02.OWN": "C13.OWN"}):
            c02.rule_own(ctx, M, only=lambda cp: cp in adts)
        rule_group_container(ctx, M, "C13.OWN", ("ForEachConsumer",))
        ctx.floor("C13.BP", cfg, 3)
        ctx.floor("C13.DEC", cfg, 1)
        ctx.floor("C13.CALL", cfg, 1)
        ctx.floor("C13.FLUSH", cfg, 2)
        ctx.floor("C13.DRIVE", cfg, 4)
        ctx.floor("C13.LIMIT", cfg, 6)
    return {}


# ------------------------------------------------------------------------------------------------

# atomic operations that only read the counter / build it, and those that raise it (decided by rule_bp: only in send)
ATOMIC_READS = {"load", "new", "default", "fmt"}
ATOMIC_RAISES = {"fetch_add", "store", "swap", "fetch_max"}


def is_count_load(t):
    return t[0] == "call" and t[1][1] == "load" and t[2] and t[2][0] == cfield("count")


def rule_bp(ctx, M, cname, futname, rule):
    ent = M.consumers.get(cname)
    ctx.require(ent is not None and ent["send"] is not None, "%s::send coroutine" % cname)
    b = ent["send"]
    bi = M.info(b)
    where = b.def_
    exit_e = flow.edges_where(bi, is_count_load_term(bi), "Lt", cfield("limit"))
    stay_e = flow.edges_where(bi, is_count_load_term(bi), "Ge", cfield("limit"))
    adds = [s for s in bi.sites if s.callee.name == "fetch_add" and s.arg(0) == cfield("count")]
    pushes = [s for s in bi.sites if s.callee.name == "push" and s.arg(0) == cfield("group")]
    probs = []
    helper_wait = None
    if not exit_e and not stay_e:
        # the wait moved into a private `async fn wait_for_capacity(count, limit, group)`: it is the back-pressure loop if,
        # read in send's terms, it returns only through the `count.load() < limit` exit and awaits group.next() before
        # every re-test; its completion (the Ready edge of the await in send) then stands for that exit
        for a in costream.awaits(bi):
            hv = costream.helper_view(M, bi, a)
            if hv is None:
                continue
            h_exit = flow.edges_where(hv, is_count_load_term(hv), "Lt", cfield("limit"))
            h_stay = flow.edges_where(hv, is_count_load_term(hv), "Ge", cfield("limit"))
            h_aw = costream.group_next_awaits(hv)
            if h_exit and h_stay and h_aw and all(hv.guarded_by(r_, h_exit) for r_ in hv.return_blocks):
                tests = sorted({x for x, _ in h_stay})
                r_ = hv.reach_from_edges(h_stay, avoid_blocks=[x.block for x in h_aw], stop_blocks=tests)
                if not any(x in r_ for x in tests) and not any(x in r_ for x in hv.return_blocks) and not [s for s in hv.sites if s.callee.name in ("fetch_add", "push")]:
                    helper_wait = a
                    exit_e = bi.outcome_edges(a.site, "Ready")
                    stay_e = h_stay
    if not exit_e or not stay_e:
        probs.append("no back-pressure test comparing count.load() with limit")
    if len(adds) != 1 or adds[0].arg(1) != ("const", 1):
        probs.append("count.fetch_add(1) occurs %d times (expected once)" % len(adds))
    if len(pushes) != 1:
        probs.append("group.push occurs %d times (expected once)" % len(pushes))
    if not probs:
        for s, name in ((adds[0], "fetch_add"), (pushes[0], "push")):
            if not bi.guarded_by(s.block, exit_e):
                probs.append("%s is reachable without passing the count < limit exit of the back-pressure loop" % name)
            ok, bad = bi.must_reach([t for _, t in exit_e], [s.block], bi.return_blocks)
            if not ok:
                probs.append("%s is not performed on every path after the back-pressure loop" % name)
            r = bi.body.reach(bi.body.succs(s.block))
            if s.block in r:
                probs.append("%s can be performed more than once per send" % name)
        # the wait loop makes progress: its body awaits group.next() before re-testing
        aw = costream.group_next_awaits(bi)
        tests = sorted({a for a, b_ in stay_e})
        okw = bool(aw)
        if helper_wait is not None:
            okw = True          # established on the helper's body above
        elif okw:
            r = bi.reach_from_edges(stay_e, avoid_blocks=[a.block for a in aw], stop_blocks=tests)
            okw = not any(x in r for x in tests) and not any(x in r for x in bi.return_blocks)
        if not okw:
            probs.append("the back-pressure loop does not await group.next() before re-testing the limit")
        # what is pushed
        p = pushes[0].arg(1)
        sv = flow.struct_view(M, p, futname)
        okp = sv is not None
        if okp:
            f, item, cnt = sv.get("f"), sv.get("fut_t"), sv.get("count")
            okp = f is not None and f[0] == "call" and f[1][1] == "clone" and f[2][0] == cfield("f") and \
                item == ("agg", ("Option", "Some"), (cupvar(1),)) and \
                cnt is not None and cnt[0] == "call" and cnt[1][1] == "clone" and cnt[2][0] == cfield("count") and \
                sv.get("done") == ("const", 0) and sv.get("fut_b") == ("agg", ("Option", "None"), ())
        if not okp:
            probs.append("the pushed future is not a fresh %s { f: f.clone(), fut_t: Some(<the given item future>), count: count.clone(), done: false, fut_b: None }" % futname)
        rets = flow.returned_values(bi)
        if not all(r[1] == "Continue" for r in rets):
            pass
    if probs:
        for p in sorted(set(probs)):
            ctx.fail(rule, where, p, site=b.span)
    else:
        ctx.ok(rule, where, "push only on count < limit; fetch_add(1) and push once each; loop body awaits group.next()",
               sample={"exit_edges": flow.fmt_edges(bi, exit_e)})
    # who else touches the counter upwards
    n_other = 0
    for x in M.F.bodies:
        if x.def_ == b.def_ or x.kind in ("Const", "AnonConst"):
            continue
        xi = M.info(x)
        for s in xi.sites:
            if s.callee.name in ("fetch_add", "store", "swap", "fetch_max") and s.callee.owner in ("Atomic", "AtomicUsize"):
                if ("concurrent_stream::%s::" % ent["adt"].split("::")[-2]) in x.def_:
                    n_other += 1
                    ctx.fail(rule, x.def_, "the in-flight counter is raised / overwritten outside send", site=s.where)
    ctx.ok(rule, "<crate>", "in-flight counter is raised only in %s::send (%d other sites)" % (cname, n_other))
    # constructor
    nb = None
    for i in M.F.impls:
        if i["trait"] is None and M.adt_of_type(i["self_ty"]) == ent["adt"]:
            nb = M.impl_fn(i, "new") or nb
    ctx.require(nb is not None, "%s::new" % cname)
    ni = M.info(nb)
    rets = flow.returned_values(ni)
    okc = False
    detail = ""
    for blk, kind, payload, t in rets:
        if t[0] == "agg" and t[1][0] == cname:
            names = None
            for bb in sorted(nb.reachable):
                for st in nb.stmts(bb):
                    if st["k"] == "assign" and st["rv"]["k"] == "agg" and st["rv"].get("ak") == "adt" and st["rv"].get("cpath") == ent["adt"]:
                        names = st["rv"]["fnames"]
            if names:
                fs = dict(zip(names, t[2]))
                cnt = fs.get("count")
                okcount = cnt is not None and cnt[0] == "call" and cnt[1] == ("Arc", "new") and cnt[2][0][0] == "call" and cnt[2][0][2] == (("const", 0),)
                lim = fs.get("limit")
                oklim = False
                if lim is not None and lim[0] == "phi":
                    ds = set()
                    for d in nb.defs.get(lim[1], []):
                        if d[0] in nb.reachable and not nb.is_cleanup(d[0]):
                            ds.add(ni.T._of_def(lim[1], d, 1))
                    get = ("call", ("NonZero", "get"), (("field", ("variant", ("param", 1), "Some"), 0),))
                    vals = set()
                    for d in ds:
                        if d[0] == "call" and d[1] == ("NonZero", "get") and d[2] == get[2]:
                            vals.add("get")
                        elif d[0] in ("const", "constexpr") and (d[1] == 18446744073709551615 or "MAX" in str(d[1])):
                            vals.add("max")
                        else:
                            vals.add("other:" + short(d))
                    oklim = vals == {"get", "max"}
                    detail = ",".join(sorted(vals))
                elif lim is not None and lim[0] == "call":
                    # the same mapping spelled with the Option combinators
                    is_max = lambda x: x[0] in ("const", "constexpr") and (x[1] == 18446744073709551615 or "MAX" in str(x[1]))
                    is_get = lambda x: x == ("fn", ("NonZero", "get"))
                    if lim[1] == ("Option", "map_or") and len(lim[2]) == 3:
                        oklim = lim[2][0] == ("param", 1) and is_max(lim[2][1]) and is_get(lim[2][2])
                    elif lim[1] == ("Option", "unwrap_or") and len(lim[2]) == 2 and lim[2][0][0] == "call" and lim[2][0][1] == ("Option", "map"):
                        oklim = lim[2][0][2][0] == ("param", 1) and is_get(lim[2][0][2][1]) and is_max(lim[2][1])
                    detail = short(lim)
                okc = okcount and oklim
    ctx.check(okc, rule, nb.def_, "constructor: count = 0; limit = Some(n) => n.get(), None => usize::MAX (%s)" % detail, site=nb.span)


def is_count_load_term(bi):
    for s in bi.sites:
        if s.callee.name == "load" and s.arg(0) == cfield("count"):
            return s.term
    return ("none",)


def rule_dec_call(ctx, M, futname, rule_dec, rule_call):
    b = None
    for x in M.F.bodies:
        if x.name == "poll" and x.kind == "AssocFn" and x.impl_self is not None and (M.adt_of_type(x.impl_self) or "").endswith("::" + futname):
            b = x
    ctx.require(b is not None, "%s::poll" % futname)
    bi = M.info(b)
    where = b.def_
    cps = bi.child_polls()
    sf_ = lambda n: ("field", ("param", 1), n)
    pt = [c for c in cps if c.arg(0) == ("field", ("variant", sf_("fut_t"), "Some"), 0)]
    pb = [c for c in cps if c.arg(0) == ("field", ("variant", sf_("fut_b"), "Some"), 0)]
    ctx.require(len(pt) == 1 and len(pb) == 1 and len(cps) == 2, "%s::poll: one poll of fut_t and one of fut_b" % futname)
    pt, pb = pt[0], pb[0]
    rt, rb = bi.outcome_edges(pt, "Ready"), bi.outcome_edges(pb, "Ready")
    # DEC
    if rule_dec is None:
        subs = None
    else:
        subs = [s for s in bi.sites if s.callee.name == "fetch_sub" and s.arg(0) == sf_("count")]
    adds = [s for s in bi.sites if s.callee.name in ("fetch_add", "store") and s.arg(0) == sf_("count")]
    done_w = [blk for blk, ptm, v, sp in scan.field_writes(bi) if ptm == sf_("done") and v == ("const", 1)]
    probs = []
    if subs is None:
        pass
    elif len(subs) != 1 or subs[0].arg(1) != ("const", 1):
        probs.append("count.fetch_sub(1) occurs %d times (expected once)" % len(subs))
    else:
        s = subs[0]
        if not bi.guarded_by(s.block, rb):
            probs.append("the counter is decremented before the closure's future resolved")
        for p in flow.once_on_paths(bi, [t for _, t in rb], [s.block], bi.return_blocks):
            probs.append("decrement on the closure future's Ready path: " + p)
    if adds and rule_dec is not None:
        probs.append("the work future raises the counter itself")
    ok, bad = bi.must_reach([t for _, t in rb], done_w, bi.return_blocks)
    if not done_w or not ok or not all(bi.guarded_by(x, rb) for x in done_w):
        probs.append("`done` is not set exactly when the closure's future resolved")
    readys = flow.returns_of(bi, "Ready")
    if not readys or not all(bi.guarded_by(r[0], rb) for r in readys):
        probs.append("Ready is returned without the closure's future having resolved")
    rd = rule_dec or rule_call
    if rule_dec is not None:
        # who else lowers (or rewrites) the in-flight counter: the single fetch_sub above is the only release of a slot in
        # the module - a second release site (a destructor, a guard, fetch_update / compare_exchange / fetch_min ...) hands
        # the same slot back twice and lets more than `limit` closure futures exist (seed C13-q)
        mod = (M.adt_of_type(b.impl_self) or "").split("::")[-2]
        n_low = 0
        for x in M.F.bodies:
            if x.kind in ("Const", "AnonConst") or ("concurrent_stream::%s::" % mod) not in x.def_:
                continue
            for s in M.info(x).sites:
                if s.callee.owner not in ("Atomic", "AtomicUsize") or s.callee.name in ATOMIC_READS or s.callee.name in ATOMIC_RAISES:
                    continue
                if x.def_ == b.def_ and subs and len(subs) == 1 and s.where == subs[0].where:
                    continue
                n_low += 1
                probs.append("the in-flight counter is lowered / rewritten (%s) outside the closure future's Ready edge of %s::poll: %s" % (s.callee.name, futname, x.def_))
        if not probs:
            ctx.ok(rd, "<crate>", "in-flight counter is lowered only by the one fetch_sub of %s::poll (%d other sites in concurrent_stream::%s)" % (futname, n_low, mod))
    if probs:
        for p in sorted(set(probs)):
            ctx.fail(rd, where, p, site=b.span)
    else:
        ctx.ok(rd, where, "%sdone := true and Ready only on the closure future's Ready edge" % ("fetch_sub(1) once; " if rule_dec else ""))
    # CALL
    calls = costream.fn_calls(bi)
    probs = []
    if len(calls) != 1:
        probs.append("the closure is invoked at %d sites (expected 1)" % len(calls))
    else:
        c = calls[0]
        arg = c.arg(1)
        okarg = c.arg(0) == sf_("f") and arg is not None and arg[0] == "agg" and arg[1] == "tuple" and len(arg[2]) == 1 and \
            flow.is_payload(arg[2][0], pt.block, "Ready")
        if not okarg:
            probs.append("the closure is not called with the item future's own output")
        if not bi.guarded_by(c.block, rt):
            probs.append("the closure can be invoked before the item exists")
        for p in flow.once_on_paths(bi, [t for _, t in rt], [c.block], bi.return_blocks + [pb.block]):
            probs.append("closure call on the item's Ready path: " + p)
        wt = [blk for blk, ptm, v, sp in scan.field_writes(bi) if ptm == sf_("fut_t") and v == ("agg", ("Option", "None"), ())]
        wb = [blk for blk, ptm, v, sp in scan.field_writes(bi) if ptm == sf_("fut_b") and v[0] == "agg" and v[1] == ("Option", "Some") and
              v[2] and v[2][0][0] == "call" and v[2][0][3] == c.block]
        for name, blocks in (("fut_t := None", wt), ("fut_b := Some(closure result)", wb)):
            ok, bad = bi.must_reach([c.target], blocks, bi.return_blocks + [pb.block])
            if not blocks or not ok:
                probs.append("%s does not follow the closure call on every path" % name)
        # the closure's future is polled only in the Some arm of fut_b; the item future only in the Some arm of fut_t
    if probs:
        for p in sorted(set(probs)):
            ctx.fail(rule_call, where, p, site=b.span)
    else:
        ctx.ok(rule_call, where, "closure invoked once, on the item's Ready edge, with the item; fut_t := None; fut_b := Some(result)")


def rule_flush(ctx, M, cname, rule):
    ent = M.consumers.get(cname)
    ctx.require(ent is not None, cname)
    for fn in ("flush", "progress"):
        b = ent[fn]
        ctx.require(b is not None, "%s::%s coroutine" % (cname, fn))
        bi = costream.effective_body(M, M.info(b))
        costream.drain_loops_exit_only_on_none(ctx, bi, rule, b.def_, "%s returns only after group.next() yielded None (group drained)" % fn)


UNORDERED_GROUPS = {"FuturesUnordered", "FuturesUnorderedBounded", "FutureGroup"}
LEAKS = {("core::mem::forget", "forget"), ("ManuallyDrop", "new"), ("Box", "leak"), ("Vec", "leak"), ("Box", "into_raw"), ("Rc", "new"), ("Arc", "into_raw")}


def rule_group_container(ctx, M, rule, consumers):
    """What the consumer rules assume about the place the in-flight futures are parked: (1) it is a completion-order
    container (`next()` yields whatever has completed; an ordered queue would park a failed or finished future behind an
    earlier pending one), owned by value; (2) dropping the consumer drops it: no destructor of the consumer, no
    `mem::forget` / `ManuallyDrop` / `leak` anywhere in the concurrent-stream module."""
    F = M.F
    for cname in consumers:
        ent = M.consumers.get(cname)
        if ent is None:
            continue
        a = F.adts_c.get(ent["adt"])
        if a is None:
            continue
        gf = [f for f in a["variants"][0]["fields"] if f["name"] == "group"]
        ok = False
        tys = None
        if len(gf) == 1:
            t = F.types[gf[0]["ty"]]
            tys = t.get("s")
            ok = t["k"] == "adt" and (t.get("cpath") or "").rsplit("::", 1)[-1] in UNORDERED_GROUPS
        ctx.check(ok, rule, ent["adt"].split("futures_concurrency::")[-1], "%s parks its futures in a completion-order container (next() yields whatever completed)" % cname,
                  site=a.get("span"), sample={"group": tys})
        ctx.check(not a.get("has_drop"), rule, ent["adt"].split("futures_concurrency::")[-1], "%s has no destructor of its own: dropping it drops the group and every in-flight future" % cname,
                  site=a.get("span"))
    bad = []
    for b in F.bodies:
        if "concurrent_stream::" not in b.def_ or b.kind in ("Const", "AnonConst") or "::test::" in b.def_ or "::tests::" in b.def_:
            continue
        for s in M.info(b).sites:
            if not s.callee.indirect and s.callee.key in LEAKS:
                bad.append("%s::%s at %s" % (s.callee.key[0], s.callee.key[1], s.where))
    ctx.check(not bad, rule, "<crate>::concurrent_stream", "nothing in the concurrent-stream module forgets or leaks a value (in-flight futures are dropped with their owner)",
              path=bad[:4])


def find_costream(M, suffix):
    for adt, e in M.costreams.items():
        if adt.endswith(suffix):
            return e
    return None


def rule_drive(ctx, M, rule):
    ent = find_costream(M, "from_stream::FromStream")
    ctx.require(ent is not None and ent["drive"] is not None, "FromStream::drive coroutine")
    b = ent["drive"]
    bi = M.info(b)
    where = b.def_
    sends = costream.send_points(bi, M)
    flushes = costream.flush_points(bi)
    # every send is consumer.send(ready(item)) with item = a Some payload of the source
    probs = []
    if len(flushes) != 1:
        probs.append("%d flush sites (expected 1)" % len(flushes))
    item_edges = costream.item_edges_of_source(M, bi)
    unc = costream.uncovered_source_options(M, bi)
    if unc or len(costream.source_option_terms(M, bi)) < 2:
        probs.append("an item source (race arm / Empty => iter.next() arm) is not matched on Some / None: %s" % unc)
    if not item_edges:
        probs.append("no Some(item) edge found")
    claimed = set()
    for edges, payload, what in item_edges:
        mine = [s for s in sends if s.item_future is not None and s.item_future[0] == "call" and s.item_future[1][1] == "ready" and s.item_future[2] and s.item_future[2][0] == payload]
        if len(mine) != 1:
            probs.append("item from %s is sent %d times (expected exactly once)" % (what, len(mine)))
            continue
        claimed.add(mine[0].block)
        # the send call is reached on every path from the Some edge before the loop continues / exits
        aw = [x for x in costream.awaits(bi) if x.fut is not None and x.fut[0] == "call" and x.fut[3] == mine[0].block]
        lp = bi.body.innermost_loop(mine[0].block)
        exits = list(bi.return_blocks) + ([lp[0]] if lp else []) + [f.block for f in flushes]
        ok, bad = bi.must_reach([t for _, t in edges], [mine[0].block], exits)
        if not ok:
            probs.append("item from %s can be dropped without being sent" % what)
        if not aw:
            probs.append("send(..) for the item from %s is not awaited" % what)
    if {s.block for s in sends} - claimed:
        probs.append("a send site does not forward an item just taken from the source")
    # every loop exit reaches flush, whose value is returned
    if flushes:
        f = flushes[0]
        faw = [x for x in costream.awaits(bi) if x.fut is not None and x.fut[0] == "call" and x.fut[3] == f.block]
        r = bi.body.reach([0], avoid_blocks=[f.block], stop_blocks=bi.return_blocks)
        if any(x in r for x in bi.return_blocks):
            probs.append("drive can return without flushing the consumer")
        rets = flow.returned_values(bi)
        if not faw or not all(flow.is_payload(t, faw[0].site.block, "Ready") for _, _, _, t in rets):
            probs.append("drive does not return the value of consumer.flush().await")
        if bi.body.innermost_loop(f.block) is not None:
            probs.append("flush is called inside the item loop")
    if probs:
        for p in sorted(set(probs)):
            ctx.fail(rule, where, p, site=b.span)
    else:
        ctx.ok(rule, where, "each Some(item) -> one awaited send(ready(item)); every exit flushes; flush value returned",
               sample={"sends": [s.where for s in sends], "flush": [f.where for f in flushes]})
    costream.check_drive_src(ctx, M, b, rule)
    # vec::IntoConcurrentStream::drive delegates to the stream source
    ent2 = find_costream(M, "collections::vec::IntoConcurrentStream")
    if ent2 is not None and ent2["drive"] is not None:
        vi = M.info(ent2["drive"])
        dr = [s for s in vi.sites if s.callee.name == "drive" and s.callee.trait == "ConcurrentStream"]
        ok = len(dr) == 1 and dr[0].arg(1) == cupvar(1)
        if ok:
            aw = [x for x in costream.awaits(vi) if x.fut is not None and x.fut[0] == "call" and x.fut[3] == dr[0].block]
            rets = flow.returned_values(vi)
            ok = bool(aw) and all(flow.is_payload(t, aw[0].site.block, "Ready") for _, _, _, t in rets)
        ctx.check(ok, rule, ent2["drive"].def_, "vec::IntoConcurrentStream::drive delegates to the stream source with the given consumer", site=ent2["drive"].span)


def rule_limit(ctx, M, method, cname, rule):
    # the terminal operation reads concurrency_limit() and hands it to the consumer
    b = None
    for x in M.F.bodies:
        if x.def_.endswith("ConcurrentStream::%s::{closure#0}" % method):
            b = x
    ctx.require(b is not None, "ConcurrentStream::%s coroutine" % method)
    bi = M.info(b)
    news = [s for s in bi.sites if s.callee.name == "new" and s.callee.owner == cname]
    ok = len(news) == 1
    if ok:
        a = news[0].arg(0)
        ok = a is not None and a[0] == "call" and a[1][1] == "concurrency_limit" and a[2] and a[2][0] == cupvar(0) and news[0].arg(1) == cupvar(1)
    dr = [s for s in bi.sites if s.callee.name == "drive"]
    ok = ok and len(dr) == 1 and dr[0].arg(0) == cupvar(0) and dr[0].arg(1) == news[0].term
    if ok:
        aw = [x for x in costream.awaits(bi) if x.fut is not None and x.fut[0] == "call" and x.fut[3] == dr[0].block]
        rets = flow.returned_values(bi)
        ok = bool(aw) and all(flow.is_payload(t, aw[0].site.block, "Ready") for _, _, _, t in rets)
    ctx.check(ok, rule, b.def_, "%s = self.drive(%s::new(self.concurrency_limit(), f)).await" % (method, cname), site=b.span)
    if method == "for_each":
        from . import c15
        c15.rule_adapter_ctors(ctx, M, rule, only=("Limit",))
    # sibling agreement
    for adt, e in sorted(M.costreams.items()):
        cb = e.get("concurrency_limit")
        if cb is None:
            ctx.fail(rule, adt, "no concurrency_limit body", site="")
            continue
        ci = M.info(cb)
        rets = flow.returned_values(ci)
        name = adt.rsplit("::", 1)[-1]
        t = rets[0][3] if len(rets) == 1 else None
        if adt.endswith("limit::Limit"):
            ok = t == ("field", ("param", 1), "limit")
            what = "returns its own `limit` field"
        elif adt.endswith("from_stream::FromStream"):
            ok = t == ("agg", ("Option", "None"), ())
            what = "the stream source imposes no limit (None)"
        else:
            ok = t is not None and t[0] == "call" and t[1][1] == "concurrency_limit" and t[2] and t[2][0][0] == "field" and t[2][0][1] == ("param", 1)
            what = "delegates to the wrapped concurrent stream"
        ctx.check(ok, rule, cb.def_, "%s::concurrency_limit %s" % (name, what), site=cb.span, sample={"ret": short(t) if t else None})
