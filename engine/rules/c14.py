"""C14 — fallible concurrent streams never swallow an error and cancel on it."""
from .. import scan, families
from ..families import short
from ..terms import subterms
from . import flow, common, costream, c02, c13
from .costream import cfield, cupvar

PROPERTY = "C14"
LEVEL = "other"
CONFIGS_QUICK = ["std", "std-rel"]
CONFIGS_THOROUGH = ["std", "alloc", "std-rel", "alloc-rel"]
EXPLANATION = (
    "Error-discipline rules on the MIR of the async bodies behind try_for_each and collect::<Result<Vec<_>,E>>: (BRANCH) in "
    "TryForEachConsumer::{send, progress, flush} every completion pulled from the group (the Some payload of group.next().await) is "
    "passed to Try::branch - none is dropped; on the Break(r) edge send/progress store residual := Some(r) and return "
    "ConsumerState::Break, flush returns from_residual(r); on Continue the loop goes on; (FLUSH) flush tests residual first and "
    "returns from_residual(residual.take().unwrap()); from_output(()) is returned only through the None edge of group.next() - Ok "
    "implies the group drained with no Break; (WORK) send pushes every item future exactly once unless it returns Break, the work "
    "future calls the closure once with the item and resolves to the closure future's own value; (STOP) in FromStream::drive, from "
    "every ConsumerState::Break edge (progress result and both send results) no iter.next() and no send is reachable and flush is "
    "reached; (RESVEC) ResultVecConsumer::progress returns Break at once if the output is already Err, stores the first Err payload "
    "into the output and returns Break, pushes Ok payloads; flush runs progress; from_concurrent_stream returns the output it lent "
    "to the consumer; (WRAP) Take/Enumerate/Map/Limit consumers return the inner send/progress/flush result unchanged (Take may only "
    "replace it by Break). In-flight futures are owned by the consumer inside the operation's own future (C02.OWN), hence dropped "
    "no later than it.")
EXPLANATION += (' (RESVEC, entry) the FromConcurrentStream impl for Result<Vec<T>, E> drives the stream with a consumer that can answer Break: collecting with a consumer that never stops the stream and folding afterwards would keep the right value but lose the short-circuit.')
ASSUMPTIONS = [
    "futures_buffered::FuturesUnordered yields every completed future's output exactly once",
    "Try::branch / from_residual / from_output of the user's result type behave per core::ops::Try",
]
RULES = {
    "C14.BRANCH": "every Some(res) from group.next() is branched; Break(r) => residual := Some(r) + ConsumerState::Break (send, progress) / from_residual(r) (flush); Continue => loop goes on",
    "C14.FLUSH": "flush returns the stored residual first; from_output(()) only after group.next() yielded None",
    "C14.WORK": "send pushes the item future once unless Break; work future calls the closure once and resolves to the closure future's value",
    "C14.STOP": "drive: after ConsumerState::Break no iter.next() and no send; flush is reached",
    "C14.RESVEC": "ResultVecConsumer: Break if already Err; first Err payload stored and Break; Ok pushed; flush = progress; output returned",
    "C14.WRAP": "adapter consumers return the inner consumer's result unchanged (Take may substitute Break)",
    "C14.OWN": "the try_for_each / result consumers own their group by value",
}


def run(ctx):
    for rid, text in RULES.items():
        ctx.rule(rid, text)
    for cfg in ctx.configs:
        ctx.current_config = cfg
        M = ctx.model(cfg)
        rule_branch(ctx, M)
        rule_work(ctx, M)
        rule_stop(ctx, M)
        rule_progress_first(ctx, M)
        rule_resvec(ctx, M)
        rule_wrap(ctx, M, "C14.WRAP")
        from . import common as _common
        _common.rule_no_shadow(ctx, M, {"enumerate", "limit", "take", "map", "for_each", "try_for_each", "collect", "drive", "concurrency_limit", "co", "into_co_stream"}, "C14.WRAP", "ConcurrentStream", receivers=_common.CS_TRAITS)
        adts = {M.consumers[n]["adt"] for n in ("TryForEachConsumer", "ResultVecConsumer") if n in M.consumers}
        with ctx.renamed({"C02.OWN": "C14.OWN"}):
            c02.rule_own(ctx, M, only=lambda cp: cp in adts)
        c13.rule_group_container(ctx, M, "C14.OWN", ("TryForEachConsumer", "ResultVecConsumer"))
        ctx.floor("C14.BRANCH", cfg, 3)
        ctx.floor("C14.FLUSH", cfg, 1)
        ctx.floor("C14.STOP", cfg, 3)
        ctx.floor("C14.RESVEC", cfg, 3)
        ctx.floor("C14.WRAP", cfg, 12)
    return {}


def branch_sites(bi):
    return [s for s in bi.sites if s.callee.name == "branch" and s.callee.trait == "Try"]


class Branch:
    """`res.branch()` of a completion `res` taken from the group, in either spelling:
    `match group.next().await { Some(res) => match res.branch() {..} }` or
    `match group.next().await.map(Try::branch) { Some(Continue(_)) => .., Some(Break(r)) => .. }`."""

    def __init__(self, bi, block, result_term):
        self.block = block
        self.result = result_term
        self.break_edges = []
        self.cont_edges = []
        for e in bi.switches:
            if e["kind"] == "discr" and e["subject"] == result_term:
                for lab, acc in (("Break", self.break_edges), ("Continue", self.cont_edges)):
                    ed = bi.edge(e, lab)
                    if ed:
                        acc.append(ed)
        self.residual = ("field", ("variant", result_term, "Break"), 0)


def branches_of(bi, a):
    """Branch objects for the completion obtained by await `a` (a group.next() await)"""
    out = []
    payload = ("field", ("variant", a.value, "Some"), 0)
    for s in branch_sites(bi):
        if s.arg(0) == payload:
            out.append(Branch(bi, s.block, s.term))
    for s in bi.sites:
        if s.key == ("Option", "map") and s.arg(0) == a.value and s.arg(1) is not None and s.arg(1)[0] == "fn" and s.arg(1)[1][1] == "branch":
            out.append(Branch(bi, s.block, ("field", ("variant", s.term, "Some"), 0)))
    return out


def rule_branch(ctx, M):
    ent = M.consumers.get("TryForEachConsumer")
    ctx.require(ent is not None, "TryForEachConsumer")
    for fn in ("send", "progress", "flush"):
        b = ent[fn]
        ctx.require(b is not None, "TryForEachConsumer::%s coroutine" % fn)
        bi = M.info(b)
        where = b.def_
        aws = costream.group_next_awaits(bi)
        brs = branch_sites(bi)
        probs = []
        if not aws:
            probs.append("no group.next().await")
        for a in aws:
            some_e, none_e = costream.await_value_tests(bi, a)
            mine = branches_of(bi, a)
            if len(mine) != 1:
                probs.append("a completion taken from the group is not passed to Try::branch exactly once")
                continue
            br = mine[0]
            lp = bi.body.innermost_loop(a.call_block)     # the user's loop (the await itself is a poll loop)
            header = lp[0] if lp else None
            exits = list(bi.return_blocks) + ([header] if header is not None else [])
            mapped = br.result[0] == "field"      # Option::map form: the branch happens before the Some/None match
            if not mapped:
                ok, bad = bi.must_reach([t for _, t in some_e], [br.block], exits)
                if not some_e or not ok:
                    probs.append("a completion can be dropped without being branched")
            be = br.break_edges
            ce = br.cont_edges
            if not be or not ce:
                probs.append("the branch result is not matched on Break / Continue")
                continue
            rpay = br.residual
            rets = flow.returned_values(bi)
            r_from_break = bi.reach_from_edges(be)
            if fn in ("send", "progress"):
                w = [blk for blk, pt, v, sp in scan.field_writes(bi) if pt == cfield("residual") and v == ("agg", ("Option", "Some"), (rpay,))]
                okw, bad = bi.must_reach([t for _, t in be], w, bi.return_blocks)
                if not w or not okw:
                    probs.append("the residual of a failed completion is not stored on every path")
                kinds = {k for blk, k, p, t in rets if blk in r_from_break}
                if kinds != {"Break"}:
                    probs.append("a failed completion does not make %s return ConsumerState::Break (returns %s)" % (fn, sorted(kinds)))
            else:
                good = [blk for blk, k, p, t in rets if t[0] == "call" and t[1][1] == "from_residual" and t[2] and t[2][0] == rpay]
                okr, bad = bi.must_reach([t for _, t in be], good, bi.return_blocks)
                if not good or not okr:
                    probs.append("flush does not return from_residual(<the failed completion's residual>)")
            if header is not None and header in r_from_break:
                probs.append("the loop continues after a failed completion")
            # Continue: loop goes on, nothing returned
            r = bi.reach_from_edges(ce, stop_blocks=[header] if header is not None else [])
            if header is None or header not in r or any(x in r for x in bi.return_blocks):
                probs.append("a successful completion does not simply continue the loop")
        if probs:
            for p in sorted(set(probs)):
                ctx.fail("C14.BRANCH", where, p, site=b.span)
        else:
            ctx.ok("C14.BRANCH", where, "%s: every completion branched; Break => residual kept and reported; Continue => loop" % fn,
                   sample={"awaits": [a.where for a in aws]})
    # FLUSH
    b = ent["flush"]
    bi = M.info(b)
    aws = costream.group_next_awaits(bi)
    probs = []
    rets = flow.returned_values(bi)
    # the stored residual is observed first: `if residual.is_some()` or `if let Some(r) = residual.take()`
    obs = [s for s in bi.sites if s.key in (("Option", "is_some"), ("Option", "take"), ("core::mem::take", "take")) and s.arg(0) == cfield("residual")]
    first = [s for s in obs if aws and all(bi.body.dominates(s.block, a.block) for a in aws)]
    te = fe = []
    if not first:
        probs.append("flush does not look at the stored residual before draining the group")
    else:
        t = first[0]
        if t.key == ("Option", "is_some"):
            te, fe = bi.outcome_edges(t, True), bi.outcome_edges(t, False)
        else:
            te, fe = bi.outcome_edges(t, "Some"), bi.outcome_edges(t, "None")

        def is_stored(t_):
            if t_[0] == "call" and t_[1][1] == "from_residual" and t_[2]:
                a = t_[2][0]
                return a[0] == "field" and a[1][0] == "variant" and a[1][2] == "Some" and a[1][1][0] == "call" and \
                    a[1][1][1] in (("Option", "take"), ("Option", "unwrap"), ("core::mem::take", "take"), ("core::mem::replace", "replace")) and \
                    a[1][1][2] and a[1][1][2][0] == cfield("residual")
            return False
        good = [blk for blk, k, p, t_ in rets if is_stored(t_)]
        okr, bad = bi.must_reach([x for _, x in te], good, bi.return_blocks)
        if not te or not good or not okr:
            probs.append("a stored residual is not what flush returns")
        nones = []
        for a in aws:
            s_, n_ = costream.await_value_tests(bi, a)
            nones += n_
        outs = [blk for blk, k, p, t_ in rets if t_[0] == "call" and t_[1][1] == "from_output"]
        if not outs or not all(bi.guarded_by(x, nones) for x in outs) or not fe or not all(bi.guarded_by(x, fe) for x in outs):
            probs.append("from_output(()) can be returned without the group having drained / with a residual stored")
        other = [blk for blk, k, p, t_ in rets if not (t_[0] == "call" and t_[1][1] in ("from_output", "from_residual"))]
        if other:
            probs.append("flush returns something other than from_residual / from_output")
    ctx.check(not probs, "C14.FLUSH", b.def_, "flush: stored residual first; Ok only after the group drained without a Break", site=b.span, path=probs)


def rule_work(ctx, M):
    # send pushes once unless Break (None => break of the wait loop is an extra exit)
    ent = M.consumers.get("TryForEachConsumer")
    b = ent["send"]
    bi = M.info(b)
    pushes = [s for s in bi.sites if s.callee.name == "push" and s.arg(0) == cfield("group")]
    adds = [s for s in bi.sites if s.callee.name == "fetch_add" and s.arg(0) == cfield("count")]
    rets = flow.returned_values(bi)
    probs = []
    if len(pushes) != 1 or len(adds) != 1:
        probs.append("expected exactly one fetch_add and one push in send")
    else:
        p = pushes[0]
        sv = flow.struct_view(M, p.arg(1), "TryForEachFut")
        okp = sv is not None and sv.get("fut_t") == ("agg", ("Option", "Some"), (cupvar(1),)) and sv.get("f") is not None and \
            sv["f"][0] == "call" and sv["f"][1][1] == "clone" and sv["f"][2][0] == cfield("f") and \
            sv.get("fut_b") == ("agg", ("Option", "None"), ()) and sv.get("done") == ("const", 0)
        if not okp:
            probs.append("the pushed future is not TryForEachFut::new(f.clone(), <the given item future>, count.clone())")
        # every return that is not Break is preceded by the push
        for blk, k, pl, t in rets:
            if k != "Break":
                if not bi.body.blocks_dominate([p.block], blk) or not bi.body.blocks_dominate([adds[0].block], blk):
                    probs.append("send can return %s without having pushed the item" % k)
        r = bi.body.reach(bi.body.succs(p.block))
        if p.block in r:
            probs.append("the item can be pushed more than once")
    ctx.check(not probs, "C14.WORK", b.def_, "send: item future pushed exactly once unless Break is returned", site=b.span, path=probs)
    with ctx.renamed({"X.DEC": "C14.WORK", "X.CALL": "C14.WORK"}):
        c13.rule_dec_call(ctx, M, "TryForEachFut", "X.DEC", "X.CALL")
    # the work future resolves to the closure future's own value
    fb = None
    for x in M.F.bodies:
        if x.name == "poll" and x.kind == "AssocFn" and x.impl_self is not None and (M.adt_of_type(x.impl_self) or "").endswith("::TryForEachFut"):
            fb = x
    fi = M.info(fb)
    pb = [c for c in fi.child_polls() if c.arg(0) == ("field", ("variant", ("field", ("param", 1), "fut_b"), "Some"), 0)]
    readys = flow.returns_of(fi, "Ready")
    ok = len(pb) == 1 and bool(readys) and all(flow.is_payload(r[2], pb[0].block, "Ready") for r in readys)
    ctx.check(ok, "C14.WORK", fb.def_, "the work future resolves to the closure future's own value", site=fb.span)
    flow.rule_integrity(ctx, fi, "C14.WORK", fb.def_, ("Ready",), "the closure future's result")


def break_edges(bi, M=None):
    """edges on which a ConsumerState value obtained from the consumer is known to be Break"""
    out = []
    if M is not None:
        # `if send_item(..).await { break }` where the local async wrapper returns `matches!(send(..).await, Break)`
        for sp in costream.send_points(bi, M):
            if sp.wrapper and sp.wrapper.get("break_when") is True:
                for a in costream.awaits(bi):
                    if a.fut is not None and a.fut[0] == "call" and a.fut[3] == sp.block:
                        for e in bi.switches:
                            if e["kind"] == "bool" and e["subject"] == a.value:
                                ed = bi.edge(e, True)
                                if ed:
                                    out.append((ed, "wrapper %s returned true (= Break)" % sp.site.callee.name))
    for e in bi.switches:
        if e["kind"] != "discr":
            continue
        ed = bi.edge(e, "Break")
        if not ed:
            continue
        s = e["subject"]
        # derived from an await (send / progress / race payload)
        if any(x[0] == "call" and x[1][1] == "poll" for x in subterms(s)):
            out.append((ed, short(s)))
    return out


def rule_stop(ctx, M):
    ent = c13.find_costream(M, "from_stream::FromStream")
    ctx.require(ent is not None and ent["drive"] is not None, "FromStream::drive coroutine")
    b = ent["drive"]
    bi = M.info(b)
    be = break_edges(bi, M)
    ctx.require(len(be) >= 1, "drive: ConsumerState::Break edges (found %d, expected the progress result and every send result)" % len(be))
    # every awaited send result and the progress result is examined for Break
    untested = []
    wrapped = {sp.block for sp in costream.send_points(bi, M) if sp.wrapper}
    for a in costream.awaits(bi):
        if a.kind is not None and a.kind[1] == "send" and a.kind[0] in ("Consumer",):
            if not any(flow.derives_from(e["subject"], a.site.block) and bi.edge(e, "Break") for e in bi.switches if e["kind"] == "discr"):
                untested.append(a.where)
        elif a.fut is not None and a.fut[0] == "call" and a.fut[3] in wrapped:
            if not any(e["kind"] == "bool" and e["subject"] == a.value for e in bi.switches):
                untested.append(a.where)
    ctx.check(not untested, "C14.STOP", b.def_, "every consumer.send(..).await result is examined for Break", site=b.span, path=untested)
    nxt = {blk for blk, _, _ in costream.source_next_points(M, bi)}
    sends = {s.block for s in costream.send_points(bi, M)}
    fl = [s.block for s in costream.flush_points(bi)]
    for ed, what in be:
        r = bi.reach_from_edges([ed])
        hit = sorted((nxt | sends) & r)
        ok2, bad = bi.must_reach([ed[1]], fl, bi.return_blocks)
        ctx.check(not hit and ok2 and bool(fl), "C14.STOP", b.def_, "after ConsumerState::Break: no iter.next(), no send; flush reached (%s)" % what[:60],
                  site=bi.describe(ed[0]), path=common.fmt_blocks(bi, hit + bad))


def rule_progress_first(ctx, M):
    """In every iteration of drive a *fresh* `(progress, next_item).race()` is built with the consumer's
    progress future first, and a fresh tuple race polls position 0 first (Indexer::new starts at
    offset 0, Indexer::iter hands out the old offset): a failure already sitting in the group is
    observed before another item is taken from the source."""
    from . import prims
    ent = c13.find_costream(M, "from_stream::FromStream")
    b = ent["drive"]
    bi = M.info(b)
    races = [s for s in bi.sites if s.callee.name == "race" and s.callee.trait == "Race"]
    ok = len(races) == 1
    if ok:
        a = races[0].arg(0)
        ok = a is not None and a[0] == "agg" and a[1] == "tuple" and len(a[2]) == 2
        if ok:
            firsts = []
            for comp in a[2]:
                body_ = None
                if comp[0] == "agg" and isinstance(comp[1], tuple) and comp[1][0] == "coroutine":
                    body_ = M.by_cdef.get(comp[1][1])
                calls = [s.callee.name for s in M.info(body_).sites] if body_ is not None else []
                firsts.append("progress" if "progress" in calls else ("next" if "next" in calls else "?"))
            ok = firsts == ["progress", "next"]
        lp = bi.body.innermost_loop(races[0].block)
        ok = ok and lp is not None
    ctx.check(ok, "C14.STOP", b.def_, "each iteration races a fresh (consumer.progress(), source.next()) pair, progress first", site=b.span)
    with ctx.renamed({"X.ROT": "C14.STOP"}):
        prims.check_indexer(ctx, M, "X.ROT")


def rule_result_collect_stops(ctx, M):
    """`impl FromConcurrentStream<Result<T, E>> for Result<Vec<T>, E>` must drive the stream with a consumer that can
    answer ConsumerState::Break (in `send` or `progress`): a consumer that never does keeps draining the source and running
    the sibling futures after an error, whatever is done with the collected results afterwards."""
    found = 0
    for x in M.F.bodies:
        if not (x.def_.endswith("from_concurrent_stream::{closure#0}") and "Result<" in x.def_.split(" as ")[0]):
            continue
        found += 1
        xi = M.info(x)
        news = [s for s in xi.sites if s.callee.name == "new" and s.callee.owner in M.consumers]
        owners = sorted({s.callee.owner for s in news})
        can_break = False
        for o in owners:
            ent = M.consumers[o]
            for fn in ("send", "progress"):
                b = ent.get(fn)
                if b is None:
                    continue
                bi = costream.effective_body(M, M.info(b))
                if any(r[1] == "Break" for r in flow.returned_values(bi)):
                    can_break = True
        ctx.check(bool(owners) and can_break, "C14.RESVEC", x.def_,
                  "collecting into a Result drives the stream with a consumer that can stop it (Break) when an item is an Err",
                  site=x.span, sample={"consumers": owners})
    return found


def rule_resvec(ctx, M):
    rule_result_collect_stops(ctx, M)
    ent = M.consumers.get("ResultVecConsumer")
    ctx.require(ent is not None and ent["progress"] is not None, "ResultVecConsumer::progress coroutine")
    b = ent["progress"]
    bi = costream.effective_body(M, M.info(b))      # `self.drain().await` -> the private async helper, in the caller's terms
    out = cfield("output")
    aws = costream.group_next_awaits(bi)
    probs = []
    # entry guard
    entry = [e for e in bi.switches if e["kind"] == "discr" and e["subject"] == out]
    rets = flow.returned_values(bi)
    if len(entry) != 1 or not aws:
        probs.append("no entry test of the output / no group.next().await")
    else:
        e = entry[0]
        err_e, ok_e = bi.edge(e, "Err"), bi.edge(e, "Ok")
        if not err_e or not ok_e or not all(bi.body.dominates(e["block"], a.block) for a in aws):
            probs.append("the output is not tested before the group is polled")
        else:
            r = bi.reach_from_edges([err_e])
            kinds = {k for blk, k, p, t in rets if blk in r}
            if kinds != {"Break"} or any(a.block in r for a in aws):
                probs.append("an output that is already Err does not return Break at once")
        for a in aws:
            some_e, none_e = costream.await_value_tests(bi, a)
            item = ("field", ("variant", a.value, "Some"), 0)
            tests = [x for x in bi.switches if x["kind"] == "discr" and x["subject"] == item]
            if len(tests) != 1:
                probs.append("a completed item is not matched on Ok / Err")
                continue
            t = tests[0]
            ee, oe = bi.edge(t, "Err"), bi.edge(t, "Ok")
            epay = ("field", ("variant", item, "Err"), 0)
            opay = ("field", ("variant", item, "Ok"), 0)
            w = [blk for blk, pt, v, sp in scan.field_writes(bi) if pt == out and v == ("agg", ("Result", "Err"), (epay,))]
            okw, bad = bi.must_reach([ee[1]], w, bi.return_blocks) if ee else (False, [])
            r = bi.reach_from_edges([ee]) if ee else set()
            kinds = {k for blk, k, p, t_ in rets if blk in r}
            if not w or not okw or kinds != {"Break"}:
                probs.append("an Err item is not stored into the output and followed by ConsumerState::Break")
            lp = bi.body.innermost_loop(a.call_block)
            if lp and lp[0] in r:
                probs.append("the loop continues after an Err item")
            pushes = [s for s in bi.sites if s.key == ("Vec", "push") and s.arg(1) == opay and s.arg(0) == ("field", ("variant", out, "Ok"), 0)]
            okp = False
            if oe and len(pushes) == 1:
                okp, bad = bi.must_reach([oe[1]], [pushes[0].block], list(bi.return_blocks) + ([lp[0]] if lp else []))
            if not okp:
                probs.append("an Ok item is not pushed onto the output vector")
            # flush is progress(): after an Ok item the group is awaited again - the loop ends only on None or Err,
            # otherwise futures still in flight are dropped unfinished and their results (or a late error) are lost
            if oe:
                r_ok = bi.reach_from_edges([oe], stop_blocks=[lp[0]] if lp else [])
                if not lp or lp[0] not in r_ok or any(x in r_ok for x in bi.return_blocks):
                    probs.append("progress (which is also flush) returns after an Ok item instead of draining the group")
            other_w = [blk for blk, pt, v, sp in scan.field_writes(bi) if pt == out and blk not in w]
            if other_w:
                probs.append("the output is overwritten elsewhere")
            empties = [blk for blk, k, p, t_ in rets if k == "Empty"]
            if not empties or not all(bi.guarded_by(x, none_e) for x in empties):
                probs.append("Empty is returned without the group having drained")
    ctx.check(not probs, "C14.RESVEC", b.def_, "progress: Break if already Err; Err item stored + Break; Ok item pushed; Empty only when drained",
              site=b.span, path=probs)
    # flush = progress
    fb = ent["flush"]
    fi = M.info(fb)
    aw = [a for a in costream.awaits(fi) if a.kind is not None and a.kind[1] == "progress" and a.call_args and a.call_args[0] == cupvar(0)]
    ok_flush = len(aw) == 1 and len(costream.awaits(fi)) == 1
    if not ok_flush and len(costream.awaits(fi)) == 1 and bi is not M.info(b):
        # progress is `helper(self).await`: flush may await the very same helper on the same receiver
        hv = costream.helper_view(M, fi, costream.awaits(fi)[0])
        ok_flush = hv is not None and hv.body.def_ == bi.body.def_ and tuple(costream.awaits(fi)[0].call_args)[:1] == (cupvar(0),)
    ctx.check(ok_flush, "C14.RESVEC", fb.def_, "flush awaits progress()", site=fb.span)
    # from_concurrent_stream returns the output it lent to the consumer
    for x in M.F.bodies:
        if x.def_.endswith("from_concurrent_stream::{closure#0}") and "Result<" in x.def_.split(" as ")[0]:
            xi = M.info(x)
            news = [s for s in xi.sites if s.callee.name == "new" and s.callee.owner == "ResultVecConsumer"]
            rets = flow.returned_values(xi)
            ok = len(news) == 1 and len(rets) == 1
            if ok:
                lent = news[0].arg(0)
                ok = rets[0][3] == lent or (lent is not None and lent[0] in ("phi", "local") and rets[0][3] == lent)
            dr = [s for s in xi.sites if s.callee.name == "drive"]
            ok = ok and len(dr) == 1 and dr[0].arg(1) == news[0].term
            ctx.check(ok, "C14.RESVEC", x.def_, "collect returns the very Result it lent to the consumer, after driving the stream with it", site=x.span,
                      sample={"ret": short(rets[0][3]) if rets else None, "lent": short(news[0].arg(0)) if news else None})


WRAPPERS = ("TakeConsumer", "EnumerateConsumer", "MapConsumer", "LimitConsumer")


def rule_wrap(ctx, M, rule):
    for name in WRAPPERS:
        ent = M.consumers.get(name)
        ctx.require(ent is not None, name)
        for fn in ("send", "progress", "flush"):
            b = ent[fn]
            ctx.require(b is not None, "%s::%s coroutine" % (name, fn))
            bi = M.info(b)
            aw = [a for a in costream.awaits(bi) if a.kind is not None and a.kind[1] == fn and a.call_args and a.call_args[0] == cfield("inner")]
            rets = flow.returned_values(bi)
            ok = len(aw) == 1 and len(costream.awaits(bi)) == 1
            detail = "returns inner.%s().await unchanged" % fn
            if ok:
                a = aw[0]
                passthrough = [r for r in rets if flow.is_payload(r[3], a.site.block, "Ready")]
                others = [r for r in rets if r not in passthrough]
                if name == "TakeConsumer" and fn == "send":
                    ok = bool(passthrough) and all(r[1] == "Break" for r in others)
                    detail = "returns inner.send().await unchanged, or Break"
                else:
                    ok = bool(passthrough) and not others
                if bi.body.innermost_loop(a.call_block) is not None:
                    ok = False
            ctx.check(ok, rule, b.def_, "%s::%s %s" % (name, fn, detail), site=b.span)
