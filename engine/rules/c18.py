"""C18 — Send/Sync in, Send/Sync out: decided by rustc's trait solver on a generated witness crate."""
from ..facts import base
from .. import witness
from ..sites import FUTURE, STREAM
from ..terms import simple_name

PROPERTY = "C18"
LEVEL = "proof"
ENGINE = "witness (rustc trait solver)"
TECHNIQUE = ("type-level witnesses decided by rustc's trait solver: generic assert_send/assert_sync obligations per exported "
             "future/stream type (parametric in the children), compile-fail twins as positive controls, completeness guard from "
             "the MIR driver's impl table")
CONFIGS_QUICK = ["std"]
CONFIGS_THOROUGH = ["std", "alloc", "std-rel", "alloc-rel"]
EXPLANATION = (
    "Every exported future/stream type of the crate (array/Vec/tuple-arity-1..12 members of join, try_join, race, race_ok, merge, "
    "zip, chain; FutureGroup, StreamGroup, their Keyed views; both WaitUntil; the adapter futures reachable through associated "
    "types) gets one generic witness function per auto trait whose where-clauses are exactly the premises of C18 (children and "
    "their outputs Send resp. Sync) and whose body is the obligation `T: Send` resp. `T: Sync`; the opaque futures of for_each / "
    "try_for_each / collect are witnessed generically over the source, the closures and their futures, for co() and "
    "Vec::into_co_stream sources and the adapter stacks.  rustc's trait solver decides each obligation for all instantiations at "
    "once.  Negative twins (one Rc / Cell child) must fail with E0277, showing that the obligations really constrain.  A "
    "completeness guard compares the witness table with the impl Future/Stream table extracted from the crate's MIR facts.")
ASSUMPTIONS = [
    "rustc's trait solver (nightly and stable agree on auto-trait inference for these types)",
    "the premises are those stated by C18: children and their outputs (and closures, for concurrent streams) are Send resp. Sync",
]
RULES = {
    "C18.SEND": "witness obligation `T: Send` under Send premises type-checks",
    "C18.SYNC": "witness obligation `T: Sync` under Sync premises type-checks",
    "C18.TWIN": "negative twin (one non-Send / non-Sync child) is rejected with E0277 (positive control)",
    "C18.COMPLETE": "every exported impl Future/Stream ADT of the crate is covered by a Send and a Sync witness",
}


def run(ctx):
    for rid, text in RULES.items():
        ctx.rule(rid, text)
    index = witness.generate()
    by_name = {w["name"]: w for w in index}
    runs = []
    obligations = 0
    discharged = 0
    for cfg in ctx.configs:
        ctx.current_config = cfg
        # ---- completeness guard (needs the impl table of this configuration)
        M = ctx.model(cfg)
        need = {}
        mem = {}
        for m in M.members:
            if m.adt:
                mem[m.adt] = m.label
        for i in M.F.impls:
            if i["trait"] in (FUTURE, STREAM):
                adt = M.adt_of_type(i["self_ty"])
                a = M.F.adts_c.get(adt)
                if adt is None or a is None:
                    continue
                if adt in mem or a.get("public"):
                    need[adt] = mem.get(adt, simple_name(adt))
        cov = {"send": set(), "sync": set()}
        for w in index:
            if not w["twin"] and witness.active(w, cfg):
                for c in w["covers"]:
                    cov[w["kind"]].add(c)
        missing = []
        for adt, label in sorted(need.items()):
            for k in ("send", "sync"):
                if adt in cov[k]:
                    ctx.ok("C18.COMPLETE", adt, "covered by a %s witness" % k, sample={"member": label})
                else:
                    missing.append("%s (%s)" % (adt, k))
        if missing:
            from ..rulekit import Inconclusive
            raise Inconclusive("exported future/stream types without a witness: " + ", ".join(missing[:6]))
        # ---- positive run
        try:
            res = witness.check(cfg, False, index)
        except witness.Inconclusive as e:
            from ..rulekit import Inconclusive
            raise Inconclusive(str(e))
        runs.append({"config": cfg, "twins": False, "cmd": res["cmd"], "wall_s": res["wall_s"], "errors": len(res["errors"])})
        for u in res["unattributed"]:
            ctx.fail("C18.SEND", "<witness crate>", "unattributed type error: %s" % (u["message"] or "")[:200])
        for w in index:
            if w["twin"] or not witness.active(w, cfg):
                continue
            rule = "C18.SEND" if w["kind"] == "send" else "C18.SYNC"
            where = w["covers"][0] if w["covers"] else "witness::" + w["name"]
            obligations += 1
            errs = res["errors"].get(w["name"])
            if errs:
                e = errs[0]
                ctx.fail(rule, where, "witness %s does not hold: %s" % (w["name"], (e["message"] or "")[:160]),
                         site="witness/src/lib.rs:%s" % e["line"], path=e["because"])
            else:
                discharged += 1
                ctx.ok(rule, where, "witness %s holds" % w["name"], sample={"obligation": w["obligation"]})
        # ---- twin run: each twin must be rejected, nothing else may be
        if ctx.tier == "thorough" or base(cfg) == "std":
            try:
                res2 = witness.check(cfg, True, index)
            except witness.Inconclusive as e:
                from ..rulekit import Inconclusive
                raise Inconclusive(str(e))
            runs.append({"config": cfg, "twins": True, "cmd": res2["cmd"], "wall_s": res2["wall_s"], "errors": len(res2["errors"])})
            for w in index:
                if not w["twin"] or not witness.active(w, cfg):
                    continue
                errs = res2["errors"].get(w["name"], [])
                ok = any(e["code"] == w["expect"] for e in errs)
                if not ok:
                    # a twin that compiles means the obligation does not constrain: the machinery is broken, not /repo
                    from ..rulekit import Inconclusive
                    raise Inconclusive("negative twin %s was not rejected with %s" % (w["name"], w["expect"]))
                ctx.ok("C18.TWIN", "witness::" + w["name"], "rejected with %s" % w["expect"],
                       sample={"obligation": w["obligation"], "rustc": errs[0]["message"][:200]})
            for name, errs in res2["errors"].items():
                if not by_name[name]["twin"] and name not in res["errors"]:
                    ctx.fail("C18.SEND" if by_name[name]["kind"] == "send" else "C18.SYNC", "witness::" + name,
                             "witness fails only in the twin build: %s" % (errs[0]["message"] or "")[:160])
        ctx.floor("C18.SEND", cfg, 150 if base(cfg) != "core" else 80)
        ctx.floor("C18.SYNC", cfg, 100 if base(cfg) != "core" else 80)
        if ctx.tier == "thorough" or base(cfg) == "std":
            ctx.floor("C18.TWIN", cfg, 40)
    return {
        "obligations": obligations,
        "discharged": discharged,
        "checker_cmd": "; ".join(sorted({r["cmd"] for r in runs})),
        "trusted_base": ["rustc trait solver and auto-trait inference", "witness/gen.py (premises = C18's stated bounds)",
                         "completeness guard over the driver's impl table"],
        "witness_runs": runs,
    }
