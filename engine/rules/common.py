"""Helpers shared by several rule modules."""
from .. import scan
from ..sites import peel_type, is_agg
from ..terms import simple_name, term_str
from ..families import short


def cx_param(bi):
    """Index of the parameter local that carries the task Context."""
    body = bi.body
    for l in range(1, body.argc + 1):
        t = peel_type(bi.facts, body.locals[l]["ty"])
        if t["k"] == "adt" and simple_name(t["cpath"]) == "Context":
            return l
    return None


def is_caller_cx(bi, t):
    p = cx_param(bi)
    return p is not None and t == ("param", p)


def pending_blocks(bi):
    """Blocks containing a `Poll::Pending` aggregate (the value eventually returned as Pending)."""
    out = []
    body = bi.body
    for b in sorted(body.reachable):
        if body.is_cleanup(b):
            continue
        for s in body.stmts(b):
            if s["k"] == "assign" and is_agg(s["rv"], "Poll", "Pending"):
                out.append(b)
                break
    return out


def loop_exits(bi, block):
    """(header or None, exit blocks) for path queries that must stay inside one iteration of the
    innermost loop around `block`: the loop header and all return blocks."""
    lp = bi.body.innermost_loop(block)
    ex = list(bi.return_blocks)
    header = None
    if lp is not None:
        header = lp[0]
        ex.append(header)
    return header, ex


def subwaker_index(t):
    """For ctx term Context::from_waker(WAKERS.get(w, idx)@Some.0) return (wakers_term, idx)."""
    if t is None or t[0] != "call" or t[1] != ("Context", "from_waker") or not t[2]:
        return None
    w = t[2][0]
    if w[0] == "field" and w[1][0] == "variant" and w[1][2] == "Some":
        c = w[1][1]
        if c[0] == "call" and c[1][1] == "get" and c[1][0] in scan.WAKERS and len(c[2]) >= 2:
            return c[2][0], c[2][1]
    return None


def same_index(unit, cps, idx, block=None):
    """Does index term `idx` (used at `block`) designate the child polled at `cps`?"""
    if idx is None:
        return False
    if cps.pos is not None:
        # tuple: either the literal position, or the scan index inside the arm of that position
        k = scan.const_of(idx)
        if k is not None:
            return k == cps.pos
        if cps.loop_idx is None or idx != cps.loop_idx or cps.arm != cps.pos:
            return False
        if block is not None:
            a = unit.arms(cps.loop_idx).arm_of(block)
            if a is not None and a != cps.pos:
                return False
        return True
    return cps.idx is not None and idx == cps.idx


def arm_feasible_avoid(unit, cps):
    """Edges infeasible in the iteration in which `cps` is reached (tuple arms)."""
    if cps.pos is not None and cps.loop_idx is not None and cps.arm is not None:
        return unit.arms(cps.loop_idx).infeasible_for(cps.arm)
    return []


def fmt_blocks(bi, blocks):
    return ["bb%d %s" % (b, bi.body.term(b).get("sp", "")) for b in blocks]


def all_ready_tests(M, bi, state_field="state"):
    """Tests "every slot state is Ready" in their spellings: `state.iter().all(|s| s.is_ready())` (true
    edge = all ready) and `!state.iter().any(|s| !s.is_ready())` (false edge of the `any` = all ready).
    Returns [(site, edges_all_ready, edges_not_all_ready, whole_table, predicate_ok)]."""
    from . import flow
    out = []
    for s in bi.sites:
        if s.callee.name not in ("all", "any") or s.callee.indirect:
            continue
        it, cl = s.arg(0), s.arg(1)
        full = it is not None and it[0] == "call" and it[1][1] in ("iter", "iter_mut") and it[2] and it[2][0] == scan.self_field(state_field)
        pred = None      # True: closure says "is ready"; False: closure says "is not ready"
        if cl is not None and cl[0] == "agg" and isinstance(cl[1], tuple) and cl[1][0] == "closure":
            cb = M.by_cdef.get(cl[1][1])
            if cb is not None:
                ci = M.info(cb)
                calls = [x for x in ci.sites if x.callee.owner == "PollState"]
                rets = flow.returned_values(ci)
                if len(calls) == 1 and calls[0].callee.name == "is_ready" and len(rets) == 1:
                    t = rets[0][3]
                    if t[0] == "call" and t[3] == calls[0].block:
                        pred = True
                    elif t[0] == "unop" and t[1] == "Not" and t[2][0] == "call" and t[2][3] == calls[0].block:
                        pred = False
        te = bi.outcome_edges(s, True)
        fe = bi.outcome_edges(s, False)
        for e in bi.phi_tests_fed_by(s):
            for lab, acc in ((True, te), (False, fe)):
                ed = bi.edge(e, lab)
                if ed:
                    acc.append(ed)
        for e in bi.phi_tests_fed_by_not(s):
            for lab, acc in ((True, fe), (False, te)):
                ed = bi.edge(e, lab)
                if ed:
                    acc.append(ed)
        if s.callee.name == "all":
            out.append((s, te, fe, full, pred is True))
        else:
            out.append((s, fe, te, full, pred is False))
    return out
