"""Helpers shared by several rule modules."""
from .. import scan
from ..sites import peel_type, is_agg
from ..terms import simple_name, term_str
from ..families import short


def cx_param(bi):
    """Index of the parameter local that carries the task Context."""
    body = bi.body
    for l in range(1, body.argc + 1):
        t = peel_type(bi.facts, body.locals[l]["ty"])
        if t["k"] == "adt" and simple_name(t["cpath"]) == "Context":
            return l
    return None


def is_caller_cx(bi, t):
    p = cx_param(bi)
    return p is not None and t == ("param", p)


def pending_blocks(bi):
    """Blocks containing a `Poll::Pending` aggregate (the value eventually returned as Pending)."""
    out = []
    body = bi.body
    for b in sorted(body.reachable):
        if body.is_cleanup(b):
            continue
        for s in body.stmts(b):
            if s["k"] == "assign" and is_agg(s["rv"], "Poll", "Pending"):
                out.append(b)
                break
    return out


def loop_exits(bi, block):
    """(header or None, exit blocks) for path queries that must stay inside one iteration of the
    innermost loop around `block`: the loop header and all return blocks."""
    lp = bi.body.innermost_loop(block)
    ex = list(bi.return_blocks)
    header = None
    if lp is not None:
        header = lp[0]
        ex.append(header)
    return header, ex


def subwaker_index(t):
    """For ctx term Context::from_waker(WAKERS.get(w, idx)@Some.0) return (wakers_term, idx)."""
    if t is None or t[0] != "call" or t[1] != ("Context", "from_waker") or not t[2]:
        return None
    w = t[2][0]
    if w[0] == "field" and w[1][0] == "variant" and w[1][2] == "Some":
        c = w[1][1]
        if c[0] == "call" and c[1][1] == "get" and c[1][0] in scan.WAKERS and len(c[2]) >= 2:
            return c[2][0], c[2][1]
    return None


def same_index(unit, cps, idx, block=None):
    """Does index term `idx` (used at `block`) designate the child polled at `cps`?"""
    if idx is None:
        return False
    if cps.pos is not None:
        # tuple: either the literal position, or the scan index inside the arm of that position
        k = scan.const_of(idx)
        if k is not None:
            return k == cps.pos
        if cps.loop_idx is None or idx != cps.loop_idx or cps.arm != cps.pos:
            return False
        if block is not None:
            a = unit.arms(cps.loop_idx).arm_of(block)
            if a is not None and a != cps.pos:
                return False
        return True
    return cps.idx is not None and idx == cps.idx


def arm_feasible_avoid(unit, cps):
    """Edges infeasible in the iteration in which `cps` is reached (tuple arms)."""
    if cps.pos is not None and cps.loop_idx is not None and cps.arm is not None:
        return unit.arms(cps.loop_idx).infeasible_for(cps.arm)
    return []


def fmt_blocks(bi, blocks):
    return ["bb%d %s" % (b, bi.body.term(b).get("sp", "")) for b in blocks]


def all_ready_tests(M, bi, state_field="state"):
    """Tests "every slot state is Ready" in their spellings: `state.iter().all(|s| s.is_ready())` (true
    edge = all ready) and `!state.iter().any(|s| !s.is_ready())` (false edge of the `any` = all ready).
    Returns [(site, edges_all_ready, edges_not_all_ready, whole_table, predicate_ok)]."""
    from . import flow
    out = []
    for s in bi.sites:
        if s.callee.name not in ("all", "any") or s.callee.indirect:
            continue
        it, cl = s.arg(0), s.arg(1)
        full = it is not None and it[0] == "call" and it[1][1] in ("iter", "iter_mut") and it[2] and it[2][0] == scan.self_field(state_field)
        pred = None      # True: closure says "is ready"; False: closure says "is not ready"
        if cl is not None and cl[0] == "agg" and isinstance(cl[1], tuple) and cl[1][0] == "closure":
            cb = M.by_cdef.get(cl[1][1])
            if cb is not None:
                ci = M.info(cb)
                calls = [x for x in ci.sites if x.callee.owner == "PollState"]
                rets = flow.returned_values(ci)
                if len(calls) == 1 and calls[0].callee.name == "is_ready" and len(rets) == 1:
                    t = rets[0][3]
                    if t[0] == "call" and t[3] == calls[0].block:
                        pred = True
                    elif t[0] == "unop" and t[1] == "Not" and t[2][0] == "call" and t[2][3] == calls[0].block:
                        pred = False
        te = bi.outcome_edges(s, True)
        fe = bi.outcome_edges(s, False)
        for e in bi.phi_tests_fed_by(s):
            for lab, acc in ((True, te), (False, fe)):
                ed = bi.edge(e, lab)
                if ed:
                    acc.append(ed)
        for e in bi.phi_tests_fed_by_not(s):
            for lab, acc in ((True, fe), (False, te)):
                ed = bi.edge(e, lab)
                if ed:
                    acc.append(ed)
        if s.callee.name == "all":
            out.append((s, te, fe, full, pred is True))
        else:
            out.append((s, fe, te, full, pred is False))
    return out


# ---------------------------------------------------------------------------------------------------------------------
# API surface rules (added after round 6): what `x.method(..)` means, and who may take a combinator apart

FUTURE_C = "core::future::future::Future"
STREAM_C = "futures_core::stream::Stream"


def _moved_places(x):
    """every place moved out of (operand `move P`) in a statement rvalue / call argument JSON"""
    out = []

    def walk(v):
        if isinstance(v, dict):
            if "mv" in v:
                out.append(v["mv"])
            for w in v.values():
                walk(w)
        elif isinstance(v, list):
            for w in v:
                walk(w)
    walk(x)
    return out


CS_TRAITS = ("futures_concurrency::concurrent_stream::ConcurrentStream",
             "futures_concurrency::concurrent_stream::into_concurrent_stream::IntoConcurrentStream")


def rule_no_shadow(ctx, M, methods, rule, what, receivers=(FUTURE_C, STREAM_C)):
    """No inherent method of a crate type that the trait applies to (a type implementing one of `receivers`) carries the
    name of an extension / family trait method: method resolution prefers the inherent one, so `x.<method>(..)` on that
    type would silently stop meaning the trait's combinator."""
    recv = set()
    for i in M.F.impls:
        if i["trait"] in receivers:
            a = M.adt_of_type(i["self_ty"])
            if a:
                recv.add(a)
    bad = []
    for b in M.F.bodies:
        if b.kind != "AssocFn" or b.name not in methods or "::test" in b.def_:
            continue
        if b.j.get("impl") and not b.j.get("impl_trait_c") and not b.j.get("trait_def"):
            if b.impl_self is not None and M.adt_of_type(b.impl_self) in recv:
                bad.append(b)
    for b in bad:
        ctx.fail(rule, b.def_, "inherent method `%s` shadows the %s method of the same name on this type" % (b.name, what), site=b.span)
    if not bad:
        ctx.ok(rule, "<crate>", "no inherent method named %s shadows the %s" % ("/".join(sorted(methods)), what), nontrivial=False)
    return not bad


def rule_children_stay(ctx, M, rule):
    """Who may take a combinator apart: no body moves a field out of a by-value future / stream combinator of this crate
    (rebuilding a combinator from the parts of a partly consumed one restarts children that already finished).
    Positive control: the same query over *all* crate types finds the legitimate moves (ConcurrentStream::drive(self))."""
    comb = set()
    for i in M.F.impls:
        if i["trait"] in (FUTURE_C, STREAM_C):
            a = M.adt_of_type(i["self_ty"])
            if a:
                comb.add(a)
    crate_adts = {a["cpath"] for a in M.F.d["adts"]}
    control = 0
    bad = {}
    for b in M.F.bodies:
        if "::test" in b.def_:
            continue
        for blk in b.j["blocks"]:
            if blk.get("cleanup"):
                continue
            srcs = [(s.get("rv"), s.get("sp")) for s in blk["stmts"] if s["k"] == "assign"]
            t = blk["term"]
            if t.get("k") == "call":
                srcs.append((t.get("args"), t.get("sp")))
            for rv, sp in srcs:
                for pl in _moved_places(rv):
                    p = pl["p"]
                    if not p or "f" not in p[0]:
                        continue
                    adt = p[0].get("adt")
                    if adt in comb:
                        bad.setdefault((b.def_, adt, p[0].get("name")), sp)
                    elif adt in crate_adts:
                        control += 1
    # a plain accessor (`into_inner(self) -> F`) hands a child back to the caller and builds nothing: what breaks the
    # properties is *re-building* a combinator from the parts of a partly consumed one - keep the findings of bodies that
    # also construct a combinator (family entry point, `new` of a combinator type, struct literal of one)
    FAMILY = {"join", "try_join", "race", "race_ok", "merge", "zip", "chain", "wait_until"}
    builders = set()
    for b in M.F.bodies:
        for blk in b.j["blocks"]:
            if blk.get("cleanup"):
                continue
            for st in blk["stmts"]:
                if st["k"] == "assign" and st["rv"]["k"] == "agg" and st["rv"].get("cpath") in comb:
                    builders.add(b.def_)
            t = blk["term"]
            if t.get("k") == "call" and "indirect" not in t["func"]:
                f = t["func"]
                if (f.get("name") in FAMILY and f.get("trait_c") and str(f.get("trait_c")).startswith("futures_concurrency::")) or \
                        (f.get("name") == "new" and f.get("impl_self") is not None and M.adt_of_type(f["impl_self"]) in comb):
                    builders.add(b.def_)
    bad = {k: v for k, v in bad.items() if k[0] in builders}
    for (where, adt, fld), sp in sorted(bad.items()):
        ctx.fail(rule, where, "moves field `%s` out of a by-value %s and builds a combinator in the same body (a partly consumed combinator must not be re-assembled)" % (fld, adt.split("::")[-1]), site=sp)
    if not bad:
        ctx.ok(rule, "<crate>", "no body moves a field out of a by-value future/stream combinator (%d combinator types; control: %d such moves out of other crate types)" % (len(comb), control),
               nontrivial=control > 0)
    return not bad, control


# ---------------------------------------------------------------------------------------------------------------------
# pin helpers (utils::pin): the value terms read `iter_pin_mut(x)` / `get_pin_mut(x, i)` as views of x's elements; this is
# the rule that makes that reading true (added after round 8)

PIN_HELPERS = {"iter_pin_mut": "iter", "iter_pin_mut_vec": "iter", "get_pin_mut": "get", "get_pin_mut_from_vec": "get"}


def rule_pin_utils(ctx, M, rule):
    """iter_pin_mut*(c) is `c.iter_mut().map(|t| Pin::new_unchecked(t))` and get_pin_mut*(c, i) is `c.get_mut(i).map(|t|
    Pin::new_unchecked(t))` over the standard slice / Vec accessors (trusted library models: every element once, in order,
    zero-sized elements included); no hand-written pointer walk."""
    from . import flow
    n = 0
    for b in M.F.bodies:
        if b.kind != "Fn" or b.name not in PIN_HELPERS or "utils::pin" not in b.def_:
            continue
        n += 1
        bi = M.info(b)
        kind = PIN_HELPERS[b.name]
        rets = flow.returned_values(bi)
        ok = len(rets) == 1
        why = []
        if ok and kind == "iter":
            t = rets[0][3]
            if True:
                ok = t[0] == "call" and t[1][1] == "map" and len(t[2]) == 2 and t[2][0][0] == "call" and t[2][0][1][1] == "iter_mut" \
                    and t[2][0][2] and t[2][0][2][0] == ("param", 1)
                if ok:
                    cl = t[2][1]
                    ok = cl[0] == "agg" and isinstance(cl[1], tuple) and cl[1][0] == "closure" and M.F.closure_return_term(cl[1][1]) == ("param", 2)
        if kind == "get":
            # Option::map with a re-pinning closure is folded to its receiver by the term builder; the same thing written
            # out as `match c.get_mut(i) { Some(x) => Some(Pin::new_unchecked(x)), None => None }` returns two values
            def is_get(t):
                return t[0] == "call" and t[1][1] == "get_mut" and len(t[2]) == 2 and t[2][0] == ("param", 1) and t[2][1] == ("param", 2)
            some = 0
            ok = bool(rets)
            for blk, k, payload, t in rets:
                if is_get(t):
                    some += 1
                elif t == ("agg", ("Option", "None"), ()):
                    pass
                elif t[0] == "agg" and t[1] == ("Option", "Some") and len(t[2]) == 1 and t[2][0][0] == "field" and t[2][0][2] == 0 \
                        and t[2][0][1][0] == "variant" and t[2][0][1][2] == "Some" and is_get(t[2][0][1][1]):
                    some += 1
                else:
                    ok = False
            ok = ok and some >= 1
        raw = []
        for blk in b.j["blocks"]:
            for st in blk["stmts"]:
                if st["k"] == "assign" and st["rv"]["k"] == "rawptr":
                    raw.append(st.get("sp"))
            tt = blk["term"]
            if tt["k"] == "call" and (tt["func"].get("name") in ("add", "offset", "sub", "as_mut_ptr", "as_ptr", "from_raw_parts_mut", "from_raw_parts", "read", "write")):
                raw.append(tt.get("sp"))
        ctx.check(ok and not raw, rule, b.def_, "%s is the standard accessor of its argument re-pinned element-wise (no pointer walk)" % b.name,
                  site=b.span, path=[str(x) for x in raw[:3]])
    # a helper type with its own Iterator impl in utils::pin replaces the library iterator by hand-written code
    for i in M.F.impls:
        if i["trait"] == "core::iter::traits::iterator::Iterator" and "utils::pin" in i["def"]:
            ctx.fail(rule, i["def"], "utils::pin defines its own Iterator (the pin helpers are views over the standard slice iterators)", site=i.get("span"))
            n += 1
    return n
