"""C09 — zip: the k-th output is the row of k-th items; ends with the shortest input."""
from ..facts import base
from .. import families, scan
from ..families import short, ctor_fields, self_path, sub_struct_pos, adt_field
from ..terms import simple_name
from . import racelike, flow, common, c01, c02, c03, joinlike

PROPERTY = "C09"
LEVEL = "other"
CONFIGS_QUICK = ["std", "alloc", "std-rel"]
CONFIGS_THOROUGH = ["std", "alloc", "core", "std-rel", "alloc-rel", "core-rel"]
EXPLANATION = (
    "Path and data-flow rules on the MIR of every zip poll_next body (tuple arities 1-12, array, Vec): (ROW) on an input's "
    "Ready(Some) edge its item - and nothing else - is stored exactly once in the row slot of the input's own position and the "
    "slot state becomes Ready (an input whose slot is filled is not polled: C03.GUARD); (EMIT) Ready(Some(row)) is returned only "
    "on the true edge of the all-slots-ready test `state.iter().all(is_ready)` evaluated after that write, the row is the "
    "positional container of the slots swapped out of self.output exactly once (tuple: position K <- assume_init(field K); "
    "array/Vec: {array,vec}_assume_init of the swapped storage), unmodified, and on that path all slot states return to Pending "
    "and all inputs are re-armed; when the row is incomplete the scan continues; (END) on any input's Ready(None) edge every path "
    "sets `done` and returns Ready(None) in the same call without polling anything or taking the row (buffered items are left "
    "to the destructor: C02.ZIP); every Ready(None) return sits on such an edge; (EXT) StreamExt::zip builds (self, other).")
EXPLANATION += (' (CTOR) the entry point stores operand K, converted by into_stream only, as the input of position K.')
EXPLANATION += (" (UTIL) vec_assume_init hands back the argument's own elements in place (ptr::read of the argument, or from_raw_parts(pointer, length, capacity) of the argument in that order, or the element-wise map); the utils::pin helpers are the standard slice / Vec accessors of their argument re-pinned element-wise.")
ASSUMPTIONS = [
    "Iterator::all over the state slice visits every slot (library model)",
    "C02.ZIP: buffered items of an incomplete row are dropped by the destructor, never yielded",
]
RULES = {
    "C09.CTOR": "entry point: every operand becomes the child of its own position, converted by into_future / into_stream only; nothing reorders, drops or duplicates operands",
    "C09.LIVE": "premises from the wake protocol, re-checked here for this family: task waker registered first, child polled with its own sub-waker (or the caller's context), no readiness lock across a child poll, a cleared bit is followed by a poll, re-arm after an item, readiness primitives / Wake::wake forward correctly",
    "C09.ROW": "Ready(Some) edge => item stored once in the input's own row slot, state Ready on the same index",
    "C09.EMIT": "row returned only under all(is_ready) evaluated after the write; positional, swapped out once, unmodified; states reset, all re-armed; incomplete row => scan continues",
    "C09.END": "Ready(None) edge => done := true, Ready(None) in the same call, nothing polled/taken; None returns only on such edges",
    "C09.DROP": "buffered items of an unfinished row are dropped exactly once: by the destructor, for Ready slots, on every path (C02.ZIP / C02.POLLDROP run for zip)",
    "C09.EXT": "StreamExt::zip(self, other) = Zip::zip((self, other))",
}


def run(ctx):
    for rid, text in RULES.items():
        ctx.rule(rid, text)
    for cfg in ctx.configs:
        ctx.current_config = cfg
        M = ctx.model(cfg)
        units = families.subwaker_units(M, ("zip",), groups=False)
        c01.live_premises(ctx, M, units, "C09.LIVE")
        from . import ctors
        ctors.run_family(ctx, M, units, "C09.CTOR", cfg)
        for u in units:
            rule_row(ctx, M, u)
            with ctx.renamed({"C03.GUARD": "C09.ROW"}):
                c03.rule_guard(ctx, u)
            rule_emit(ctx, M, u)
            rule_end(ctx, M, u)
            with ctx.renamed({"C02.ZIP": "C09.DROP", "C02.POLLDROP": "C09.DROP"}):
                c02.rule_zip(ctx, M, u)
                c02.rule_polldrop(ctx, M, u)
        if base(cfg) != "core":
            joinlike.rule_vec_assume_init(ctx, M, "C09.EMIT")
        from . import common as _cm
        ctx.require(_cm.rule_pin_utils(ctx, M, "C09.ROW") >= 1, "utils::pin helpers")
        n = joinlike.rule_ext(ctx, M, "stream::stream_ext::StreamExt", "zip", "zip", "C09.EXT")
        ctx.require(n >= 1, "StreamExt::zip")
        na = 1 if base(cfg) == "core" else 2
        ctx.floor("C09.ROW", cfg, 78 + na)
        ctx.floor("C09.EMIT", cfg, 3 * (12 + na) + 78 + na)
        ctx.floor("C09.END", cfg, 78 + na + 12 + na)
    return {}


def rule_row(ctx, M, u):
    bi = u.bi
    for c in u.cps:
        se = bi.outcome_edges(c.site, "Ready", "Some")
        if not se:
            ctx.fail("C09.ROW", u.where, "no Ready(Some) edge for %s" % c.label, site=c.where)
            continue
        header, exits = common.loop_exits(bi, c.block)
        avoid = common.arm_feasible_avoid(u, c)
        ws = [(b, slot, idx, v) for b, slot, idx, v, w in c02.slot_writes(bi) if bi.guarded_by(b, se)]
        probs = []
        if len(ws) != 1:
            probs.append("%d row-slot writes on its Some path (expected 1)" % len(ws))
        for b, slot, idx, v in ws:
            if not c02.slot_is_child(M, u, c, slot, idx, b):
                probs.append("item stored in a slot that is not the input's own position")
            if v is None or not flow.is_payload(v, c.block, "Ready", "Some"):
                probs.append("value stored is not the input's own item")
            r = bi.reach_from_edges(se, avoid_blocks=[b], stop_blocks=exits, avoid_edges=avoid)
            if any(x in r for x in exits):
                probs.append("item is not stored on every Some path")
        for b, slot, idx, v, w in c02.slot_writes(bi):
            if v is not None and flow.derives_from(v, c.block) and not c02.slot_is_child(M, u, c, slot, idx, b):
                probs.append("the input's item also flows to another slot")
        S = [b for b in c02.state_sets_for(M, u, c, ("Ready",)) if bi.guarded_by(b, se)]
        r = bi.reach_from_edges(se, avoid_blocks=S, stop_blocks=exits, avoid_edges=avoid)
        if not S or any(x in r for x in exits):
            probs.append("slot state is not set Ready on every Some path")
        if probs:
            for p in sorted(set(probs)):
                ctx.fail("C09.ROW", u.where, "%s: %s" % (c.label, p), site=c.where)
        else:
            ctx.ok("C09.ROW", u.where, "%s: item -> own row slot, state Ready" % c.label, sample={"write": bi.describe(ws[0][0])})


def all_ready_tests(M, u):
    return common.all_ready_tests(M, u.bi)


def rule_emit(ctx, M, u):
    bi = u.bi
    m = u.member
    tests = all_ready_tests(M, u)
    te = [e for t in tests for e in t[1]]
    bad_tests = [t for t in tests if not (t[3] and t[4])]
    ctx.check(bool(tests) and not bad_tests, "C09.EMIT", u.where, "all-ready test = self.state.iter().all(|s| s.is_ready())", site=u.body.span,
              sample={"tests": len(tests)})
    rets = flow.returns_of(bi, "Ready(Some)")
    swaps = flow.takes_of(bi, scan.self_field("output"))
    if not rets:
        ctx.fail("C09.EMIT", u.where, "no Ready(Some) return", site=u.body.span)
    for b, kind, payload, t in rets:
        probs = []
        if not te or not bi.guarded_by(b, te):
            probs.append("row returned without the all-slots-ready test")
        other = None
        if len(swaps) != 1:
            probs.append("row storage swapped out at %d sites (expected 1)" % len(swaps))
        else:
            sw = swaps[0]
            other = sw.taken
            if not bi.body.blocks_dominate([sw.block], b) or (te and not bi.guarded_by(sw.block, te)):
                probs.append("row storage is not swapped out on the full-row path before the return")
        if other is not None and payload is not None:
            if u.container == "tuple":
                names = output_field_order(M, m)
                good = payload[0] == "agg" and payload[1] == "tuple" and len(payload[2]) == u.arity and names is not None
                if good:
                    for k, comp in enumerate(payload[2]):
                        g = comp[0] == "call" and comp[1] == ("MaybeUninit", "assume_init") and comp[2] and comp[2][0][0] == "field" \
                            and comp[2][0][1] == other and names.get(str(comp[2][0][2])) == k
                        if not g:
                            probs.append("row position %d is not the slot of input %d" % (k, k))
                else:
                    probs.append("row is not a %d-tuple of the slots" % u.arity)
            else:
                good = payload[0] == "call" and payload[1][1] in ("array_assume_init", "vec_assume_init") and payload[2] and payload[2][0] == other
                if not good:
                    probs.append("row is not {array,vec}_assume_init(<storage swapped out of self.output>)")
        if probs:
            for p in sorted(set(probs)):
                ctx.fail("C09.EMIT", u.where, p, site=bi.describe(b))
        else:
            ctx.ok("C09.EMIT", u.where, "row returned only under all-ready; positional; swapped out once", sample={"return": bi.describe(b)})
    flow.rule_integrity(ctx, bi, "C09.EMIT", u.where, ("Ready(Some)",), "the row")
    # the test is evaluated after each Some, and an incomplete row continues the scan
    pend = set(common.pending_blocks(bi))
    fe_all = [e for t in tests for e in t[2]]
    for c in u.cps:
        se = bi.outcome_edges(c.site, "Ready", "Some")
        if not se:
            continue
        header, exits = common.loop_exits(bi, c.block)
        avoid = common.arm_feasible_avoid(u, c)
        tb = [t[0].block for t in tests]
        r = bi.reach_from_edges(se, avoid_blocks=tb, stop_blocks=exits, avoid_edges=avoid)
        probs = []
        if not tb or any(x in r for x in exits):
            probs.append("the all-ready test is not evaluated after the item is buffered")
        W = [b for b, slot, idx, v, w in c02.slot_writes(bi) if bi.guarded_by(b, se)]
        S = [b for b in c02.state_sets_for(M, u, c, ("Ready",)) if bi.guarded_by(b, se)]
        for name, blocks in (("the item is stored", W), ("the slot is marked Ready", S)):
            r = bi.reach_from_edges(se, avoid_blocks=blocks, stop_blocks=exits, avoid_edges=avoid)
            if any(x in r for x in tb):
                probs.append("the all-ready test can be evaluated before %s" % name)
        r = bi.reach_from_edges(se, stop_blocks=[header] if header is not None else [], avoid_edges=list(avoid) + te)
        r_in = {x for x in r if x != header}
        if header is None or header not in r or (r_in & pend) or any(x in r_in for x in bi.return_blocks):
            probs.append("incomplete row does not continue the scan")
        ctx.check(not probs, "C09.EMIT", u.where, "%s: all-ready evaluated after its item; incomplete row => scan continues" % c.label,
                  site=c.where, path=probs)
    # reset + re-arm on the full-row path (shared rule functions)
    resets = [b for b, v, w in scan.state_set_all(bi) if v == "Pending"]
    okr = bool(resets) and bool(te)
    if okr:
        okr, bad = bi.must_reach([t for _, t in te], resets, bi.return_blocks)
    ctx.check(okr, "C09.EMIT", u.where, "all slot states return to Pending on the full-row path", site=u.body.span)
    with ctx.renamed({"C01.REARM": "C09.EMIT"}):
        c01.rule_rearm(ctx, u)


def output_field_order(M, m):
    idx, ty = adt_field(M, m.adt, "output")
    if ty is None:
        return None
    F = M.F
    t = F.types[ty]
    while t["k"] == "ref":
        t = F.types[t["ty"]]
    if t["k"] != "adt":
        return None
    a = F.adts_c.get(t["cpath"])
    if a is None or len(a["variants"]) != 1:
        return None
    return {f["name"]: i for i, f in enumerate(a["variants"][0]["fields"])}


def rule_end(ctx, M, u):
    bi = u.bi
    all_cps = {c.block for c in u.cps}
    rets = flow.returns_of(bi, "Ready(None)")
    done_w = [b for b, pt, v, sp in scan.field_writes(bi) if pt == scan.self_field("done") and v == ("const", 1)]
    swaps = flow.all_take_blocks(bi)
    all_ne = []
    for c in u.cps:
        ne = bi.outcome_edges(c.site, "Ready", "None")
        all_ne += ne
        if not ne:
            ctx.fail("C09.END", u.where, "no Ready(None) edge for %s" % c.label, site=c.where)
            continue
        header, exits = common.loop_exits(bi, c.block)
        avoid = common.arm_feasible_avoid(u, c)
        probs = []
        goal = [r[0] for r in rets]
        r1 = bi.reach_from_edges(ne, avoid_blocks=goal, stop_blocks=exits, avoid_edges=avoid)
        if not goal or any(x in r1 for x in exits):
            probs.append("a path from its None edge does not return Ready(None) in the same call")
        r2 = bi.reach_from_edges(ne, avoid_edges=avoid)
        if header is not None and header in r2:
            probs.append("the scan continues after an input ended")
        if all_cps & r2:
            probs.append("an input is polled after one ended")
        if any(x in r2 for x in swaps):
            probs.append("the row is taken on the None path")
        ok, bad = bi.must_reach([t for _, t in ne], done_w, bi.return_blocks)
        if not done_w or not ok:
            probs.append("`done` is not set on every such path")
        pend = [x for x in common.pending_blocks(bi) if x in r2]
        somes = [r[0] for r in flow.returns_of(bi, "Ready(Some)") if r[0] in r2]
        if pend or somes:
            probs.append("a path from its None edge returns something other than Ready(None)")
        if probs:
            for p in sorted(set(probs)):
                ctx.fail("C09.END", u.where, "%s: %s" % (c.label, p), site=c.where)
        else:
            ctx.ok("C09.END", u.where, "%s: None => done, Ready(None) at once, nothing polled or taken" % c.label)
    loose = [r for r in rets if not bi.guarded_by(r[0], all_ne)]
    ctx.check(bool(rets) and not loose, "C09.END", u.where, "Ready(None) is returned only when an input returned None in this call",
              site=u.body.span, path=common.fmt_blocks(bi, [r[0] for r in loose]))
