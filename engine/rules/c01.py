"""C01 — no lost wake-ups: conformance of every poll body and of the waker implementation to the
wake protocol (register / route / forward / lock order / token / re-arm / hand-out)."""
from ..facts import base
from .. import scan, families
from ..families import short
from ..sites import is_agg
from ..terms import simple_name, term_str
from . import common
from . import prims

PROPERTY = "C01"
LEVEL = "other"
CONFIGS_QUICK = ["std", "alloc", "std-rel"]
CONFIGS_THOROUGH = ["std", "alloc", "core", "std-rel", "alloc-rel", "core-rel"]
EXPLANATION = (
    "Static conformance check of the wake protocol on the type-checked MIR of every poll body (all tuple arities, "
    "array, Vec, groups) and of the Wake impls, in each feature configuration: the task waker is registered before any "
    "child is polled or Pending is returned; every child is polled with the caller's context (pass-through families) or "
    "with the sub-waker of its own index; Wake::wake sets the child's bit and forwards to the registered parent waker iff "
    "the bit was clear; no readiness lock is held across a child poll; a cleared bit is always followed by a poll of that "
    "child (or a proof that it is finished); children that can produce again are re-armed. Decides protocol clauses, not "
    "the liveness statement itself (that follows by the invariant argument in DESIGN.md §3/C01).")
EXPLANATION += (' (SCAN) Pending is returned only after the scan covered every child and a Pending child continues the scan; (LOCK) additionally no child or child-produced value is dropped while the readiness guard is held (a destructor that wakes a sibling would dead-lock on the non-reentrant lock).')
ASSUMPTIONS = [
    "rustc MIR construction and callee resolution (nightly) are faithful to the stable build",
    "std::sync::Mutex is non-reentrant and provides mutual exclusion; Waker::wake_by_ref/clone_from behave per std docs",
    "children honour the Waker contract; executor fairness is out of scope",
]

RULES = {
    "C01.SCAN": "Pending is returned only after the scan covered every child (whole rotation / range / container / key set) and a Pending child continues the scan: no recorded wake-up is left behind unpolled",
    "C01.DONE": "after a child's result the family's completion test (counter == 0 / == len, all slots ready, all inputs ended) is evaluated before Pending can be returned",
    "C01.REG": "every child poll and every Poll::Pending value in a sub-waker poll body is dominated by set_waker(cx.waker()) with cx the caller's context",
    "C01.ROUTE": "each child-poll site passes the caller's cx (race, race_ok, chain, wait_until, adapter futures) or Context::from_waker(wakers.get(i)) with i the polled child's own index",
    "C01.FWD": "Wake::wake of the inline wakers: lock, set_ready(self.id); on the 'was clear' edge every path calls wake/wake_by_ref on parent_waker() of the same readiness before returning",
    "C01.NOSTD": "no_std strategy: set_ready=>false, clear_ready=>true, any_ready=>true, WakerArray/WakerVec::get returns the registered parent waker",
    "C01.BITS": "bit-table primitives (new/set_ready/clear_ready/any_ready/set_all_ready/resize) match their expected transfer tables",
    "C01.LOCK": "no MutexGuard over the readiness table may be initialised at a child-poll site (std)",
    "C01.TOKEN": "from the 'bit was set' edge of clear_ready(i), every path to the end of the iteration polls child i or passes the family's 'child i is finished/buffered' state test",
    "C01.REARM": "merge/StreamGroup: after Ready(Some) the same child's bit is set again before returning; zip: set_all_ready on the full-row path; group insert arms the inserted key",
    "C01.HANDOUT": "sub-wakers (WakerArray/WakerVec::get) are obtained only inside poll bodies and flow only into Context::from_waker of a child poll",
    "C01.SETWAKER": "set_waker stores a clone of its argument as parent_waker on every path",
}


def run(ctx):
    for rid, text in RULES.items():
        ctx.rule(rid, text)
    for cfg in ctx.configs:
        ctx.current_config = cfg
        M = ctx.model(cfg)
        std = base(cfg) == "std"
        units = families.subwaker_units(M)
        pts = families.passthrough_units(M)
        aux = families.aux_poll_bodies(M)
        ctx.require(len(units) >= (52 if base(cfg) == "core" else 58), "sub-waker poll bodies (%d found in %s)" % (len(units), cfg))
        for u in units:
            rule_reg(ctx, u)
            rule_route_sub(ctx, u)
            if std:
                rule_lock(ctx, u)
            rule_token(ctx, u)
            rule_rearm(ctx, u)
        for u in pts + aux:
            rule_route_pass(ctx, u)
        for u in units:
            rule_done(ctx, M, u)
        from . import flow as _flow
        for u in units + pts:
            rule_scan(ctx, M, u)
            _flow.rule_final_values(ctx, u.bi, "C01.DONE", u.where)
        if base(cfg) != "core":
            # the groups scan their key set: a live member whose key is lost (a stale entry of the removal queue, a key
            # not inserted / wrongly removed) is never polled again although its wake-ups are forwarded
            from . import c11, c12, grouplike
            with ctx.renamed({"C11.*": "C01.SCAN", "C12.*": "C01.SCAN"}):
                for gname in ("future_group", "stream_group"):
                    grouplike.rule_insert(ctx, M, gname, "C01.SCAN")
                    grouplike.rule_remove(ctx, M, gname, "C01.SCAN")
                    grouplike.rule_extend(ctx, M, gname, "C01.SCAN")
                gu = grouplike.group_unit(M, "future_group")
                if gu is not None:
                    c11.rule_done(ctx, M, gu)
                gu = grouplike.group_unit(M, "stream_group")
                if gu is not None:
                    c12.rule_endm(ctx, M, gu)
                    c12.rule_drain(ctx, M, gu)
                    c12.rule_item(ctx, M, gu)
        rule_insert_arm(ctx, M)
        rule_handout(ctx, M, units)
        rule_parent_kept(ctx, M)
        if std:
            from . import c16
            with ctx.renamed({"C16.*": "C01.ROUTE"}):
                c16.rule_ownwaker(ctx, M)
        if std:
            rule_fwd(ctx, M)
            prims.check_bits(ctx, M, "C01.BITS")
        else:
            prims.check_nostd(ctx, M, "C01.NOSTD")
        prims.check_set_waker(ctx, M, "C01.SETWAKER")
        # floors (counted on the pinned tree)
        n_tuple = 4 * 78
        n_arr = 4 if base(cfg) == "core" else 8
        n_grp = 0 if base(cfg) == "core" else 2
        ctx.floor("C01.REG", cfg, len(units))
        ctx.floor("C01.ROUTE", cfg, n_tuple + n_arr + n_grp + 3 * 78)
        ctx.floor("C01.TOKEN", cfg, 4 * 12 + n_arr + n_grp)
        ctx.floor("C01.SCAN", cfg, 552 if base(cfg) == "core" else 560)
        ctx.floor("C01.REARM", cfg, 78 + (1 if base(cfg) == "core" else 2) + 12 + (1 if base(cfg) == "core" else 2))
        if std:
            ctx.floor("C01.LOCK", cfg, n_tuple + n_arr + n_grp)
            ctx.floor("C01.FWD", cfg, 2)
    return {}


# ------------------------------------------------------------------------------------------------

def rule_reg(ctx, u):
    bi = u.bi
    p = common.cx_param(bi)
    regs = []
    for s in scan.register_sites(bi):
        a = s.arg(1)
        if a is not None and a[0] == "call" and a[1] == ("Context", "waker") and a[2] and a[2][0] == ("param", p):
            regs.append(s)
    if not scan.register_sites(bi):
        ctx.fail("C01.REG", u.where, "no set_waker call in sub-waker poll body", site=u.body.span)
        return
    reg_blocks = [s.block for s in regs]
    targets = [(c.block, "child poll %s" % c.label, c.where) for c in u.cps]
    targets += [(b, "Poll::Pending value", bi.describe(b)) for b in common.pending_blocks(bi)]
    bad = [(b, what, where) for b, what, where in targets if not bi.body.blocks_dominate(reg_blocks, b)]
    if bad:
        for b, what, where in bad:
            ctx.fail("C01.REG", u.where, "%s not dominated by set_waker(cx.waker())" % what, site=where)
    else:
        ctx.ok("C01.REG", u.where, "set_waker(cx.waker()) dominates %d child polls and %d Pending values" % (
            len(u.cps), len(targets) - len(u.cps)),
            sample={"register_sites": [s.where for s in regs], "targets": len(targets)})


def rule_route_sub(ctx, u):
    bi = u.bi
    for c in u.cps:
        si = common.subwaker_index(c.ctx)
        if si is None:
            what = "the caller's cx" if common.is_caller_cx(bi, c.ctx) else short(c.ctx)
            ctx.fail("C01.ROUTE", u.where, "%s polled with %s instead of its own sub-waker" % (c.label, what), site=c.where)
            continue
        _, idx = si
        if common.same_index(u, c, idx):
            ctx.ok("C01.ROUTE", u.where, "%s polled with sub-waker of its own index" % c.label,
                   sample={"ctx": short(c.ctx), "site": c.where})
        else:
            ctx.fail("C01.ROUTE", u.where, "%s polled with sub-waker of a different index (%s)" % (c.label, short(idx)), site=c.where)


def rule_route_pass(ctx, u):
    bi = u.bi
    for c in u.cps:
        if common.is_caller_cx(bi, c.ctx):
            ctx.ok("C01.ROUTE", u.where, "%s (bb%d) polled with the caller's context" % (c.label, 0) if False else
                   "%s polled with the caller's context [%s]" % (c.label, c.param), sample={"site": c.where})
        else:
            ctx.fail("C01.ROUTE", u.where, "%s [%s] polled with %s instead of the caller's context" % (c.label, c.param, short(c.ctx)), site=c.where)


def _only_call_defs(body, l):
    n = 0
    for b in sorted(body.reachable):
        if body.is_cleanup(b):
            continue
        for s in body.stmts(b):
            if s["k"] == "assign" and s["lhs"]["l"] == l and not s["lhs"]["p"]:
                return False
        t = body.term(b)
        if t["k"] == "call" and t["dest"]["l"] == l and not t["dest"]["p"]:
            n += 1
    return n > 0


def rule_lock(ctx, u):
    body = u.body
    tracked = scan.guard_locals(body)
    IN, OUT = scan.maybe_init(body, tracked)
    for c in u.cps:
        live = OUT[c.block][0] if c.block in OUT else set()
        if live:
            names = ", ".join("_%d(%s)" % (l, body.locals[l].get("name") or "tmp") for l in sorted(live))
            ctx.fail("C01.LOCK", u.where, "readiness guard may be held across the poll of %s" % c.label, site=c.where,
                     path=[names])
        else:
            ctx.ok("C01.LOCK", u.where, "no readiness guard live at poll of %s" % c.label,
                   sample={"tracked_guard_locals": sorted(tracked), "site": c.where})
    # a child (or a value it produced) dropped under the readiness lock deadlocks as soon as its destructor wakes a
    # sibling: sub-wakers take the same non-reentrant lock
    if not tracked:
        return
    pts = scan.user_drop_points(u.bi)
    bad = []
    anon = [b for b, _, l in pts if l is None]
    for b, what, l in pts:
        if l is None:
            live = OUT[b][0] if b in OUT else set()
        else:
            # a Poll / Option wrapped state variable (`ret`) that is assigned constants as well as results is only
            # known to hold a user value through a counting argument the rules of the family make (an overwritten
            # `Ready(Some(..))` is a lost item there); this rule looks at values that certainly came from a child
            leaves = scan.user_leaves(body.facts, body.locals[l]["ty"])
            tk = body.facts.types[body.locals[l]["ty"]]
            wrapper = tk["k"] == "adt" and scan.simple_name(tk.get("cpath")) in ("Poll", "Option", "Result", "ControlFlow")
            if wrapper and not _only_call_defs(body, l):
                continue
            # path-correlated: is there a path on which the value is still initialised *and* a guard is held?
            single = leaves == 1
            ke = scan.payload_free_edges(body, l) if single else ()
            states = scan.joint_init_at(body, tracked, l, single, [b], kill_edges=ke)[b]
            live = set()
            for st in states:
                if l in st:
                    live |= (st & set(tracked))
        if live:
            bad.append("%s (%s) with guard %s held" % (what, u.bi.describe(b), ", ".join("_%d" % g for g in sorted(live))))
    ctx.check(not bad, "C01.LOCK", u.where, "no child or child-produced value is dropped while the readiness guard is held", site=body.span, path=bad[:4],
              sample={"drop_points": len(pts)})


SKIP_TESTS = {
    # family -> list of (PollState predicate, edge value) meaning "child needs no poll"
    "join": [("is_ready", True), ("is_pending", False), ("is_none", True)],
    "try_join": [("is_ready", True), ("is_pending", False), ("is_none", True)],
    "merge": [("is_none", True), ("is_pending", False)],
    "zip": [("is_ready", True), ("is_pending", False)],
    "future_group": [("is_pending", False), ("is_none", True), ("is_ready", True)],
    "stream_group": [("is_pending", False), ("is_none", True), ("is_ready", True)],
}


def skip_edges(u, idx):
    bi = u.bi
    out = []
    for pred, val in SKIP_TESTS.get(u.family, []):
        for s, i, base in scan.state_tests(bi, pred):
            if i == idx:
                out.extend(bi.outcome_edges(s, val))
    return out


def rule_token(ctx, u):
    bi = u.bi
    # bits are consumed one at a time, each immediately before polling that child: a bulk clear
    # erases wake-ups that arrived during the pass
    for s in bi.sites:
        if s.callee.owner in scan.READY and s.callee.name in ("clear_all_ready", "clear_all", "reset"):
            ctx.fail("C01.TOKEN", u.where, "readiness bits are cleared in bulk (%s): a wake-up recorded during the pass is erased" % s.callee.name, site=s.where)
    sites = scan.disarm_sites(bi)
    if not sites:
        ctx.fail("C01.TOKEN", u.where, "no clear_ready site in sub-waker poll body", site=u.body.span)
        return
    for d in sites:
        idx = d.arg(1)
        te = bi.outcome_edges(d, True)
        if not te:
            ctx.fail("C01.TOKEN", u.where, "result of clear_ready(%s) is not tested" % short(idx), site=d.where)
            continue
        header, exits = common.loop_exits(bi, d.block)
        skips = skip_edges(u, idx)
        if u.container == "tuple":
            arms = u.arms(idx)
            ks = arms.constants
            bad = []
            for k in ks:
                cps_blocks = [c.block for c in u.cps if c.arm == k and c.loop_idx == idx]
                r = bi.reach_from_edges(te, avoid_blocks=cps_blocks, stop_blocks=exits,
                                        avoid_edges=skips + arms.infeasible_for(k))
                hit = [b for b in exits if b in r]
                if hit:
                    bad.append((k, hit))
            if not ks:
                bad.append((None, exits))
            if bad:
                for k, hit in bad:
                    ctx.fail("C01.TOKEN", u.where, "bit of child#%s cleared but a path reaches the end of the iteration without polling it" % k,
                             site=d.where, path=common.fmt_blocks(bi, hit))
            else:
                ctx.ok("C01.TOKEN", u.where, "clear_ready(index)=>true always followed by the poll of the indexed child (%d arms)" % len(ks),
                       sample={"site": d.where, "arms": ks})
        else:
            cps_blocks = [c.block for c in u.cps if c.idx == idx]
            r = bi.reach_from_edges(te, avoid_blocks=cps_blocks, stop_blocks=exits, avoid_edges=skips)
            hit = [b for b in exits if b in r]
            if hit or not cps_blocks:
                ctx.fail("C01.TOKEN", u.where, "bit of child[%s] cleared but a path reaches the end of the iteration without polling it" % short(idx),
                         site=d.where, path=common.fmt_blocks(bi, hit))
            else:
                ctx.ok("C01.TOKEN", u.where, "clear_ready(i)=>true always followed by the poll of child i", sample={"site": d.where})


def rule_rearm(ctx, u):
    bi = u.bi
    if u.family in ("merge", "stream_group"):
        for c in u.cps:
            edges = bi.outcome_edges(c.site, "Ready", "Some")
            if not edges:
                ctx.fail("C01.REARM", u.where, "no Ready(Some) edge found for %s" % c.label, site=c.where)
                continue
            arms = [s for s in scan.arm_sites(bi) if common.same_index(u, c, s.arg(1), s.block)]
            ok, bad = bi.must_reach([b for _, b in edges], [s.block for s in arms], bi.return_blocks + ([c.loop[0]] if c.loop else []))
            ctx.check(ok and bool(arms), "C01.REARM", u.where, "%s re-armed after yielding an item" % c.label, site=c.where,
                      path=common.fmt_blocks(bi, bad), sample={"arm_sites": [s.where for s in arms]})
    elif u.family == "zip":
        # the all_ready test: Iterator::all over the state table
        tests = [t for t in common.all_ready_tests(u.model, bi) if t[3] and t[4]]
        armall = scan.arm_all_sites(bi)
        if not tests:
            ctx.fail("C01.REARM", u.where, "no all-ready test found in zip poll body", site=u.body.span)
            return
        n_ok = 0
        for s, te, fe_, full_, pred_ in tests:
            if not te:
                continue
            ok, bad = bi.must_reach([b for _, b in te], [a.block for a in armall], bi.return_blocks)
            n_ok += 1
            ctx.check(ok and bool(armall), "C01.REARM", u.where, "set_all_ready on the full-row path", site=s.where,
                      path=common.fmt_blocks(bi, bad), sample={"arm_all_sites": [a.where for a in armall]})
        if n_ok == 0:
            ctx.fail("C01.REARM", u.where, "all-ready test result is never branched on", site=u.body.span)


def rule_insert_arm(ctx, M):
    for name, g in M.groups.items():
        b = g.get("insert")
        if b is None:
            continue
        bi = M.info(b)
        ins = [s for s in bi.sites if s.callee.owner == "Slab" and s.callee.name == "insert"]
        if not ins:
            ctx.fail("C01.REARM", b.def_, "no Slab::insert in group insert", site=b.span)
            continue
        k = ins[0].term
        arms = [s for s in scan.arm_sites(bi) if s.arg(1) == k]
        ok, bad = bi.must_reach([ins[0].target], [s.block for s in arms], bi.return_blocks)
        ctx.check(ok and bool(arms), "C01.REARM", b.def_, "insert arms the bit of the inserted key", site=ins[0].where,
                  path=common.fmt_blocks(bi, bad), sample={"arm": [s.where for s in arms]})


def rule_handout(ctx, M, units):
    allowed = {u.body.def_ for u in units}
    n = 0
    for b in M.F.bodies:
        if b.n > 4000:
            continue
        has = False
        for blk, t in b.calls():
            f = t["func"]
            if "indirect" in f:
                continue
            if f["name"] == "get" and f.get("impl_self") is not None:
                ty = M.F.types[f["impl_self"]]
                if ty["k"] == "adt" and simple_name(ty["cpath"]) in scan.WAKERS and blk in b.reachable:
                    has = True
                    n += 1
                    if b.def_ not in allowed:
                        ctx.fail("C01.HANDOUT", b.def_, "sub-waker obtained outside a poll body", site=t["sp"])
        if has and b.def_ in allowed:
            bi = M.info(b)
            for s in scan.subwaker_sites(bi):
                # every use of the result must be the from_waker of a child poll's context
                used_ok = any(common.subwaker_index(c.arg(1)) is not None and common.subwaker_index(c.arg(1))[1] == s.arg(1)
                              for c in bi.child_polls())
                ctx.check(used_ok, "C01.HANDOUT", b.def_, "sub-waker flows into the context of a child poll", site=s.where)
    ctx.require(n > 0, "WakerArray/WakerVec::get sites")


def rule_fwd(ctx, M):
    wakes = [b for b in M.F.bodies if b.name == "wake" and b.kind == "AssocFn" and b.j.get("impl_trait_c") == "alloc::task::Wake"]
    ctx.require(len(wakes) >= 2, "Wake::wake impls of the inline wakers")
    for b in wakes:
        bi = M.info(b)
        locks = [s for s in bi.sites if s.callee.owner == "Mutex" and s.callee.name == "lock"]
        arms = scan.arm_sites(bi)
        if not locks or not arms:
            ctx.fail("C01.FWD", b.def_, "wake does not lock the readiness table and set the child's bit", site=b.span)
            continue
        a = arms[0]
        idt = a.arg(1)
        id_ok = idt is not None and idt[0] == "field" and idt[2] == "id" and idt[1] == ("param", 1)
        ctx.check(id_ok, "C01.FWD", b.def_, "set_ready index is self.id", site=a.where, sample={"index": short(idt) if idt else None})
        fe = bi.outcome_edges(a, False)
        if not fe:
            ctx.fail("C01.FWD", b.def_, "result of set_ready is not branched on", site=a.where)
            continue
        fw = []
        for s in bi.sites:
            if s.callee.owner == "Waker" and s.callee.name in ("wake_by_ref", "wake"):
                r = s.arg(0)
                # receiver: unwrap/expect of parent_waker(guard)
                if r[0] == "field" and r[1][0] == "variant" and r[1][2] == "Some":
                    inner = r[1][1]
                    if inner[0] == "call" and inner[1][1] == "parent_waker" and inner[1][0] in scan.READY and inner[2][0] == a.arg(0):
                        fw.append(s)
        ok, bad = bi.must_reach([t for _, t in fe], [s.block for s in fw], bi.return_blocks)
        ctx.check(ok and bool(fw), "C01.FWD", b.def_, "bit was clear => parent waker of the same readiness is woken before return",
                  site=a.where, path=common.fmt_blocks(bi, bad), sample={"forward_sites": [s.where for s in fw]})
        # calls made while the guard is live must not run foreign code other than the forward itself
        guard_drop = lambda s: s.callee.key == ("core::mem::drop", "drop") and s.args and s.arg(0) == a.arg(0)
        foreign = [s for s in bi.sites if s.callee.key not in (("Mutex", "lock"), ("Result", "unwrap"), ("Option", "expect"), ("Option", "unwrap"))
                   and not guard_drop(s)
                   and s.callee.owner not in scan.READY and s.callee.owner not in ("MutexGuard", "Waker", "Arc")
                   and s.callee.name not in ("deref", "deref_mut")]
        ctx.check(not foreign, "C01.FWD", b.def_, "no foreign call while the readiness guard is held in wake",
                  site=foreign[0].where if foreign else None, sample={"calls": [str(s.key) for s in bi.sites]})


def live_premises(ctx, M, units, rule_id, with_globals=True):
    """The wake-protocol clauses a sub-waker (or pass-through) combinator's own result property rests
    on, evaluated for `units` and recorded under `rule_id` (a dependent property re-checks its
    premises itself instead of only citing C01)."""
    std = M.config == "std"
    with ctx.renamed({"C01.*": rule_id}):
        if not rule_id.startswith("C20."):
            for u in units:
                rule_scan(ctx, M, u)
        from . import flow as _flow
        for u in units:
            _flow.rule_final_values(ctx, u.bi, "C01.DONE", u.where)
        for u in units:
            if u.family in PASS_FAMILIES:
                rule_route_pass(ctx, u)
                continue
            rule_reg(ctx, u)
            rule_route_sub(ctx, u)
            if std:
                rule_lock(ctx, u)
            rule_token(ctx, u)
            rule_rearm(ctx, u)
        if with_globals:
            if any(u.container == "group" for u in units):
                rule_insert_arm(ctx, M)
            if any(u.family not in PASS_FAMILIES for u in units):
                if std:
                    rule_fwd(ctx, M)
                    prims.check_bits(ctx, M, "C01.BITS")
                    from . import c16
                    with ctx.renamed({"C16.*": rule_id}):
                        c16.rule_ownwaker(ctx, M)      # sub-waker i carries id i
                else:
                    prims.check_nostd(ctx, M, "C01.NOSTD")
                prims.check_set_waker(ctx, M, "C01.SETWAKER")


PASS_FAMILIES = ("race", "race_ok", "chain")


def rule_scan(ctx, M, u):
    """C01.SCAN - Pending may only be returned after the scan looked at every child: a child whose wake-up is recorded
    but which lies outside a truncated scan (`iter().take(k)`, `skip`, a shorter range) keeps its bit, nobody is woken
    again, and the combinator sleeps on a ready child.  Delegates to the coverage / continuation rules of C20."""
    if u.family == "chain":
        return
    from . import c20
    with ctx.renamed({"C20.COVER": "C01.SCAN", "C20.CONT": "C01.SCAN"}):
        c20.rule_cover(ctx, M, u)
        c20.rule_cont(ctx, M, u)
        c20.rule_no_bailout(ctx, M, u)


def rule_done(ctx, M, u):
    """C01.DONE - a combinator whose last missing piece just arrived must not return Pending (nobody
    would wake it again): after a child's result, the family's completion test is evaluated before
    Pending can be returned.  Delegates to the result-shape rules of the family."""
    from . import joinlike, c07, c08, c09
    if u.family in ("join", "try_join"):
        with ctx.renamed({"X.CNT": "C01.DONE"}):
            joinlike.rule_cnt(ctx, M, u, "X.CNT")
    elif u.family == "merge":
        with ctx.renamed({"C08.END": "C01.DONE"}):
            c08.rule_end(ctx, M, u)
    elif u.family == "zip":
        with ctx.renamed({"C09.EMIT": "C01.DONE", "C01.REARM": "C01.REARM"}):
            c09.rule_emit(ctx, M, u)


def rule_parent_kept(ctx, M):
    """Once registered, the parent waker stays registered: `parent_waker` is written only by `new`
    (None) and `set_waker` (Some(..) / clone_from) and is never taken, replaced or cleared elsewhere
    - otherwise a stale or late invocation of a sub-waker hits `expect("parent_waker ...")`."""
    n = 0
    bad = 0
    for b in M.F.bodies:
        if b.kind in ("Const", "AnonConst"):
            continue
        bi = M.info(b)
        owner_ok = b.name in ("new", "set_waker") and b.impl_self is not None and (M.adt_of_type(b.impl_self) or "").rsplit("::", 1)[-1] in scan.READY
        for blk, pt, v, sp in scan.field_writes(bi):
            path = []
            t = pt
            while t[0] in ("field", "index", "variant"):
                path.append(t[2])
                t = t[1]
            if "parent_waker" in path:
                n += 1
                is_some = v[0] == "agg" and v[1] == ("Option", "Some")
                if not owner_ok or (b.name == "set_waker" and not is_some):
                    bad += 1
                    ctx.fail("C01.FWD", b.def_, "the registered parent waker is overwritten / cleared outside new / set_waker(Some(..))", site=sp)
        for s in bi.sites:
            if s.key in (("Option", "take"), ("core::mem::take", "take"), ("core::mem::replace", "replace"), ("core::mem::swap", "swap"), ("Option", "replace"),
                         ("Option", "insert"), ("Option", "get_or_insert_with")):
                for a in (s.arg(0), s.arg(1)):
                    if a is not None and a[0] == "field" and a[2] == "parent_waker":
                        n += 1
                        bad += 1
                        ctx.fail("C01.FWD", b.def_, "the registered parent waker is taken out of the readiness table (%s::%s)" % s.key, site=s.where)
    ctx.ok("C01.FWD", "<crate>", "parent_waker is written only by new / set_waker and never taken (%d write sites, %d offending)" % (n, bad))
