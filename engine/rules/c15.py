"""C15 — co-stream adapters: collect = multiset, enumerate = source index, take = exact count."""
from .. import scan, families
from ..families import short
from ..mir import op_place
from ..sites import peel_type
from ..terms import subterms, simple_name
from . import flow, common, costream, c13, c14
from .costream import cfield, cupvar

PROPERTY = "C15"
LEVEL = "other"
CONFIGS_QUICK = ["std", "std-rel"]
CONFIGS_THOROUGH = ["std", "alloc", "std-rel", "alloc-rel"]
EXPLANATION = (
    "Structural causes of the value-level statement, on the MIR of the adapter consumers, futures and drive bodies: (ENUM) "
    "EnumerateConsumer::send reads `count` before its single `count + 1` write and hands that earlier value to EnumerateFuture::new "
    "together with the given item future; EnumerateFuture stores it (constructor only) and resolves to (count, <the item future's "
    "output>) - the index is attached at send time, not at completion; (TAKE) TakeConsumer::send returns Break without forwarding "
    "when count >= limit already holds (so take(0) forwards nothing), otherwise count + 1 exactly once before the single "
    "inner.send(<the given future>), after which it returns Break if count >= limit and the inner result otherwise; the consumer "
    "starts at count 0 with limit = Take's own field, which only Take::new ever sets; (COLLECT) VecConsumer::send pushes the given "
    "future into the group exactly once; in progress and flush every Some(x) from group.next().await is pushed onto the output with no "
    "suspension point in between (cancel-safe), the loops end only on None; Vec::from_concurrent_stream drives with a consumer "
    "borrowing the Vec it returns; (MAP) MapConsumer::send forwards MapFuture::new(f.clone(), <the given future>); MapFuture calls the "
    "closure exactly once, with the item, and resolves to the closure future's own output; (STACK) every adapter's drive wraps the "
    "given consumer exactly once and returns inner.drive(wrapped).await; adapter structs are built only by their `new` and never "
    "mutated; collect = B::from_concurrent_stream(self). Multiset equality itself is a value-level fact that is argued, not computed.")
EXPLANATION += (" (STACK) adapter constructors store their operands unchanged and the provided methods limit / take / enumerate / map build the adapter from exactly (self, argument).")
ASSUMPTIONS = [
    "futures_buffered::FuturesUnordered yields each pushed future's output exactly once (library model)",
    "the source-side exactly-once delivery of items to send() is C13.DRIVE",
]
RULES = {
    "C15.ENUM": "index read before the single increment and attached at send; EnumerateFuture returns (stored index, item)",
    "C15.TAKE": "no forward when count >= limit; else count+1 once, one inner.send of the given future; Break iff count >= limit afterwards; count starts 0, limit from Take::new only",
    "C15.COLLECT": "VecConsumer: one push per send; every completed output pushed to the Vec with no suspension in between; loops end only on None; the lent Vec is returned",
    "C15.MAP": "MapFuture: closure once on the item, result = closure future's output; MapConsumer forwards MapFuture::new(f.clone(), future)",
    "C15.STACK": "adapter drive wraps the given consumer once and delegates; adapter structs built only by new, never mutated; collect delegates",
}


def run(ctx):
    for rid, text in RULES.items():
        ctx.rule(rid, text)
    for cfg in ctx.configs:
        ctx.current_config = cfg
        M = ctx.model(cfg)
        rule_enum(ctx, M)
        rule_take(ctx, M)
        rule_collect(ctx, M)
        from . import common as _common
        _common.rule_no_shadow(ctx, M, {"enumerate", "limit", "take", "map", "for_each", "try_for_each", "collect", "drive", "concurrency_limit", "co", "into_co_stream"}, "C15.STACK", "ConcurrentStream", receivers=_common.CS_TRAITS)
        c13.rule_group_container(ctx, M, "C15.COLLECT", ("VecConsumer", "ResultVecConsumer"))
        rule_prealloc(ctx, M, "C15.COLLECT")
        with ctx.renamed({"C14.RESVEC": "C15.COLLECT"}):
            c14.rule_resvec(ctx, M)
        rule_map(ctx, M)
        # "processes exactly the first min(n, len) items" is about whatever terminal operation sits under the
        # adapters: the for_each consumer must forward, count, call and drain like the collecting one (premises of C13
        # re-checked here)
        with ctx.renamed({"C13.*": "C15.TAKE"}):
            c13.rule_bp(ctx, M, "ForEachConsumer", "ForEachFut", "C13.BP")
            c13.rule_dec_call(ctx, M, "ForEachFut", "C13.DEC", "C13.CALL")
            c13.rule_flush(ctx, M, "ForEachConsumer", "C13.FLUSH")
            c13.rule_drive(ctx, M, "C13.DRIVE")
        rule_stack(ctx, M)
        with ctx.renamed({"X.WRAP": "C15.STACK"}):
            c14.rule_wrap(ctx, M, "X.WRAP")
        ctx.floor("C15.ENUM", cfg, 3)
        ctx.floor("C15.TAKE", cfg, 3)
        ctx.floor("C15.COLLECT", cfg, 4)
        ctx.floor("C15.MAP", cfg, 3)
        ctx.floor("C15.STACK", cfg, 4 + 12 + 2)
    return {}


# ------------------------------------------------------------------------------------------------

def stmt_pos_of_write(bi, field_term):
    """(block, stmt index) of every assignment to the place `field_term`"""
    out = []
    body = bi.body
    for b in sorted(body.reachable):
        if body.is_cleanup(b):
            continue
        for i, st in enumerate(body.stmts(b)):
            if st["k"] == "assign" and st["lhs"]["p"] and bi.T.of_place(st["lhs"]) == field_term:
                out.append((b, i))
    return out


def count_operand(M, bi, fut):
    """the MIR operand that supplies the `count` field of the EnumerateFuture built at term `fut`"""
    if fut[0] == "call":
        site = bi.by_block.get(fut[3])
        inner = flow.struct_view(M, ("call", fut[1], tuple(("param", k + 1) for k in range(len(fut[2]))), 0), "EnumerateFuture")
        if site is None or inner is None or inner.get("count", ("x",))[0] != "param":
            return None
        k = inner["count"][1]
        return site.t["args"][k - 1] if k - 1 < len(site.t["args"]) else None
    if fut[0] == "agg":
        for bb in sorted(bi.body.reachable):
            for st in bi.body.stmts(bb):
                if st["k"] == "assign" and st["rv"]["k"] == "agg" and st["rv"].get("ak") == "adt" and (st["rv"].get("cpath") or "").endswith("::EnumerateFuture"):
                    names = st["rv"].get("fnames") or []
                    if "count" in names:
                        return st["rv"]["fields"][names.index("count")]
    return None


def operand_read_pos(bi, site, argi, field_term):
    return operand_read_pos_op(bi, site.t["args"][argi], field_term)


def operand_read_pos_op(bi, op, field_term):
    """the operand is a local whose single definition copies `field_term`: (block, idx) of that copy"""
    p = op_place(op)
    if p is None or p["p"]:
        return None
    seen = set()
    l = p["l"]
    while l not in seen:
        seen.add(l)
        defs = [d for d in bi.body.defs.get(l, []) if d[0] in bi.body.reachable and not bi.body.is_cleanup(d[0])]
        if len(defs) != 1 or defs[0][2] != "assign":
            return None
        b, i, kind, rv = defs[0]
        if rv["k"] != "use":
            return None
        q = op_place(rv["op"])
        if q is None:
            return None
        if q["p"]:
            return (b, i) if bi.T.of_place(q) == field_term else None
        l = q["l"]
    return None


def before(bi, pos1, pos2):
    (b1, i1), (b2, i2) = pos1, pos2
    if b1 == b2:
        return i1 < i2
    return bi.body.dominates(b1, b2) and b1 not in bi.body.reach(bi.body.succs(b2))


def rule_enum(ctx, M):
    ent = M.consumers.get("EnumerateConsumer")
    ctx.require(ent is not None and ent["send"] is not None, "EnumerateConsumer::send coroutine")
    b = ent["send"]
    bi = M.info(b)
    cnt = cfield("count")
    ups = [(blk, d) for blk, pt, d, sp in scan.increments(bi) if pt == cnt]
    writes = stmt_pos_of_write(bi, cnt)
    probs = []
    sends = [s for s in bi.sites if s.callee.name == "send" and s.callee.trait == "Consumer"]
    if len(sends) != 1 or sends[0].arg(0) != cfield("inner"):
        probs.append("expected exactly one inner.send(..)")
    if len(writes) != 1 or len(ups) != 1 or ups[0][1] != 1:
        probs.append("count is not incremented by exactly one, exactly once")
    if not probs:
        fut = sends[0].arg(1)
        sv = flow.struct_view(M, fut, "EnumerateFuture")
        if sv is None:
            probs.append("inner.send is not given a freshly built EnumerateFuture")
        else:
            if sv.get("fut_t") != cupvar(1):
                probs.append("the wrapped future is not the given item future")
            if sv.get("done") != ("const", 0):
                probs.append("the EnumerateFuture does not start un-done")
            op = count_operand(M, bi, fut)
            rp = operand_read_pos_op(bi, op, cnt) if op is not None else None
            if sv.get("count") != cnt or rp is None:
                probs.append("the index handed to the EnumerateFuture is not a copy of `count`")
            elif not before(bi, rp, writes[0]):
                probs.append("the index is read after `count` was incremented (off by one)")
            if not bi.body.blocks_dominate([writes[0][0]], sends[0].block):
                probs.append("count is not incremented on every send")
    ctx.check(not probs, "C15.ENUM", b.def_, "send: index = count before its single +1; EnumerateFuture::new(<given future>, index) forwarded",
              site=b.span, path=probs)
    # EnumerateFuture::new / poll
    nb = pb = None
    for x in M.F.bodies:
        if x.impl_self is not None and (M.adt_of_type(x.impl_self) or "").endswith("enumerate::EnumerateFuture"):
            if x.name == "new":
                nb = x
            elif x.name == "poll":
                pb = x
    ctx.require(pb is not None, "EnumerateFuture::poll")
    if nb is not None:
        sv0 = flow.struct_view(M, ("call", ("EnumerateFuture", "new"), (("param", 1), ("param", 2)), 0), "EnumerateFuture")
        ok = sv0 is not None and sv0.get("count") == ("param", 2) and sv0.get("fut_t") == ("param", 1)
        ctx.check(ok, "C15.ENUM", nb.def_, "EnumerateFuture::new stores the given future and index", site=nb.span)
    else:
        ctx.ok("C15.ENUM", "<crate>", "EnumerateFuture has no constructor function (built by struct literal, checked at the send site)")
    pi = M.info(pb)
    cps = pi.child_polls()
    readys = flow.returns_of(pi, "Ready")
    sf_ = lambda n: ("field", ("param", 1), n)
    ok = len(cps) == 1 and cps[0].arg(0) == sf_("fut_t") and len(readys) >= 1
    for r in readys:
        p = r[2]
        ok = ok and p is not None and p[0] == "agg" and p[1] == "tuple" and len(p[2]) == 2 and p[2][0] == sf_("count") and \
            flow.is_payload(p[2][1], cps[0].block, "Ready") and pi.guarded_by(r[0], pi.outcome_edges(cps[0], "Ready"))
    cw = [w for w in scan.field_writes(pi) if w[1] == sf_("count")]
    ctx.check(ok and not cw, "C15.ENUM", pb.def_, "EnumerateFuture resolves to (stored index, the item future's output); index never rewritten", site=pb.span)


def rule_take(ctx, M):
    ent = M.consumers.get("TakeConsumer")
    ctx.require(ent is not None and ent["send"] is not None, "TakeConsumer::send coroutine")
    b = ent["send"]
    bi = M.info(b)
    cnt, lim = cfield("count"), cfield("limit")
    sends = [s for s in bi.sites if s.callee.name == "send" and s.callee.trait == "Consumer"]
    writes = stmt_pos_of_write(bi, cnt)
    incs = [(blk, d) for blk, pt, d, sp in scan.increments(bi) if pt == cnt]
    rets = flow.returned_values(bi)
    probs = []
    if len(sends) != 1 or sends[0].arg(0) != cfield("inner") or sends[0].arg(1) != cupvar(1):
        probs.append("expected exactly one inner.send(<the given future>)")
    if len(writes) != 1 or len(incs) != 1 or incs[0][1] != 1:
        probs.append("count is not incremented by exactly one, exactly once")
    tests = [(e, o, x, y) for e, o, x, y in flow.compare_tests(bi) if {x, y} == {cnt, lim}]
    if not probs:
        s = sends[0]
        aw = [a for a in costream.awaits(bi) if a.fut is not None and a.fut[0] == "call" and a.fut[3] == s.block]
        pre = [t for t in tests if bi.body.dominates(t[0]["block"], writes[0][0]) and t[0]["block"] != writes[0][0] or
               (t[0]["block"] == writes[0][0])]
        pre = [t for t in tests if before_block(bi, t[0]["block"], writes[0][0])]
        post = [t for t in tests if aw and bi.body.dominates(aw[0].block, t[0]["block"])]
        if not pre:
            probs.append("forwarding is not guarded by a comparison of count with limit taken before the increment (take(0) would forward an item)")
        else:
            lt = []
            ge = []
            for e, o, x, y in pre:
                lt += edges_rel(bi, e, o, x, y, cnt, lim, "Lt")
                ge += edges_rel(bi, e, o, x, y, cnt, lim, "Ge")
            if not lt or not bi.guarded_by(s.block, lt) or not bi.guarded_by(writes[0][0], lt):
                probs.append("inner.send / count+1 are reachable although count >= limit")
            r = bi.reach_from_edges(ge)
            kinds = {k for blk, k, p, t in rets if blk in r}
            if not ge or kinds != {"Break"} or s.block in r:
                probs.append("when the limit is already reached send does not return Break without forwarding")
        if not bi.body.blocks_dominate([writes[0][0]], s.block):
            probs.append("an item can be forwarded without being counted")
        if not post or not aw:
            probs.append("the limit is not re-examined after forwarding")
        else:
            lt = []
            ge = []
            for e, o, x, y in post:
                lt += edges_rel(bi, e, o, x, y, cnt, lim, "Lt")
                ge += edges_rel(bi, e, o, x, y, cnt, lim, "Ge")
            for blk, k, p, t in rets:
                if flow.is_payload(t, aw[0].site.block, "Ready"):
                    if not lt or not bi.guarded_by(blk, lt):
                        probs.append("the inner result is returned although the limit has been reached")
            r = bi.reach_from_edges(ge)
            kinds = {k for blk, k, p, t in rets if blk in r}
            if not ge or kinds != {"Break"}:
                probs.append("reaching the limit with this item does not return Break")
    ctx.check(not probs, "C15.TAKE", b.def_, "send: Break without forwarding if count >= limit; else count+1, one inner.send, Break iff count >= limit after",
              site=b.span, path=probs)
    # drive: TakeConsumer { inner: consumer, count: 0, limit: self.limit }
    e2 = c13.find_costream(M, "take::Take")
    ctx.require(e2 is not None and e2["drive"] is not None, "Take::drive coroutine")
    di = M.info(e2["drive"])
    dr = [s for s in di.sites if s.callee.name == "drive" and s.callee.trait == "ConcurrentStream"]
    ok = len(dr) == 1
    if ok:
        a = dr[0].arg(1)
        ok = a is not None and a[0] == "agg" and a[1][0] == "TakeConsumer"
        if ok:
            names = agg_field_names(M, e2["drive"], "TakeConsumer")
            fs = dict(zip(names or [], a[2]))
            ok = fs.get("inner") == cupvar(1) and fs.get("count") == ("const", 0) and fs.get("limit") == ("field", cupvar(0), "limit")
    ctx.check(ok, "C15.TAKE", e2["drive"].def_, "Take::drive starts the consumer at count 0 with limit = self.limit", site=e2["drive"].span)
    # Take::new stores the argument; nobody else writes Take.limit
    tb = None
    for x in M.F.bodies:
        if x.name == "new" and x.impl_self is not None and (M.adt_of_type(x.impl_self) or "").endswith("take::Take"):
            tb = x
    ctx.require(tb is not None, "Take::new")
    ti = M.info(tb)
    rets = flow.returned_values(ti)
    ok = len(rets) == 1 and rets[0][3][0] == "agg" and rets[0][3][1][0] == "Take"
    if ok:
        names = agg_field_names(M, tb, "Take")
        fs = dict(zip(names or [], rets[0][3][2]))
        ok = fs.get("limit") == ("param", 2) and fs.get("inner") == ("param", 1)
    ctx.check(ok, "C15.TAKE", tb.def_, "Take::new(inner, limit) stores both unchanged", site=tb.span)


def before_block(bi, tb, wb):
    """test block tb is evaluated before write block wb on every path to wb"""
    return tb != wb and bi.body.dominates(tb, wb)


def edges_rel(bi, e, o, x, y, a, b, want):
    """edges of comparison switch e on which `a want b` holds"""
    out = []
    if x == a and y == b:
        oo = o
    elif x == b and y == a:
        oo = flow.SWAP[o]
    else:
        return out
    if oo == want:
        ed = bi.edge(e, True)
    elif flow.NEG[oo] == want:
        ed = bi.edge(e, False)
    else:
        ed = None
    if ed:
        out.append(ed)
    return out


def agg_field_names(M, body, adt_simple):
    for bb in sorted(body.reachable):
        for st in body.stmts(bb):
            if st["k"] == "assign" and st["rv"]["k"] == "agg" and st["rv"].get("ak") == "adt" and simple_name(st["rv"].get("cpath")) == adt_simple:
                return st["rv"]["fnames"]
    return None


def rule_collect(ctx, M):
    ent = M.consumers.get("VecConsumer")
    ctx.require(ent is not None, "VecConsumer")
    b = ent["send"]
    bi = M.info(b)
    pushes = [s for s in bi.sites if s.callee.name == "push" and s.arg(0) == cfield("group")]
    ok = len(pushes) == 1 and pushes[0].arg(1) == cupvar(1)
    if ok:
        r = bi.body.reach([0], avoid_blocks=[pushes[0].block], stop_blocks=bi.return_blocks)
        ok = not any(x in r for x in bi.return_blocks) and pushes[0].block not in bi.body.reach(bi.body.succs(pushes[0].block))
    # send never consumes completions without storing them (no back-pressure loop that throws outputs away)
    lost = []
    for a in costream.group_next_awaits(bi):
        item = ("field", ("variant", a.value, "Some"), 0)
        ps = [s for s in bi.sites if s.key == ("Vec", "push") and s.arg(0) == cfield("output") and s.arg(1) == item]
        if not ps:
            lost.append(a.where)
    ctx.check(ok and not lost, "C15.COLLECT", b.def_, "send pushes the given future into the group exactly once, on every path, and discards no completed output",
              site=b.span, path=lost)
    for fn in ("progress", "flush"):
        b = ent[fn]
        ctx.require(b is not None, "VecConsumer::%s coroutine" % fn)
        bi = costream.effective_body(M, M.info(b))
        aws = costream.drain_loops_exit_only_on_none(ctx, bi, "C15.COLLECT", b.def_, "%s ends only after group.next() yielded None" % fn)
        probs = []
        yields = [blk for blk in bi.body.reachable if bi.body.term(blk)["k"] == "yield"]
        for a in aws:
            some_e, none_e = costream.await_value_tests(bi, a)
            item = ("field", ("variant", a.value, "Some"), 0)
            ps = [s for s in bi.sites if s.key == ("Vec", "push") and s.arg(0) == cfield("output") and s.arg(1) == item]
            lp = bi.body.innermost_loop(a.call_block)
            exits = list(bi.return_blocks) + ([lp[0]] if lp else [])
            if len(ps) != 1:
                probs.append("a completed output is not pushed onto the Vec exactly once")
                continue
            okp, bad = bi.must_reach([t for _, t in some_e], [ps[0].block], exits + yields)
            if not okp:
                probs.append("a completed output can be lost (not pushed before the next suspension point / loop iteration)")
        if len(aws) != 1 or len(costream.awaits(bi)) != 1:
            probs.append("%s awaits something other than group.next() (outputs could be buffered across a cancellation point)" % fn)
        ctx.check(not probs, "C15.COLLECT", b.def_, "%s: every completed output goes straight to the Vec (cancel-safe)" % fn, site=b.span, path=probs)
        flow_ok = True
    for x in M.F.bodies:
        if x.def_.endswith("from_concurrent_stream::{closure#0}") and x.def_.split(" as ")[0].lstrip("<").startswith(("std::vec::Vec", "alloc::vec::Vec")):
            xi = M.info(x)
            news = [s for s in xi.sites if s.callee.name == "new" and s.callee.owner == "VecConsumer"]
            rets = flow.returned_values(xi)
            dr = [s for s in xi.sites if s.callee.name == "drive"]
            ok = len(news) == 1 and len(rets) == 1 and len(dr) == 1 and rets[0][3] == news[0].arg(0) and dr[0].arg(1) == news[0].term
            ctx.check(ok, "C15.COLLECT", x.def_, "collect returns the very Vec it lent to the consumer, after driving the stream with it", site=x.span)


def rule_map(ctx, M):
    with ctx.renamed({"X.CALL": "C15.MAP"}):
        c13.rule_dec_call(ctx, M, "MapFuture", None, "X.CALL")
    fb = None
    for x in M.F.bodies:
        if x.name == "poll" and x.kind == "AssocFn" and x.impl_self is not None and (M.adt_of_type(x.impl_self) or "").endswith("::MapFuture"):
            fb = x
    fi = M.info(fb)
    pb = [c for c in fi.child_polls() if c.arg(0) == ("field", ("variant", ("field", ("param", 1), "fut_b"), "Some"), 0)]
    readys = flow.returns_of(fi, "Ready")
    ok = len(pb) == 1 and bool(readys) and all(flow.is_payload(r[2], pb[0].block, "Ready") for r in readys)
    ctx.check(ok, "C15.MAP", fb.def_, "MapFuture resolves to the closure future's own output", site=fb.span)
    flow.rule_integrity(ctx, fi, "C15.MAP", fb.def_, ("Ready",), "the mapped value")
    ent = M.consumers.get("MapConsumer")
    b = ent["send"]
    bi = M.info(b)
    sends = [s for s in bi.sites if s.callee.name == "send" and s.callee.trait == "Consumer"]
    ok = len(sends) == 1 and sends[0].arg(0) == cfield("inner")
    if ok:
        a = sends[0].arg(1)
        ok = a is not None and a[0] == "call" and a[1] == ("MapFuture", "new") and len(a[2]) == 2 and a[2][1] == cupvar(1) and \
            a[2][0][0] == "call" and a[2][0][1][1] == "clone" and a[2][0][2][0] == cfield("f")
    ctx.check(ok, "C15.MAP", b.def_, "MapConsumer::send forwards MapFuture::new(f.clone(), <the given future>)", site=b.span)


ADAPTERS = {"enumerate::Enumerate": "EnumerateConsumer", "limit::Limit": "LimitConsumer", "map::Map": "MapConsumer", "take::Take": "TakeConsumer"}


def rule_prealloc(ctx, M, rule):
    """collect pre-allocates `Vec::with_capacity(size_hint().1.unwrap_or_default())`: an upper bound is trusted as an
    allocation size.  That is only harmless while no adapter invents an upper bound of its own (`take(usize::MAX)` over a
    source of unknown length would ask for usize::MAX elements and panic with a capacity overflow before a single item is
    processed): as long as the upper bound is used this way, every adapter's size_hint is its inner stream's."""
    trusts_upper = False
    for x in M.F.bodies:
        if "from_concurrent_stream::{closure#0}" in x.def_ or x.def_.endswith("from_concurrent_stream"):
            xi = M.info(x)
            for s in xi.sites:
                if s.key == ("Vec", "with_capacity") and s.args:
                    for t in subterms(s.arg(0)):
                        if t[0] == "field" and t[2] == 1 and t[1][0] == "call" and t[1][1][1] == "size_hint":
                            trusts_upper = True
    if not trusts_upper:
        ctx.ok(rule, "<crate>", "collect does not allocate by the stream's upper size bound")
        return
    for adt, e in sorted(M.costreams.items()):
        simple = adt.rsplit("::", 1)[-1]
        if simple not in ("Take", "Limit", "Map", "Enumerate"):
            continue
        b = M.impl_fn(e["impl"], "size_hint")
        if b is None:
            continue
        bi = M.info(b)
        rets = flow.returned_values(bi)
        ok = len(rets) == 1 and rets[0][3][0] == "call" and rets[0][3][1][1] == "size_hint" and rets[0][3][2] and \
            rets[0][3][2][0] == ("field", ("param", 1), "inner")
        ctx.check(ok, rule, b.def_, "%s::size_hint is its inner stream's hint (collect allocates by the upper bound it reports)" % simple, site=b.span,
                  sample={"ret": short(rets[0][3]) if rets else None})


def rule_adapter_ctors(ctx, M, rule, only=None):
    """`cs.limit(n)` / `take(n)` / `enumerate()` / `map(f)` build the adapter from exactly their operands: the provided
    method returns `Adapter::new(self, arg)` and `new` stores each parameter in its own field, unchanged."""
    methods = {"limit": "Limit", "take": "Take", "enumerate": "Enumerate", "map": "Map"}
    for meth, adt in sorted(methods.items()):
        if only and adt not in only:
            continue
        mb = [x for x in M.F.bodies if x.def_.endswith("concurrent_stream::ConcurrentStream::%s" % meth)]
        nb = [x for x in M.F.bodies if x.kind == "AssocFn" and x.name == "new" and x.impl_trait is None and x.impl_self is not None
              and (M.adt_of_type(x.impl_self) or "").endswith("concurrent_stream::%s::%s" % (meth, adt))]
        ctx.require(len(mb) == 1 and len(nb) == 1, "ConcurrentStream::%s and %s::new" % (meth, adt))
        b = nb[0]
        bi = M.info(b)
        rets = flow.returned_values(bi)
        view = flow.struct_view(M, rets[0][3], adt, bi=bi) if len(rets) == 1 else None
        probs = []
        if view is None:
            probs.append("new does not return one struct literal")
        else:
            params = [v for v in view.values() if v[0] == "param"]
            others = [v for v in view.values() if v[0] != "param" and not (v[0] == "agg" and not v[2]) and v[0] != "const"]
            if others:
                probs.append("a field is computed rather than stored (%s)" % short(others[0]))
            if sorted(p[1] for p in params) != list(range(1, b.argc + 1)):
                probs.append("the parameters are not stored one per field")
            if view.get("inner") != ("param", 1):
                probs.append("`inner` is not the wrapped stream")
        ctx.check(not probs, rule, b.def_, "%s::new stores its operands unchanged" % adt, site=b.span, path=probs)
        m = mb[0]
        mi = M.info(m)
        rets = flow.returned_values(mi)
        t = rets[0][3] if len(rets) == 1 else None
        ok = t is not None and t[0] == "call" and t[1] == (adt, "new") and tuple(t[2]) == tuple(("param", k + 1) for k in range(m.argc))
        ctx.check(ok, rule, m.def_, "%s(self, ..) = %s::new(self, ..)" % (meth, adt), site=m.span, sample={"ret": short(t) if t else None})


def rule_stack(ctx, M):
    rule_adapter_ctors(ctx, M, "C15.STACK")
    for suffix, cname in sorted(ADAPTERS.items()):
        e = c13.find_costream(M, suffix)
        ctx.require(e is not None and e["drive"] is not None, "%s::drive coroutine" % suffix)
        b = e["drive"]
        bi = M.info(b)
        dr = [s for s in bi.sites if s.callee.name == "drive" and s.callee.trait == "ConcurrentStream"]
        ok = len(dr) == 1 and dr[0].arg(0) == ("field", cupvar(0), "inner")
        if ok:
            a = dr[0].arg(1)
            ok = a is not None and a[0] == "agg" and a[1][0] == cname
            if ok:
                names = agg_field_names(M, b, cname)
                fs = dict(zip(names or [], a[2]))
                ok = fs.get("inner") == cupvar(1)
            aw = [x for x in costream.awaits(bi) if x.fut is not None and x.fut[0] == "call" and x.fut[3] == dr[0].block]
            rets = flow.returned_values(bi)
            ok = ok and len(aw) == 1 and len(costream.awaits(bi)) == 1 and all(flow.is_payload(t, aw[0].site.block, "Ready") for _, _, _, t in rets)
        ctx.check(ok, "C15.STACK", b.def_, "%s::drive = self.inner.drive(%s { inner: consumer, .. }).await" % (suffix.split("::")[-1], cname), site=b.span)
    # adapter structs: constructed only by their own `new`, fields never written
    adts = {a for a in M.F.adts_c if any(a.endswith("concurrent_stream::" + s) for s in ADAPTERS)}
    bad = []
    n_ctor = 0
    for x in M.F.bodies:
        if x.kind in ("Const", "AnonConst"):
            continue
        for bb in sorted(x.reachable):
            if x.is_cleanup(bb):
                continue
            for st in x.stmts(bb):
                if st["k"] != "assign":
                    continue
                rv = st["rv"]
                if rv["k"] == "agg" and rv.get("ak") == "adt" and rv.get("cpath") in adts:
                    n_ctor += 1
                    own = x.impl_self is not None and M.adt_of_type(x.impl_self) == rv.get("cpath") and x.name == "new"
                    if not own:
                        bad.append((x.def_, st.get("sp", ""), "constructs %s outside its `new`" % simple_name(rv["cpath"])))
                if st["lhs"]["p"]:
                    root_ty = peel_type(M.F, x.locals[st["lhs"]["l"]]["ty"])
                    if root_ty["k"] == "adt" and root_ty.get("cpath") in adts and any(isinstance(e, dict) and "f" in e for e in st["lhs"]["p"]):
                        bad.append((x.def_, st.get("sp", ""), "writes a field of %s" % simple_name(root_ty["cpath"])))
    for d, sp, what in bad:
        ctx.fail("C15.STACK", d, what, site=sp)
    ctx.check(n_ctor >= 4 and not bad, "C15.STACK", "<crate>", "adapter structs are built only by their own `new` (%d sites) and never mutated" % n_ctor)
    # collect
    for x in M.F.bodies:
        if x.def_.endswith("ConcurrentStream::collect::{closure#0}"):
            xi = M.info(x)
            calls = [s for s in xi.sites if s.callee.name == "from_concurrent_stream"]
            ok = len(calls) == 1 and calls[0].arg(0) == cupvar(0)
            if ok:
                aw = [a for a in costream.awaits(xi) if a.fut is not None and a.fut[0] == "call" and a.fut[3] == calls[0].block]
                rets = flow.returned_values(xi)
                ok = len(aw) == 1 and all(flow.is_payload(t, aw[0].site.block, "Ready") for _, _, _, t in rets)
            ctx.check(ok, "C15.STACK", x.def_, "collect = B::from_concurrent_stream(self).await", site=x.span)
