"""C08 — merge: every item exactly once, per-input order kept, ends iff all inputs ended."""
from ..facts import base
from .. import families, scan, zw
from ..families import short, ctor_fields, self_path
from . import racelike, flow, common, c01, c02, c03, prims, joinlike

PROPERTY = "C08"
LEVEL = "other"
CONFIGS_QUICK = ["std", "alloc", "std-rel"]
CONFIGS_THOROUGH = ["std", "alloc", "core", "std-rel", "alloc-rel", "core-rel"]
EXPLANATION = (
    "Path and data-flow rules on the MIR of every merge poll_next body (tuple arities 1-12, array, Vec): (ITEM) on every input's "
    "Ready(Some) edge every path returns Ready(Some(that item)) in the same call - the item is neither buffered, dropped nor "
    "modified - reaches no further child poll, and re-arms that input; every Ready(Some) return carries an item polled in this "
    "call; with C02.OWN (no buffer exists) and C03 (no poll after None) this is 'each item exactly once, per-input order kept'; "
    "(END) on every input's Ready(None) edge the input is marked ended (state None) and the ended-counter moves by one exactly "
    "once - and nowhere else - the all-ended test is evaluated in the same call, Ready(None) is returned only under "
    "counter == number of inputs, and otherwise the scan continues (no Pending on that path); (ZERO) abstract evaluation of the "
    "array/Vec bodies in the zero-length world returns Ready(None) without reaching a child poll, an Indexer::iter call that "
    "divides by the length, or Pending; the 0-tuple body is straight-line Ready(None); (EXT) StreamExt::merge builds (self, other).")
EXPLANATION += (' (CTOR) the entry point stores every operand, converted by into_stream only, as an input - none dropped, duplicated or reordered.')
EXPLANATION += (' (ITEM, helpers) the utils::pin accessors are the standard slice / Vec accessors re-pinned element-wise. (EXT, surface) no inherent method shadows `merge`; no body takes a by-value combinator apart.')
ASSUMPTIONS = [
    "C03.GUARD/MARK: an ended input is never polled again, so the counter counts distinct inputs",
    "the interleaving across inputs is unspecified by the property",
]
RULES = {
    "C08.CTOR": "entry point: every operand becomes the child of its own position, converted by into_future / into_stream only; nothing reorders, drops or duplicates operands",
    "C08.ITEM": "Ready(Some) edge => same-call return of that item unmodified, nothing polled afterwards, input re-armed; Some returns only carry polled items",
    "C08.END": "Ready(None) edge => state None, counter+1 once; counter written nowhere else; Ready(None) only under counter == len; otherwise the scan continues",
    "C08.ONCE": "premise: an input is polled only while live and is marked ended in the poll in which it returns None (ended-counter counts distinct inputs)",
    "C08.LIVE": "an input whose readiness bit was cleared is polled in that pass (a wake-up recorded during the poll is not erased), and the task waker is registered first: items are not left undelivered",
    "C08.ZERO": "zero-length world (array, Vec) returns Ready(None) without polling / dividing by the length; merge of () is straight-line Ready(None)",
    "C08.EXT": "StreamExt::merge(self, other) = Merge::merge((self, other))",
}


def run(ctx):
    for rid, text in RULES.items():
        ctx.rule(rid, text)
    for cfg in ctx.configs:
        ctx.current_config = cfg
        M = ctx.model(cfg)
        units = families.subwaker_units(M, ("merge",), groups=False)
        divides = indexer_divides_unguarded(ctx, M)
        c01.live_premises(ctx, M, units, "C08.LIVE")
        # the scan order is the Indexer rotation: an input is not passed over for ever (every index once per pass, the
        # start advancing by one per poll) - the rotation summaries of C17 are a premise of "items are not left undelivered"
        from . import prims as _prims
        _prims.check_indexer(ctx, M, "C08.LIVE")
        from . import ctors
        ctors.run_family(ctx, M, units, "C08.CTOR", cfg)
        for u in units:
            rets, claimed = racelike.rule_win(ctx, M, u, "C08.ITEM", ("Ready", "Some"), "Ready(Some)")
            loose = [r for r in rets if r[0] not in claimed]
            ctx.check(bool(rets) and not loose, "C08.ITEM", u.where, "every Ready(Some) return carries an item polled in this call", site=u.body.span)
            flow.rule_integrity(ctx, u.bi, "C08.ITEM", u.where, ("Ready(Some)",), "the yielded item")
            with ctx.renamed({"C01.REARM": "C08.ITEM"}):
                c01.rule_rearm(ctx, u)
            rule_end(ctx, M, u)
            with ctx.renamed({"C03.GUARD": "C08.ONCE", "C03.MARK": "C08.ONCE"}):
                c03.rule_guard(ctx, u)
                c03.rule_mark(ctx, u)
            if u.container in ("array", "vec"):
                rule_zero(ctx, M, u, divides)
        joinlike.rule_zero_tuple0(ctx, M, "merge", "C08.ZERO", "Ready(None)")
        from . import common as _cm
        ctx.require(_cm.rule_pin_utils(ctx, M, "C08.ITEM") >= 1, "utils::pin helpers")
        n = joinlike.rule_ext(ctx, M, "stream::stream_ext::StreamExt", "merge", "merge", "C08.EXT")
        ctx.require(n >= 1, "StreamExt::merge")
        na = 1 if base(cfg) == "core" else 2
        ctx.floor("C08.ITEM", cfg, 2 * (78 + na) + 2 * (12 + na))
        ctx.floor("C08.END", cfg, 2 * (78 + na) + 2 * (12 + na))
        ctx.floor("C08.ZERO", cfg, na + 1)
    return {}


def ended_counter(u):
    names = set()
    for b, pt, d, sp in scan.increments(u.bi):
        sp_ = self_path(pt)
        if sp_ is not None and len(sp_) == 1 and d == 1 and sp_[0] not in ("index",):
            names.add(sp_[0])
    if len(names) == 1:
        return next(iter(names))
    # fall back to the field compared in the guard of the Ready(None) return
    bi = u.bi
    rets = flow.returns_of(bi, "Ready(None)")
    c = set()
    for e, o, x, y in flow.compare_tests(bi):
        for t in (x, y):
            sp_ = self_path(t)
            if sp_ is not None and len(sp_) == 1:
                te = bi.edge(e, True)
                if te and any(bi.guarded_by(r[0], [te]) for r in rets):
                    c.add(sp_[0])
    return next(iter(c)) if len(c) == 1 else None


def len_target(u):
    if u.container == "tuple":
        def f(t):
            if t == ("const", u.arity):
                return True
            return t[0] == "cast" and t[2] == ("const", u.arity)
        return f
    return lambda t: t == ("sym", "N") or (t[0] == "call" and t[1][1] == "len" and t[2] and t[2][0] == scan.self_field("streams"))


def rule_end(ctx, M, u):
    bi = u.bi
    name = ended_counter(u)
    if name is None:
        ctx.fail("C08.END", u.where, "no unique ended-inputs counter found", site=u.body.span)
        return
    ft = scan.self_field(name)
    target = len_target(u)
    fields, cb, cbi = ctor_fields(M, u.member)
    ctx.check((fields or {}).get(name) == ("const", 0), "C08.END", cb.def_ if cb else u.where, "%s: counter `%s` starts at 0" % (u.label, name),
              site=cb.span if cb else u.body.span)
    ups = flow.counter_updates(bi, name)
    all_none = []
    guard = flow.edges_where(bi, ft, "Eq", target, bounded=True)
    not_all = flow.edges_where(bi, ft, "Ne", target, bounded=True)
    tests = [e["block"] for e, o, x, y in flow.compare_tests(bi) if (x == ft and target(y)) or (y == ft and target(x))]
    pend = set(common.pending_blocks(bi))
    for c in u.cps:
        ne = bi.outcome_edges(c.site, "Ready", "None")
        all_none += ne
        if not ne:
            ctx.fail("C08.END", u.where, "no Ready(None) edge for %s" % c.label, site=c.where)
            continue
        header, exits = common.loop_exits(bi, c.block)
        avoid = common.arm_feasible_avoid(u, c)
        probs = []
        mine = [b for b, d, sp in ups if bi.guarded_by(b, ne)]
        for p in flow.once_on_paths(bi, [t for _, t in ne], mine, exits, avoid):
            probs.append("ended counter on its None path: " + p)
        if any(d != 1 for b, d, sp in ups if b in mine):
            probs.append("ended counter changed by something other than +1")
        S = [b for b in c02.state_sets_for(M, u, c, ("None",)) if bi.guarded_by(b, ne)]
        r = bi.reach_from_edges(ne, avoid_blocks=S, stop_blocks=exits, avoid_edges=avoid)
        if not S or any(x in r for x in exits):
            probs.append("input is not marked ended (state None) on every None path")
        # the all-ended test is evaluated in this call before the scan moves on or returns
        r = bi.reach_from_edges(ne, avoid_blocks=tests, stop_blocks=exits, avoid_edges=avoid)
        if not tests or any(x in r for x in exits):
            probs.append("the all-ended test is not evaluated after the input ended")
        # not all ended => scan continues: header reached, no Pending / return on the way
        r = bi.reach_from_edges(ne, stop_blocks=[header] if header is not None else [], avoid_edges=list(avoid) + guard)
        r_in = {x for x in r if x != header}
        if header is None or header not in r:
            probs.append("the scan does not continue after an input ended")
        if r_in & pend or any(x in r_in for x in bi.return_blocks):
            probs.append("a path from the None edge returns although not all inputs ended")
        if probs:
            for p in sorted(set(probs)):
                ctx.fail("C08.END", u.where, "%s: %s" % (c.label, p), site=c.where)
        else:
            ctx.ok("C08.END", u.where, "%s: None => state None, counter+1 once, test, scan continues" % c.label)
    loose = [(b, sp) for b, d, sp in ups if not bi.guarded_by(b, all_none)]
    ctx.check(bool(ups) and not loose, "C08.END", u.where, "counter `%s` is written only on inputs' None paths" % name, site=u.body.span,
              path=[sp for _, sp in loose])
    rets = flow.returns_of(bi, "Ready(None)")
    if not rets:
        ctx.fail("C08.END", u.where, "no Ready(None) return", site=u.body.span)
    for b, kind, payload, t in rets:
        ctx.check(bool(guard) and bi.guarded_by(b, guard), "C08.END", u.where, "Ready(None) only when %s == number of inputs" % name,
                  site=bi.describe(b))


def indexer_divides_unguarded(ctx, M):
    """Does Indexer::iter contain a remainder/division by self.max that is not control-dependent on
    a test of self.max?"""
    b = prims.find_method(M, "indexer::Indexer", "iter")
    ctx.require(b is not None, "Indexer::iter")
    bi = M.info(b)
    mx = ("field", ("param", 1), "max")
    divs = []
    for s in bi.sites:
        if s.callee.name in ("wrapping_rem", "rem", "rem_euclid", "wrapping_div", "div", "checked_rem") and len(s.args) >= 2 and s.arg(1) == mx:
            divs.append(s.block)
    for blk in sorted(bi.body.reachable):
        for st in bi.body.stmts(blk):
            if st["k"] == "assign" and st["rv"]["k"] == "binop" and st["rv"]["op"] in ("Rem", "Div") and bi.T.of_operand(st["rv"]["b"]) == mx:
                divs.append(blk)
    if not divs:
        return False
    guards = []
    for e, o, x, y in flow.compare_tests(bi):
        if mx in (x, y):
            guards += [ed for ed in (bi.edge(e, True), bi.edge(e, False)) if ed]
    for d in divs:
        if not any(bi.guarded_by(d, [g]) for g in guards):
            return True
    return False


def rule_zero(ctx, M, u, divides):
    bi = u.bi
    res = joinlike.rule_zero(ctx, M, u, "C08.ZERO", ("Ready(None)",))
    if res is None:
        return
    its = [s for s in bi.sites if s.key == ("Indexer", "iter")]
    reached = [s for s in its if s.block in res.reached]
    ctx.check(not (divides and reached), "C08.ZERO", u.where,
              "zero-length world does not reach Indexer::iter (which divides by the length)", site=reached[0].where if reached else u.body.span,
              sample={"indexer_iter_divides_unguarded": divides, "iter_sites": len(its)})
