"""Rules shared by C11 (FutureGroup) and C12 (StreamGroup): every mutator and the poll body preserve
the representation invariant  keys = occupied slab slots = {i | states[i] = Pending},
capacity = |states| = |wakers| > every live key; observers read it faithfully."""
from .. import scan, families, summary
from ..families import short, Unit
from ..sites import FUTURE, STREAM
from ..terms import simple_name, subterms
from . import common, flow, c03, c16, c01

SELF = ("param", 1)


def sf(name):
    return ("field", SELF, name)


def slab_field(gname):
    return "futures" if gname == "future_group" else "streams"


def group_unit(M, gname):
    g = M.groups[gname]
    b = g.get("poll_next_inner")
    return Unit(M, gname, b, gname, "group") if b is not None else None


def key_of_param(t, n=2):
    """term is `key.0` of parameter n"""
    return t == ("field", ("param", n), 0)


def rule_insert(ctx, M, gname, rule):
    g = M.groups[gname]
    b = g.get("insert")
    ctx.require(b is not None, "%s::insert" % gname)
    bi = M.info(b)
    slab = sf(slab_field(gname))
    ins = [s for s in bi.sites if s.key == ("Slab", "insert") and s.arg(0) == slab]
    probs = []
    if len(ins) != 1:
        ctx.fail(rule, b.def_, "expected exactly one Slab::insert on the member slab (found %d)" % len(ins), site=b.span)
        return
    si = ins[0]
    k = si.term
    if si.arg(1) != ("param", 2):
        probs.append("the inserted value is not the argument")
    # growth test dominates the insert
    cap = sf("capacity")
    grow_edges = []
    for e, o, x, y in flow.compare_tests(bi):
        for (xx, yy, oo) in ((x, y, o), (y, x, flow.SWAP[o])):
            if xx == cap and yy[0] == "call" and yy[1][1] == "len" and yy[2] and yy[2][0] in (SELF, slab):
                if oo in ("Le",):
                    grow_edges.append((bi.edge(e, True), e))
                elif oo in ("Gt",):
                    grow_edges.append((bi.edge(e, False), e))
    if not grow_edges:
        probs.append("no `capacity <= len()` growth test before the insert")
    else:
        ed, e = grow_edges[0]
        if not bi.body.dominates(e["block"], si.block):
            probs.append("the growth test does not dominate the slab insert")
        res = [s for s in bi.sites if s.callee.name == "reserve" and s.callee.owner in ("FutureGroup", "StreamGroup") and s.arg(0) == SELF]
        ok, bad = bi.must_reach([ed[1]], [s.block for s in res], [si.block] + list(bi.return_blocks))
        if not res or not ok:
            probs.append("a full group does not reserve before inserting")
        for s in res:
            a = s.arg(1)
            aa = a[1] if a[0] == "field" and a[2] == 0 else a
            pos = aa[0] == "binop" and aa[1].startswith("Add") and any(x[0] == "const" and x[1] >= 1 for x in (aa[2], aa[3]))
            if not pos:
                probs.append("reserve() amount is not provably >= 1 (%s)" % short(a))
    # bookkeeping with the same key
    exits = list(bi.return_blocks)
    kin = [s for s in bi.sites if s.key == ("BTreeSet", "insert") and s.arg(0) == sf("keys") and s.arg(1) == k]
    st = [blk for blk, variant, idx, base, w in scan.state_sets(bi) if variant == "Pending" and idx == k and base == sf("states")]
    arm = [s for s in scan.arm_sites(bi) if s.arg(1) == k]
    for name, blocks in (("keys.insert(k)", [s.block for s in kin]), ("states[k] := Pending", st), ("readiness.set_ready(k)", [s.block for s in arm])):
        ok, bad = bi.must_reach([si.target], blocks, exits)
        if not blocks or not ok:
            probs.append("%s is not performed on every path after the slab insert" % name)
    rets = flow.returned_values(bi)
    if not rets or not all(t == ("agg", ("Key", "Key"), (k,)) for _, _, _, t in rets):
        probs.append("the returned key is not the slab key of the inserted member")
    other_states = [1 for blk, variant, idx, base, w in scan.state_sets(bi) if idx != k]
    if other_states:
        probs.append("insert writes the state of another slot")
    if probs:
        for p in sorted(set(probs)):
            ctx.fail(rule, b.def_, p, site=b.span)
    else:
        ctx.ok(rule, b.def_, "insert: grow-if-full, slab insert, then key / state Pending / arm / return all with the same slab key",
               sample={"slab_insert": si.where})


def rule_insert_pinned(ctx, M, gname, rule):
    """insert_pinned (the entry the concurrent-stream consumers use): slab insert of the argument, then - all with the
    slab key - keys.insert, both tables resized to at least the slab's capacity *before* they are indexed, state Pending,
    readiness bit armed, key returned."""
    g = M.groups[gname]
    b = g.get("insert_pinned")
    if b is None:
        return
    # insert_pinned is crate-private: a defect in it is observable only through its callers
    callers = [x for x in M.F.bodies for blk in x.reachable if x.term(blk)["k"] == "call" and
               (x.term(blk)["func"].get("resolved_c") or x.term(blk)["func"].get("cpath")) == b.j["cdef"]]
    if not callers:
        ctx.note("%s::insert_pinned has no caller in this configuration: not part of any observable behaviour, rule skipped" % gname)
        return
    bi = M.info(b)
    slab = sf(slab_field(gname))
    ins = [s for s in bi.sites if s.key == ("Slab", "insert") and s.arg(0) == slab]
    if len(ins) != 1:
        ctx.fail(rule, b.def_, "expected exactly one Slab::insert on the member slab (found %d)" % len(ins), site=b.span)
        return
    si = ins[0]
    k = si.term
    probs = []
    if si.arg(1) != ("param", 2):
        probs.append("the inserted value is not the argument")
    exits = list(bi.return_blocks)
    kin = [s for s in bi.sites if s.key == ("BTreeSet", "insert") and s.arg(0) == sf("keys") and s.arg(1) == k]
    st = [blk for blk, variant, idx, base, w in scan.state_sets(bi) if variant == "Pending" and idx == k and base == sf("states")]
    arm = [s for s in scan.arm_sites(bi) if s.arg(1) == k]
    for name, blocks in (("keys.insert(k)", [s.block for s in kin]), ("states[k] := Pending", st), ("readiness.set_ready(k)", [s.block for s in arm])):
        ok, bad = bi.must_reach([si.target], blocks, exits)
        if not blocks or not ok:
            probs.append("%s is not performed on every path after the slab insert" % name)

    def big_enough(t):
        # capacity(slab), or max(capacity(slab), k) in either order
        cap = lambda x: x[0] == "call" and x[1] == ("Slab", "capacity") and x[2] and x[2][0] == slab
        if cap(t):
            return True
        return t[0] == "call" and t[1][1] == "max" and len(t[2]) == 2 and any(cap(x) for x in t[2])
    for tbl, owner in (("wakers", "WakerVec"), ("states", "PollVec")):
        rs = [s for s in bi.sites if s.key == (owner, "resize") and s.arg(0) == sf(tbl)]
        good = [s for s in rs if s.arg(1) is not None and big_enough(s.arg(1)) and s.arg(1)[3] in bi.body.reach([si.target]) | {si.target}]
        if not good:
            probs.append("%s is not resized to the slab's capacity after the insert" % tbl)
            continue
        users = st if tbl == "states" else [s.block for s in arm]
        for ub in users:
            if not any(bi.body.dominates(s.block, ub) for s in good):
                probs.append("%s is indexed before it was resized" % tbl)
    rets = flow.returned_values(bi)
    if not rets or not all(t == ("agg", ("Key", "Key"), (k,)) for _, _, _, t in rets):
        probs.append("the returned key is not the slab key of the inserted member")
    if [1 for blk, variant, idx, base, w in scan.state_sets(bi) if idx != k]:
        probs.append("insert_pinned writes the state of another slot")
    ctx.check(not probs, rule, b.def_, "insert_pinned: slab insert, tables grown to the slab's capacity, then key / state Pending / arm / return all with the same slab key",
              site=b.span, path=sorted(set(probs)))


def rule_reserve(ctx, M, gname, rule):
    g = M.groups[gname]
    b = g.get("reserve")
    ctx.require(b is not None, "%s::reserve" % gname)
    bi = M.info(b)
    # growing never re-seats members: the keys handed out (and the key set, state table and sub-wakers indexed by them)
    # keep addressing the same slab slots
    slab = sf(slab_field(gname))
    moved = [s for s in bi.sites if s.callee.owner == "Slab" and s.args and s.arg(0) == slab
             and s.callee.name in ("drain", "insert", "remove", "try_remove", "clear", "retain", "compact", "shrink_to_fit", "vacant_entry", "vacant_key")]
    taken = [t for t in flow.takes_of(bi, slab)]
    if moved or taken:
        ctx.fail(rule, b.def_, "reserve moves members between slab slots (%s): keys already handed out no longer address them" %
                 ", ".join(sorted({s.callee.name for s in moved} | ({"mem::take/replace/swap"} if taken else set()))), site=b.span)
        return
    try:
        pss = summary.summarize(bi)
    except summary.TooComplex as e:
        ctx.require(False, "reserve summary: %s" % e)
    cap = sf("capacity")
    probs = []
    grow = 0
    for ps in pss:
        calls = {k: a for k, a, blk in ps.calls}
        wres = [a for k, a, blk in ps.calls if k == ("WakerVec", "resize")]
        sres = [a for k, a, blk in ps.calls if k == ("PollVec", "resize")]
        cw = [v for p, v in ps.writes if p == cap]
        if not wres and not sres and not cw:
            # the no-op path: only allowed when len + additional < capacity
            okc = False
            for s, lab in ps.conds:
                if s[0] == "binop" and s[1] in ("Lt", "Gt", "Le", "Ge"):
                    x, y, o = s[2], s[3], s[1]
                    if y != cap:
                        x, y, o = y, x, flow.SWAP[o]
                    if y == cap and any(z[0] == "call" and z[1][1] == "len" for z in subterms(x)) and any(z == ("param", 2) for z in subterms(x)):
                        if (o == "Lt" and lab is True) or (o == "Ge" and lab is False):
                            okc = True
            if not okc:
                probs.append("a path leaves the tables untouched without having established len + additional < capacity")
            continue
        grow += 1
        if len(wres) != 1 or len(sres) != 1 or len(cw) != 1:
            probs.append("growing path does not resize wakers, states and capacity exactly once each")
            continue
        newcap = cw[0]
        nc = newcap[1] if newcap[0] == "field" and newcap[2] == 0 else newcap
        if not (nc[0] == "binop" and nc[1].startswith("Add") and cap in (nc[2], nc[3]) and ("param", 2) in (nc[2], nc[3])):
            probs.append("new capacity is not capacity + additional (%s)" % short(newcap))
        if wres[0][0] != sf("wakers") or sres[0][0] != sf("states") or wres[0][1] != newcap or sres[0][1] != newcap:
            probs.append("wakers / states are not resized to the new capacity")
    if grow == 0:
        probs.append("no growing path")
    if probs:
        for p in sorted(set(probs)):
            ctx.fail(rule, b.def_, p, site=b.span)
    else:
        ctx.ok(rule, b.def_, "reserve: no-op only when len+additional < capacity; otherwise wakers, states and capacity all become capacity+additional",
               sample=[ps.describe() for ps in pss][:3])


def rule_remove(ctx, M, gname, rule):
    g = M.groups[gname]
    b = g.get("remove")
    ctx.require(b is not None, "%s::remove" % gname)
    bi = M.info(b)
    slab = sf(slab_field(gname))
    kr = [s for s in bi.sites if s.key == ("BTreeSet", "remove") and s.arg(0) == sf("keys") and key_of_param(s.arg(1))]
    probs = []
    if len(kr) != 1:
        ctx.fail(rule, b.def_, "expected exactly one keys.remove(&key.0) (found %d)" % len(kr), site=b.span)
        return
    r = kr[0]
    te, fe = bi.outcome_edges(r, True), bi.outcome_edges(r, False)
    st = [blk for blk, variant, idx, base, w in scan.state_sets(bi) if variant == "None" and key_of_param(idx) and base == sf("states")]
    sr = [s.block for s in bi.sites if s.key == ("Slab", "remove") and s.arg(0) == slab and key_of_param(s.arg(1))]
    allst = [blk for blk, variant, idx, base, w in scan.state_sets(bi)]
    allsr = [s.block for s in bi.sites if s.callee.owner == "Slab" and s.callee.name in ("remove", "try_remove", "clear", "drain")]
    if not te or not fe:
        probs.append("the result of keys.remove is not branched on")
    else:
        for name, blocks in (("states[key] := None", st), ("slab.remove(key)", sr)):
            probs += ["%s: %s" % (name, p) for p in flow.once_on_paths(bi, [t for _, t in te], blocks, bi.return_blocks)]
        rf = bi.reach_from_edges(fe)
        if any(x in rf for x in allst + allsr):
            probs.append("an absent key still modifies the state table or the slab")
        if set(allst) != set(st) or set(allsr) != set(sr):
            probs.append("remove touches a slot other than the given key")
        if not all(bi.guarded_by(x, te) for x in st + sr):
            probs.append("state / slab entry removed without the key having been present")
    # the deferred-removal queue belongs to the poll loop (which cannot edit `keys` while iterating it): an entry queued
    # here outlives the removal and later deletes the key of whatever member re-uses the slot
    q = [s for s in bi.sites if s.args and s.arg(0) == sf("key_removal_queue") and s.callee.name in ("push", "insert", "extend", "extend_from_slice", "append")]
    if q:
        probs.append("remove queues the key for deferred removal although it deletes it itself")
    rets = flow.returned_values(bi)

    def presence(blk, t):
        if t[0] == "call" and t[3] == r.block:
            return True
        if t == ("const", 1):
            return bool(te) and bi.guarded_by(blk, te)
        if t == ("const", 0):
            return bool(fe) and bi.guarded_by(blk, fe)
        return False
    if not rets or not all(presence(blk, t) for blk, _, _, t in rets):
        probs.append("remove does not return whether the key was present")
    if probs:
        for p in sorted(set(probs)):
            ctx.fail(rule, b.def_, p, site=b.span)
    else:
        ctx.ok(rule, b.def_, "remove: key, state and slab entry deleted together iff the key was present; returns presence")


def rule_view(ctx, M, gname, rule):
    g = M.groups[gname]
    slab = sf(slab_field(gname))
    want = {
        "len": lambda t: t[0] == "call" and t[1] == ("Slab", "len") and t[2][0] == slab,
        "is_empty": lambda t: t[0] == "call" and t[1] == ("Slab", "is_empty") and t[2][0] == slab,
        "contains_key": lambda t: t[0] == "call" and t[1] == ("BTreeSet", "contains") and t[2][0] == sf("keys") and key_of_param(t[2][1]),
        "capacity": lambda t: t == sf("capacity"),
    }
    for fn, pred in want.items():
        b = g.get(fn)
        ctx.require(b is not None, "%s::%s" % (gname, fn))
        bi = M.info(b)
        rets = flow.returned_values(bi)
        ok = len(rets) == 1 and pred(rets[0][3])
        ctx.check(ok, rule, b.def_, "%s() reads the representation faithfully" % fn, site=b.span, sample={"ret": short(rets[0][3]) if rets else None})
    # Stream::poll_next maps Some((_, x)) -> Some(x), None -> None, Pending -> Pending
    b = g.get("poll_next")
    ctx.require(b is not None, "%s Stream::poll_next" % gname)
    bi = M.info(b)
    inner = [s for s in bi.sites if s.callee.name == "poll_next_inner"]
    ok = len(inner) == 1
    if ok and key_dropping_map(M, bi, inner[0]):
        pass
    elif ok:
        s = inner[0]
        rets = flow.returned_values(bi)
        kinds = sorted(r[1] for r in rets)
        ok = kinds == ["Pending", "Ready(None)", "Ready(Some)"]
        for blk, kind, payload, t in rets:
            if kind == "Ready(Some)":
                ok = ok and payload == ("field", ("field", ("variant", ("field", ("variant", s.term, "Ready"), 0), "Some"), 0), 1)
                ok = ok and bi.guarded_by(blk, bi.outcome_edges(s, "Ready", "Some"))
            elif kind == "Ready(None)":
                ok = ok and bi.guarded_by(blk, bi.outcome_edges(s, "Ready", "None"))
            elif kind == "Pending":
                ok = ok and bi.guarded_by(blk, bi.outcome_edges(s, "Pending"))
    ctx.check(ok, rule, b.def_, "Stream::poll_next forwards poll_next_inner, dropping only the key", site=b.span)
    kb = g.get("keyed_poll_next")
    ctx.require(kb is not None, "%s Keyed::poll_next" % gname)
    bi = M.info(kb)
    inner = [s for s in bi.sites if s.callee.name == "poll_next_inner"]
    rets = flow.returned_values(bi)
    ok = len(inner) == 1 and len(rets) == 1 and rets[0][3][0] == "call" and rets[0][3][3] == inner[0].block
    if ok:
        a = inner[0].arg(0)
        ok = a == ("field", SELF, "group")
    ctx.check(ok, rule, kb.def_, "Keyed::poll_next returns the group's poll_next_inner value unchanged", site=kb.span)
    kd = g.get("keyed")
    if kd is not None:
        bi = M.info(kd)
        rets = flow.returned_values(bi)
        ok = len(rets) == 1 and rets[0][3][0] == "agg" and rets[0][3][2] == (SELF,)
        ctx.check(ok, rule, kd.def_, "keyed() wraps the group itself", site=kd.span)
    rule_extend(ctx, M, gname, rule)


def rule_extend(ctx, M, gname, rule):
    """extend / from_iter add every item of the whole iterator through `insert` (which arms the new member)"""
    g = M.groups[gname]
    eb = g.get("extend")
    if eb is not None:
        bi = M.info(eb)
        why = inserts_every_item(bi, SELF, ("param", 2))
        ctx.check(not why, rule, eb.def_, "extend inserts every item of the iterator, once, into this group", site=eb.span, path=why)
    fb = g.get("from_iter")
    if fb is not None:
        bi = M.info(fb)
        rets = flow.returned_values(bi)
        why = []
        if len(rets) != 1 or rets[0][3][0] != "call" or rets[0][3][1][1] not in ("new", "with_capacity", "default") or \
                rets[0][3][1][0] not in ("FutureGroup", "StreamGroup", "Default"):
            why.append("from_iter does not return a freshly constructed group")
        else:
            fresh = rets[0][3]
            ext = [s for s in bi.sites if s.callee.name == "extend" and s.arg(0) == fresh]
            if ext:
                if len(ext) != 1 or ext[0].arg(1) != ("param", 1) or bi.body.innermost_loop(ext[0].block) is not None or \
                        not all(bi.body.dominates(ext[0].block, r_) for r_ in bi.return_blocks):
                    why.append("from_iter does not extend the fresh group with the whole iterator exactly once")
            else:
                why = inserts_every_item(bi, fresh, ("param", 1))
        ctx.check(not why, rule, fb.def_, "from_iter builds a fresh group holding every item of the iterator once", site=fb.span, path=why)


ITER_ADAPTERS = {"into_iter", "by_ref", "fuse", "iter_mut_identity"}


def inserts_every_item(bi, group, it_param):
    """[] when the body inserts every item of iterator parameter `it_param` into `group`, once each; else reasons"""
    ins = [s for s in bi.sites if s.callee.name == "insert" and s.callee.owner in ("FutureGroup", "StreamGroup")]
    if len(ins) != 1 or ins[0].arg(0) != group:
        return ["expected exactly one insert into the group (found %d)" % len(ins)]
    r = scan.loop_item_root(ins[0].arg(1))
    loop = bi.body.innermost_loop(ins[0].block)
    if r is None or loop is None:
        return ["the inserted value is not the item of a loop over the iterator"]
    if ins[0].arg(1) != ("field", ("variant", r, "Some"), 0):
        return ["the inserted value is not the loop item itself"]
    nxt = bi.by_block.get(r[3])
    if nxt is None or nxt.callee.name != "next":
        return ["the loop is not driven by Iterator::next"]
    # the iterator is the whole argument: only identity adapters between the parameter and next()
    it = nxt.arg(0)
    n = 0
    while it[0] == "call" and it[1][1] in ITER_ADAPTERS and it[2] and n < 6:
        it = it[2][0]
        n += 1
    if it != it_param:
        return ["the loop does not iterate the whole argument (%s)" % short(nxt.arg(0))]
    # nothing else consumes items of the iterator
    others = [s for s in bi.sites if s is not nxt and s.callee.name in ("next", "nth", "skip", "step_by", "take", "filter", "last", "next_back", "advance_by", "skip_while", "take_while")
              and s.args and scan.root_call(s.arg(0)) is not None and _peel_iter(s.arg(0)) == it_param]
    if others:
        return ["%s also consumes items of the iterator" % others[0].callee.name]
    se = bi.outcome_edges(nxt, "Some")
    ne = bi.outcome_edges(nxt, "None")
    h = loop[0]
    ok2, bad = bi.must_reach([t for _, t in se], [ins[0].block], [h] + list(bi.return_blocks))
    if not se or not ok2:
        return ["an item of the iterator can reach the next iteration or the return without being inserted"]
    # the loop ends only when the iterator is exhausted
    for rb in bi.return_blocks:
        if not bi.guarded_by(rb, ne):
            return ["the loop can end before the iterator is exhausted"]
    return []


def _peel_iter(t):
    n = 0
    while t[0] == "call" and t[1][1] in ITER_ADAPTERS and t[2] and n < 6:
        t = t[2][0]
        n += 1
    return t


def rule_ctor(ctx, M, gname, rule):
    """with_capacity(c): slab, waker table, state table and the recorded capacity are all sized c, no keys; new() = with_capacity(0)"""
    g = M.groups[gname]
    simple = simple_name(g["adt"])
    for fn in ("with_capacity", "new"):
        b = g.get(fn)
        ctx.require(b is not None, "%s::%s" % (gname, fn))
        bi = M.info(b)
        rets = flow.returned_values(bi)
        view = flow.struct_view(M, rets[0][3], simple, bi=bi) if len(rets) == 1 else None
        probs = []
        if view is None:
            probs.append("does not return one freshly built group")
        else:
            want = ("param", 1) if fn == "with_capacity" else ("const", 0)
            def arg_of(t, keys):
                if t is not None and t[0] == "call" and t[1] in keys:
                    return t[2][0] if t[2] else ("const", 0)
                return None
            sl = arg_of(view.get(slab_field(gname)), (("Slab", "with_capacity"), ("Slab", "new")))
            wk = arg_of(view.get("wakers"), (("WakerVec", "new"),))
            st = arg_of(view.get("states"), (("PollVec", "new"), ("PollVec", "new_pending")))
            cap = view.get("capacity")
            for name, v in (("slab", sl), ("waker table", wk), ("state table", st), ("capacity", cap)):
                if v != want:
                    probs.append("%s is not sized by the requested capacity (%s)" % (name, short(v) if v else None))
            k = view.get("keys")
            if not (k and k[0] == "call" and k[1][1] in ("new", "default")):
                probs.append("the key set does not start empty")
            q = view.get("key_removal_queue")
            if gname == "stream_group" and not (q and q[0] == "call" and q[1][1] in ("new", "default", "new_const")):
                probs.append("the key-removal queue does not start empty")
        ctx.check(not probs, rule, b.def_, "%s(): slab, wakers, states and capacity agree; no keys" % fn, site=b.span, path=probs)



def _closure_body(M, t):
    if t is not None and t[0] == "agg" and isinstance(t[1], tuple) and t[1][0] == "closure":
        return M.by_cdef.get(t[1][1])
    return None


def key_dropping_map(M, bi, inner_site):
    """`self.poll_next_inner(cx).map(|opt| opt.map(|(_key, item)| item))` - the combinator spelling
    of 'forward everything, drop only the key'."""
    rets = flow.returned_values(bi)
    if len(rets) != 1:
        return False
    t = rets[0][3]
    if not (t[0] == "call" and t[1] == ("Poll", "map") and len(t[2]) == 2 and t[2][0] == inner_site.term):
        return False
    c1 = _closure_body(M, t[2][1])
    if c1 is None:
        return False
    r1 = flow.returned_values(M.info(c1))
    if len(r1) != 1:
        return False
    t1 = r1[0][3]
    if not (t1[0] == "call" and t1[1] == ("Option", "map") and len(t1[2]) == 2 and t1[2][0] == ("param", 2)):
        return False
    c2 = _closure_body(M, t1[2][1])
    if c2 is None:
        return False
    r2 = flow.returned_values(M.info(c2))
    return len(r2) == 1 and r2[0][3] == ("field", ("param", 2), 1)


def is_slab_len(t, slab):
    return t is not None and t[0] == "call" and t[1] == ("Slab", "len") and t[2] and t[2][0] == slab


def empty_tests(bi, slab):
    """[(block of the test, edges on which the slab is known to be empty)] for the spellings
    `slab.is_empty()`, `slab.len() == 0`, `slab.len() < 1`, `!(slab.len() > 0)` ..."""
    out = []
    for s in bi.sites:
        if s.key == ("Slab", "is_empty") and s.arg(0) == slab:
            out.append((s.block, bi.outcome_edges(s, True)))
    for e, o, x, y in flow.compare_tests(bi):
        for (xx, yy, oo) in ((x, y, o), (y, x, flow.SWAP[o])):
            if is_slab_len(xx, slab) and yy[0] == "const":
                k = yy[1]
                eds = []
                for op, val in (("Eq", 0), ("Lt", 1), ("Le", 0)):
                    if k == val:
                        if oo == op:
                            eds.append(bi.edge(e, True))
                        elif flow.NEG[oo] == op:
                            eds.append(bi.edge(e, False))
                eds = [x_ for x_ in eds if x_]
                if eds:
                    out.append((e["block"], eds))
    # one test per block (compare_tests lists the unsigned-equivalent spellings of one comparison)
    merged = {}
    for blk, eds in out:
        m = merged.setdefault(blk, [])
        for x_ in eds:
            if x_ not in m:
                m.append(x_)
    return sorted(merged.items())


def rule_empty(ctx, M, u, rule, extra_guards=()):
    bi = u.bi
    slab = sf(slab_field(u.family))
    et = empty_tests(bi, slab)

    class _T:
        pass
    tests = []
    # the emptiness test that counts is the first one: later ones (a `debug_assert!(!futures.is_empty())` after the
    # early return) are dominated by it and decide nothing
    firsts = [x for x in et if all(bi.body.dominates(x[0], y[0]) for y in et)]
    if len(firsts) == 1:
        et = firsts
    for blk, eds in et:
        t_ = _T()
        t_.block = blk
        tests.append(t_)
    ok = len(tests) == 1
    te = et[0][1] if ok else []
    rets = flow.returns_of(bi, "Ready(None)")
    ok = ok and bool(te) and bool(rets)
    if ok:
        # the emptiness test comes first: it dominates every other site that touches the group
        first = tests[0].block
        others = [s.block for s in bi.sites if s.callee.owner in ("WakerVec", "ReadinessVec", "BTreeSet", "PollState") or s.callee.trait in ("Future", "Stream")]
        ok = all(bi.body.dominates(first, x) for x in others)
        okr, bad = bi.must_reach([t for _, t in te], [r[0] for r in rets], bi.return_blocks)
        ok = ok and okr
        for r in rets:
            ok = ok and bi.guarded_by(r[0], list(te) + list(extra_guards))
    ctx.check(ok, rule, u.where, "empty group => Ready(None) at once; Ready(None) only when empty%s" % (" or all members ended in this poll" if extra_guards else ""),
              site=u.body.span)


def rule_poll_shared(ctx, M, u, prefix):
    with ctx.renamed({"C03.GUARD": prefix + ".POLL", "C03.MARK": prefix + ".POLL", "C03.STOP": prefix + ".POLL", "C16.GATE": prefix + ".POLL", "C16.EARLY": prefix + ".POLL",
                      "C01.REARM": prefix + ".POLL"}):
        c03.rule_guard(ctx, u)
        c03.rule_mark(ctx, u)
        c03.rule_stop(ctx, u)
        if M.config == "std":
            c16.rule_gate(ctx, u)
        if u.family == "stream_group":
            c01.rule_rearm(ctx, u)
    # the index polled is drawn from self.keys
    for c in u.cps:
        kind, det = families.loop_domain(u, c)
        ctx.check(kind == "keys" and det == sf("keys"), prefix + ".POLL", u.where, "polled index is drawn from self.keys", site=c.where)
