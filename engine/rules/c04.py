"""C04 — join: waits for all children, each output at its own position, zero inputs resolve at once."""
from ..facts import base
from .. import families
from . import joinlike, flow, c03, c01

PROPERTY = "C04"
LEVEL = "other"
CONFIGS_QUICK = ["std", "alloc", "std-rel"]
CONFIGS_THOROUGH = ["std", "alloc", "core", "std-rel", "alloc-rel", "core-rel"]
EXPLANATION = (
    "Data-flow and counter-discipline rules on the MIR of every join poll body (tuple arities 1-12, array, Vec): (POS) on a "
    "child's Ready edge its payload - and nothing else - is written to the output slot of the same position (tuple field K / "
    "index i), exactly once; the completion value is the positional container of those slots (tuple: position K <- "
    "assume_init(outputs.K) of the swapped-out tuple; array/Vec: items.take(), which returns the storage in place); (CNT) the "
    "completion counter starts at the number of children (resp. 0), changes by exactly one on every child's Ready path and "
    "nowhere else, Ready is returned only under the test counter == 0 (resp. == LEN), and after any child completes that test "
    "is evaluated before Pending can be returned (same-poll completion); (ZERO) abstract evaluation of the array/Vec bodies in "
    "the zero-length world returns Ready without polling; the 0-tuple body is straight-line Ready; (EXT) FutureExt::join "
    "builds (self, other) in that order. Decides the structural causes of the statement, for all arities and all paths; "
    "completion-order independence follows because every write is positional.")
EXPLANATION += (' (CTOR) the entry point stores operand K, converted by into_future only, as the child of position K (tuple field / array or Vec element in order); nothing reorders, drops or duplicates operands on the way.')
EXPLANATION += (' (EXT, surface) no inherent method of a future type of the crate is named `join` (it would win method resolution over FutureExt::join), and no body moves a field out of a by-value future / stream combinator.')
ASSUMPTIONS = [
    "each child completes at most once (C03.GUARD/MARK) so counter == 0 <=> all children resolved",
    "MaybeUninit / mem::swap / array iteration behave per core docs",
]
RULES = {
    "C04.CTOR": "entry point: every operand becomes the child of its own position, converted by into_future / into_stream only; nothing reorders, drops or duplicates operands",
    "C04.LIVE": "premises from the wake protocol, re-checked here for this family: task waker registered first, child polled with its own sub-waker (or the caller's context), no readiness lock across a child poll, a cleared bit is followed by a poll, re-arm after an item, readiness primitives / Wake::wake forward correctly",
    "C04.POS": "child's Ready payload is written exactly once, to the slot of the child's own position; result container is positional",
    "C04.CNT": "counter: correct initial value, +-1 exactly once per child completion and nowhere else; Ready only under the completion test; test evaluated after any completion before Pending",
    "C04.ONCE": "premise of the counter argument: a child is polled only while its slot says Pending and is marked Ready in the poll in which it resolves (so it is counted exactly once)",
    "C04.ZERO": "zero-length world (array, Vec) returns Ready without polling; join of () is straight-line Ready",
    "C04.EXT": "FutureExt::join(self, other) = Join::join((self, other))",
}


def run(ctx):
    for rid, text in RULES.items():
        ctx.rule(rid, text)
    for cfg in ctx.configs:
        ctx.current_config = cfg
        M = ctx.model(cfg)
        units = families.subwaker_units(M, ("join",), groups=False)
        c01.live_premises(ctx, M, units, "C04.LIVE")
        from . import ctors
        ctors.run_family(ctx, M, units, "C04.CTOR", cfg)
        for u in units:
            joinlike.rule_pos(ctx, M, u, "C04.POS")
            joinlike.rule_result(ctx, M, u, "C04.POS")
            joinlike.rule_cnt(ctx, M, u, "C04.CNT")
            flow.rule_integrity(ctx, u.bi, "C04.POS", u.where, ("Ready",), "the joined output")
            with ctx.renamed({"C03.GUARD": "C04.ONCE", "C03.MARK": "C04.ONCE"}):
                c03.rule_guard(ctx, u)
                c03.rule_mark(ctx, u)
            if u.container in ("array", "vec"):
                joinlike.rule_zero(ctx, M, u, "C04.ZERO", ("Ready",))
        joinlike.rule_take_util(ctx, M, "C04.POS")
        from . import c02
        with ctx.renamed({"C02.UTIL": "C04.POS"}):
            c02.rule_util(ctx, M)
        joinlike.rule_zero_tuple0(ctx, M, "join", "C04.ZERO", "Ready")
        n = joinlike.rule_ext(ctx, M, "future::futures_ext::FutureExt", "join", "join", "C04.EXT")
        ctx.require(n >= 1, "FutureExt::join")
        na = 1 if base(cfg) == "core" else 2
        ctx.floor("C04.POS", cfg, 78 + na + 12 + na)
        ctx.floor("C04.CNT", cfg, 2 * (78 + na) + 3 * (12 + na))
        ctx.floor("C04.ZERO", cfg, na + 1)
    return {}
