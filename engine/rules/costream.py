"""Concurrent-stream coroutine helpers: await recognition in pre-borrowck coroutine MIR, and the
rules about FromStream::drive shared by C03 / C13 / C14 / C15."""
from .. import scan
from ..sites import FUTURE, STREAM
from ..terms import simple_name, term_str, subterms
from . import common


class Await:
    def __init__(self, bi, site):
        self.bi = bi
        self.site = site
        self.block = site.block
        self.fut = site.arg(0)        # term of the awaited future (into_future is transparent)
        self.ready = bi.outcome_edges(site, "Ready")
        self.pending = bi.outcome_edges(site, "Pending")

    @property
    def kind(self):
        """(owner-or-trait, method) of the call that produced the awaited future, if any."""
        t = self.fut
        if t is not None and t[0] == "call":
            return t[1]
        return None

    @property
    def call_args(self):
        t = self.fut
        return t[2] if t is not None and t[0] == "call" else ()

    @property
    def call_block(self):
        t = self.fut
        return t[3] if t is not None and t[0] == "call" else None

    @property
    def value(self):
        """term of the awaited value"""
        return ("field", ("variant", self.site.term, "Ready"), 0)

    @property
    def where(self):
        return self.site.where


def awaits(bi):
    """Every compiler-generated await in a coroutine body: Future::poll sites whose context is
    get_context(resume arg)."""
    cached = getattr(bi, "_awaits", None)
    if cached is not None:
        return cached
    out = []
    for s in bi.all_polls():
        if s.callee.name != "poll":
            continue
        out.append(Await(bi, s))
    bi._awaits = out
    return out


def awaits_of(bi, method, owner=None):
    return [a for a in awaits(bi) if a.kind is not None and a.kind[1] == method and (owner is None or a.kind[0] == owner)]


def nested_coroutines(M, bi):
    """(block, cpath, Body) for every coroutine/closure aggregate constructed in this body."""
    out = []
    body = bi.body
    for b in sorted(body.reachable):
        if body.is_cleanup(b):
            continue
        for s in body.stmts(b):
            if s["k"] == "assign" and s["rv"]["k"] == "agg" and s["rv"].get("ak") in ("coroutine", "closure"):
                cp = s["rv"]["cpath"]
                nb = M.by_cdef.get(cp)
                out.append((b, cp, nb, s))
    return out


def body_calls(M, body, method, owner=None):
    bi = M.info(body)
    return [s for s in bi.sites if s.callee.name == method and (owner is None or s.callee.owner == owner or s.callee.trait == owner)]


def source_next_points(M, bi):
    """Blocks at which the source stream is asked for its next item: awaits of StreamExt::next in
    this body, and construction sites of nested async blocks that contain such a call."""
    pts = []
    for a in awaits_of(bi, "next"):
        pts.append((a.block, a.where, "iter.next().await"))
    for s in bi.sites:
        if s.callee.name == "next" and s.callee.trait in ("StreamExt",) or (s.callee.name == "next" and s.callee.key[0] == "StreamExt"):
            pts.append((s.block, s.where, "iter.next()"))
    for b, cp, nb, st in nested_coroutines(M, bi):
        if nb is not None and body_calls(M, nb, "next"):
            if any(c.callee.key[0] in ("StreamExt",) or c.callee.trait == "StreamExt" for c in body_calls(M, nb, "next")):
                pts.append((b, st.get("sp", ""), "async block polling iter.next()"))
    return pts


def source_option_terms(M, bi):
    """Terms denoting an `Option<Item>` freshly obtained from the source in this body: the value of
    `iter.next().await` and the `State::Item(..)` payload of the race result."""
    out = []
    for a in awaits_of(bi, "next"):
        out.append((a.value, a.where + " iter.next().await"))
    for a in awaits_of(bi, "race"):
        out.append((("field", ("variant", a.value, "Item"), 0), a.where + " race result State::Item(..)"))
    return out


def source_option_switches(M, bi):
    """[(switch entry, [covered source terms])]: discriminant switches on a source option, directly
    or through a local every definition of which is a source option (`let next_item = match .. {..}`)."""
    srcs = [t for t, _ in source_option_terms(M, bi)]
    out = []
    body = bi.body
    for e in bi.switches:
        if e["kind"] != "discr":
            continue
        s = e["subject"]
        if s in srcs:
            out.append((e, [s]))
        elif s[0] == "phi":
            ds = []
            for d in body.defs.get(s[1], []):
                if d[0] in body.reachable and not body.is_cleanup(d[0]):
                    ds.append(bi.T._of_def(s[1], d, 1))
            if ds and all(d in srcs for d in ds):
                out.append((e, ds))
    return out


def item_edges_of_source(M, bi):
    """[(Some edges, payload term, description)]"""
    out = []
    for e, cov in source_option_switches(M, bi):
        ed = bi.edge(e, "Some")
        if ed:
            out.append(([ed], ("field", ("variant", e["subject"], "Some"), 0), bi.describe(e["block"])))
    return out


def none_edges_of_source(M, bi):
    """Edges on which the source was observed to have ended."""
    edges = []
    for e, cov in source_option_switches(M, bi):
        ed = bi.edge(e, "None")
        if ed:
            edges.append((ed, "source returned None (%s)" % bi.describe(e["block"])))
    return edges


def uncovered_source_options(M, bi):
    cov = []
    for e, c in source_option_switches(M, bi):
        cov += c
    return [w for t, w in source_option_terms(M, bi) if t not in cov]


def flush_points(bi):
    return [s for s in bi.sites if s.callee.name == "flush" and s.callee.trait == "Consumer"]


class SendPoint:
    """A place where an item future is handed to the consumer: `consumer.send(fut)` itself, or a call of
    a crate-local `async fn` wrapper whose body does exactly one `consumer.send(ready(item)).await` on
    its own parameters (the drive loop's send/match block moved into a helper)."""

    def __init__(self, site, consumer, item_future, wrapper=None):
        self.site = site
        self.block = site.block
        self.where = site.where
        self.consumer = consumer
        self.item_future = item_future     # term of the future handed over
        self.wrapper = wrapper             # None | {"break_when": True/False/None}

    def arg(self, i):
        return (self.consumer, self.item_future)[i] if i < 2 else None


def send_points(bi, M=None):
    out = []
    for s in bi.sites:
        if s.callee.name == "send" and s.callee.trait == "Consumer":
            out.append(SendPoint(s, s.arg(0), s.arg(1)))
        elif M is not None and s.callee.local and not s.callee.indirect and s.callee.trait is None:
            fn_body = M.by_cdef.get(s.callee.cpath)
            co = M.coroutine_of(fn_body) if fn_body is not None else None
            if co is None:
                continue
            ci = M.info(co)
            inner = [x for x in ci.sites if x.callee.name == "send" and x.callee.trait == "Consumer"]
            aw = awaits(ci)
            if len(inner) != 1 or len(aw) != 1 or aw[0].fut is None or aw[0].fut[0] != "call" or aw[0].fut[3] != inner[0].block:
                continue
            # upvars of the wrapper coroutine are the wrapper's parameters in order
            def up(t):
                return t[2] if t is not None and t[0] == "field" and t[1] == ("param", 1) and isinstance(t[2], int) else None
            ck = up(inner[0].arg(0))
            fut = inner[0].arg(1)
            ik = None
            if fut is not None and fut[0] == "call" and fut[1][1] == "ready" and fut[2]:
                ik = up(fut[2][0])
            if ck is None or ik is None or ck >= len(s.args) or ik >= len(s.args):
                continue
            # result: `matches!(.., ConsumerState::Break)` -> bool
            brk = None
            from . import flow as _flow
            rv = _flow.returned_values(ci)
            val = aw[0].value
            for e in ci.switches:
                if e["kind"] == "discr" and e["subject"] == val and ci.edge(e, "Break"):
                    be = ci.edge(e, "Break")
                    trues = [b for b, k, p, t in rv if t == ("const", 1)]
                    falses = [b for b, k, p, t in rv if t == ("const", 0)]
                    if trues and all(ci.guarded_by(b, [be]) for b in trues) and falses and not any(ci.guarded_by(b, [be]) for b in falses):
                        brk = True
            item_t = s.arg(ik)
            out.append(SendPoint(s, s.arg(ck), ("call", ("core::future::ready", "ready"), (item_t,), s.block), wrapper={"break_when": brk}))
    return out


def check_drive_src(ctx, M, drive_body, rule):
    bi = M.info(drive_body)
    nxt = source_next_points(M, bi)
    ne = none_edges_of_source(M, bi)
    fl = flush_points(bi)
    ctx.require(len(nxt) >= 2 and len(ne) >= 1 and len(fl) >= 1, "drive: source-next points (%d), None edges (%d), flush (%d)" % (len(nxt), len(ne), len(fl)))
    unc = uncovered_source_options(M, bi)
    ctx.check(not unc, rule, drive_body.def_, "every Option taken from the source is matched on Some / None", site=drive_body.span, path=unc)
    nxt_blocks = {b for b, _, _ in nxt}
    for ed, what in ne:
        r = bi.reach_from_edges([ed])
        hit = sorted(nxt_blocks & r)
        ctx.check(not hit, rule, drive_body.def_, "source not polled again after %s" % what, site=bi.describe(ed[0]),
                  path=common.fmt_blocks(bi, hit))
        ok, bad = bi.must_reach([ed[1]], [s.block for s in fl], bi.return_blocks)
        ctx.check(ok, rule, drive_body.def_, "flush is reached after %s" % what, site=bi.describe(ed[0]),
                  path=common.fmt_blocks(bi, bad))


# ------------------------------------------------------------------------------------------------
# shared vocabulary for C13 / C14 / C15
# ------------------------------------------------------------------------------------------------

def cfield(name):
    """`self.<name>` inside an `async fn(self: Pin<&mut Self>, ..)` coroutine: upvar 0 of the state"""
    return ("field", ("field", ("param", 1), 0), name)


def cupvar(n):
    return ("field", ("param", 1), n)


def consumer(M, name):
    ent = M.consumers.get(name)
    return ent


def group_next_awaits(bi, field="group"):
    """awaits of `self.group.next()`"""
    out = []
    for a in awaits(bi):
        if a.kind is not None and a.kind[1] == "next" and a.call_args and a.call_args[0] == cfield(field):
            out.append(a)
    return out


def await_value_tests(bi, a, pred_owner="Option"):
    """(edges where the awaited value is Some, edges where it is None)"""
    site = a.site
    some = bi.outcome_edges(site, "Ready", "Some")
    none = bi.outcome_edges(site, "Ready", "None")
    return some, none


def drain_loops_exit_only_on_none(ctx, bi, rule, where, what, field="group"):
    """every return of the body is reached only through the None edge of a `group.next().await`"""
    aw = group_next_awaits(bi, field)
    nones = []
    for a in aw:
        s, n = await_value_tests(bi, a)
        nones += n
    rets = bi.return_blocks
    ok = bool(aw) and bool(nones) and all(bi.guarded_by(r, nones) for r in rets)
    ctx.check(ok, rule, where, what, site=bi.body.span, sample={"awaits": [a.where for a in aw]})
    return aw


def fn_calls(bi):
    """closure invocations `(self.f)(x)`: Fn/FnMut/FnOnce::call* sites"""
    return [s for s in bi.sites if s.callee.trait in ("Fn", "FnMut", "FnOnce") and s.callee.name in ("call", "call_mut", "call_once")]


_HELPER_VIEWS = {}


def helper_view(M, bi, a):
    """BodyInfo of the private `async fn` whose future await `a` awaits, expressed in the caller's terms: the helper's
    k-th parameter (upvar k of its coroutine) reads as the k-th argument of the call.  None if `a` awaits something else."""
    from ..sites import BodyInfo
    t = a.fut
    if t is None or t[0] != "call" or len(t) < 4:
        return None
    site = bi.by_block.get(t[3])
    if site is None or site.callee.indirect or not site.callee.local:
        return None
    fn_body = M.by_cdef.get(site.callee.cpath)
    co = M.coroutine_of(fn_body) if fn_body is not None else None
    if co is None:
        return None
    key = (id(M), co.def_, tuple(t[2]))
    v = _HELPER_VIEWS.get(key)
    if v is None:
        v = BodyInfo(co, subst={k: arg for k, arg in enumerate(t[2])})
        _HELPER_VIEWS[key] = v
    return v


def effective_body(M, bi):
    """If an async body does nothing but `<local async helper>(..).await` (a drain loop moved into a private `async fn`),
    analyse the helper's coroutine instead, with its parameters read as the arguments it was given."""
    aw = awaits(bi)
    if len(aw) != 1 or group_next_awaits(bi):
        return bi
    a = aw[0]
    hv = helper_view(M, bi, a)
    if hv is None:
        return bi
    # the caller must do nothing else of substance: every return follows the awaited helper
    ready = bi.outcome_edges(a.site, "Ready")
    if not ready or not all(bi.guarded_by(r, ready) for r in bi.return_blocks):
        return bi
    return hv
