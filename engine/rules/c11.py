"""C11 — FutureGroup: each member's output yielded exactly once; the set view is always exact."""
from .. import scan, families
from ..families import short
from . import grouplike, flow, common
from .grouplike import sf

PROPERTY = "C11"
LEVEL = "other"
CONFIGS_QUICK = ["std", "alloc", "std-rel"]
CONFIGS_THOROUGH = ["std", "alloc", "std-rel", "alloc-rel"]
EXPLANATION = (
    "Inductive-invariant check on the MIR of FutureGroup: every mutator and the poll body preserve the representation invariant "
    "REP: keys = occupied slab slots = {i | states[i] = Pending}, capacity = |states| = |wakers| > every live key; the observers "
    "read REP faithfully. (INSERT) grow-if-full dominates the slab insert; the slab key k then goes to keys.insert(k), "
    "states[k] := Pending, readiness.set_ready(k) and the returned Key(k) on every path; (RESERVE) no-op only when len + additional "
    "< capacity, otherwise wakers, states and capacity all become capacity + additional (capacity is monotone); (REMOVE) key, state "
    "and slab entry are deleted together iff the key was present, nothing else is touched; (DONE) on a member's Ready edge: "
    "states[i] := None, slab.remove(i) exactly once, the yielded value is Ready(Some((Key(i), that payload))), the scan stops, and "
    "keys.remove(<key of the yielded pair>) is reached before the return; (EMPTY) the emptiness test comes first and Ready(None) is "
    "returned exactly on its true edge; (VIEW) len/is_empty/contains_key/capacity read slab/keys/capacity; Stream::poll_next only "
    "drops the key; Keyed::poll_next forwards unchanged; extend inserts every item; (POLL) a member is polled only if Pending and "
    "armed, with an index drawn from keys. The history-level statement follows by induction over operations; it is not enumerated.")
EXPLANATION += (" (CTOR) with_capacity / new build slab, waker table, state table and capacity consistently; insert_pinned (checked only while it has a caller; crate-private) does the same bookkeeping as insert after growing both tables to the slab's capacity; extend / from_iter insert every item of the whole iterator exactly once.")
ASSUMPTIONS = [
    "slab::Slab: keys of live entries are distinct and insert returns a key <= len before the insert; BTreeSet is a set (library models)",
    "the induction over operation histories is a paper argument from the per-operation obligations checked here",
]
RULES = {
    "C11.LIVE": "premises from the wake protocol, re-checked here for this family: task waker registered first, child polled with its own sub-waker (or the caller's context), no readiness lock across a child poll, a cleared bit is followed by a poll, re-arm after an item, readiness primitives / Wake::wake forward correctly",
    "C11.INSERT": "insert: growth test dominates the slab insert; key/state/arm/return all use the slab key",
    "C11.RESERVE": "reserve: no-op iff len+additional < capacity; else wakers, states, capacity := capacity+additional",
    "C11.REMOVE": "remove: key, state None and slab entry together iff present; returns presence",
    "C11.DONE": "member Ready => state None, slab.remove once, yields (Key(i), payload), scan stops, key removed before return",
    "C11.EMPTY": "is_empty first; Ready(None) exactly when empty",
    "C11.CTOR": "with_capacity(c): slab, waker table, state table and recorded capacity all sized c, key set empty; new() = with_capacity(0)",
    "C11.VIEW": "observers and front-ends read the representation faithfully",
    "C11.POLL": "member polled only if Pending and armed; index from keys; finishing mark; stop after a yield",
}


def run(ctx):
    for rid, text in RULES.items():
        ctx.rule(rid, text)
    for cfg in ctx.configs:
        ctx.current_config = cfg
        M = ctx.model(cfg)
        gname = "future_group"
        grouplike.rule_insert(ctx, M, gname, "C11.INSERT")
        grouplike.rule_insert_pinned(ctx, M, gname, "C11.INSERT")
        grouplike.rule_reserve(ctx, M, gname, "C11.RESERVE")
        grouplike.rule_remove(ctx, M, gname, "C11.REMOVE")
        grouplike.rule_view(ctx, M, gname, "C11.VIEW")
        grouplike.rule_ctor(ctx, M, gname, "C11.CTOR")
        u = grouplike.group_unit(M, gname)
        ctx.require(u is not None, "FutureGroup::poll_next_inner")
        grouplike.rule_empty(ctx, M, u, "C11.EMPTY")
        rule_done(ctx, M, u)
        grouplike.rule_poll_shared(ctx, M, u, "C11")
        from . import c01
        c01.live_premises(ctx, M, [u], "C11.LIVE")
        ctx.floor("C11.VIEW", cfg, 7)
        ctx.floor("C11.DONE", cfg, 2)
        ctx.floor("C11.POLL", cfg, 4)
    return {}


def premises(ctx, M, rule_id):
    """What the concurrent-stream consumers rely on when they park their futures in a FutureGroup: insert_pinned
    registers the future completely, the group polls every armed member, yields each output exactly once, reports
    None only when empty - re-checked under the dependent property's own rule id."""
    gname = "future_group"
    with ctx.renamed({"C11.*": rule_id}):
        grouplike.rule_insert_pinned(ctx, M, gname, "C11.INSERT")
        grouplike.rule_ctor(ctx, M, gname, "C11.CTOR")
        u = grouplike.group_unit(M, gname)
        ctx.require(u is not None, "FutureGroup::poll_next_inner")
        grouplike.rule_empty(ctx, M, u, "C11.EMPTY")
        rule_done(ctx, M, u)
        grouplike.rule_poll_shared(ctx, M, u, "C11")
        grouplike.rule_view(ctx, M, gname, "C11.VIEW")
    from . import c01
    c01.live_premises(ctx, M, [u], rule_id)


def rule_done(ctx, M, u):
    bi = u.bi
    slab = sf("futures")
    ctx.require(len(u.cps) >= 1, "FutureGroup::poll_next_inner child poll (found %d)" % len(u.cps))
    if len(u.cps) != 1:
        # a second poll site (a "lone member" fast path) is outside the one gated scan the bookkeeping is defined for
        ctx.fail("C11.POLL", u.where, "members are polled at %d sites; every member poll must be the gated scan site" % len(u.cps), site=u.cps[1].where)
    c = u.cps[0]
    re = bi.outcome_edges(c.site, "Ready")
    header, exits = common.loop_exits(bi, c.block)
    probs = []
    if not re:
        probs.append("no Ready edge")
    st = [b for b, variant, idx, base, w in scan.state_sets(bi) if variant == "None" and idx == c.idx]
    sr = [s.block for s in bi.sites if s.key == ("Slab", "remove") and s.arg(0) == slab and s.arg(1) == c.idx]
    all_sr = [s.block for s in bi.sites if s.callee.owner == "Slab" and s.callee.name in ("remove", "try_remove", "clear")]
    for name, blocks in (("states[i] := None", st), ("slab.remove(i)", sr)):
        for p in flow.once_on_paths(bi, [t for _, t in re], blocks, exits + [x for x in bi.return_blocks]):
            probs.append("%s: %s" % (name, p))
    if set(all_sr) != set(sr) or not all(bi.guarded_by(x, re) for x in sr):
        probs.append("a slab entry is removed elsewhere than on the member's own Ready edge")
    # yielded value
    want = ("agg", ("Option", "Some"), (("agg", "tuple", (("agg", ("Key", "Key"), (c.idx,)), ("field", ("variant", c.site.term, "Ready"), 0))),))
    yields = [r for r in flow.returned_values(bi) if r[1] == "Ready(Some)"]
    good = [r for r in yields if flow.refine(bi, r[3]) == ("agg", ("Poll", "Ready"), (want,))]
    if len(yields) != 1 or len(good) != 1:
        probs.append("the yielded value is not Ready(Some((Key(i), the member's own output)))")
    else:
        yb = good[0][0]
        if not bi.guarded_by(yb, re):
            probs.append("a value is yielded without the member having resolved")
        okm, bad = bi.must_reach([t for _, t in re], [yb], exits)
        if not okm:
            probs.append("a resolved member's output is not stored for return on every path")
        # scan stops
        r2 = bi.reach_from_edges(re)
        if c.block in r2 or (header is not None and header in r2):
            probs.append("the scan continues after a member resolved (its output could be overwritten)")
    # key removal before the return
    kr = [s for s in bi.sites if s.key == ("BTreeSet", "remove") and s.arg(0) == sf("keys")]
    okk = False
    for s in kr:
        a = s.arg(1)
        blk, path = flow.payload_source(a)
        # key taken from the value about to be returned: ret@Ready.0@Some.0 .0 (pair) .0 (Key)
        t = a
        chain = []
        while t[0] in ("field", "variant"):
            chain.append((t[0], t[2]))
            t = t[1]
        chain = tuple(reversed(chain))
        if t[0] == "phi" and chain == (("variant", "Ready"), ("field", 0), ("variant", "Some"), ("field", 0), ("field", 0), ("field", 0)):
            rets = [x for x in bi.assigns_to_return() if x[2].get("k") == "use"]
            same = all(bi.T.of_rvalue(x[2], 0) == t for x in rets) and bool(rets)
            okm, bad = bi.must_reach([t2 for _, t2 in re], [s.block], bi.return_blocks)
            if not okm and len(good) == 1:
                # path sensitivity: after `ret := Ready(Some(..))` (and no later write to ret) the
                # `if let Ready(Some(..)) = ret` test can only take its Ready / Some edges
                yb = good[0][0]
                infeasible = flow.edges_contradicting(bi, t, yb, ("Ready", "Some"))
                r3 = bi.reach_from_edges(re, avoid_blocks=[s.block], stop_blocks=bi.return_blocks, avoid_edges=infeasible)
                okm = bool(infeasible) and not any(x in r3 for x in bi.return_blocks)
            okk = okk or (same and okm)
        elif a == c.idx and bi.guarded_by(s.block, re):
            okm, bad = bi.must_reach([t2 for _, t2 in re], [s.block], bi.return_blocks)
            okk = okk or okm
        elif flow.refine(bi, a) == c.idx and len(good) == 1:
            # the key is read back from a carrier (`completed = Some((Key(i), item))`; `match completed { Some((key, _))`):
            # removed on every path from the carrier's Some arm, which is where the value is yielded
            okm = bi.body.dominates(s.block, good[0][0]) or bi.must_reach([good[0][0]], [s.block], bi.return_blocks)[0]
            okk = okk or okm
    if not okk:
        probs.append("the key of the yielded member is not removed from `keys` before the return")
    if probs:
        for p in sorted(set(probs)):
            ctx.fail("C11.DONE", u.where, p, site=c.where)
    else:
        ctx.ok("C11.DONE", u.where, "member Ready => state None, slab.remove(i) once, yields (Key(i), output), scan stops, key removed")
    flow.rule_integrity(ctx, bi, "C11.DONE", u.where, ("Ready(Some)",), "the yielded (key, output) pair")
