"""C02 — exactly-once ownership: typestate discipline on the unsafe storage schemes (join, try_join,
zip, race_ok), destructor agreement, hand-off on completion, who-may-touch audit, ownership audit."""
from ..facts import base
from .. import scan, families
from ..families import short, self_path, sub_struct_pos
from ..sites import is_agg, peel_type
from . import flow
from ..terms import simple_name, subterms
from . import common, prims

PROPERTY = "C02"
LEVEL = "other"
CONFIGS_QUICK = ["std", "alloc", "std-rel"]
CONFIGS_THOROUGH = ["std", "alloc", "core", "std-rel", "alloc-rel", "core-rel"]
EXPLANATION = (
    "Typestate analysis of the slot invariant (Pending <=> child live & output uninit; Ready <=> child dropped & output init; "
    "None <=> neither) on the MIR of every poll body and PinnedDrop body that owns ManuallyDrop / MaybeUninit storage, for all "
    "tuple arities, array and Vec: (TRANS) on a child's Ready[/Ok] edge: output written, then state set Ready, then child "
    "dropped - each exactly on that child's index, in an order that stays correct if the next call unwinds; on try_join's Err "
    "edge: state set None before the child is dropped and nothing is written; (QUIET) no slot of child i is touched before "
    "child i's poll returned Ready; (DROP) destructors drop outputs exactly of Ready slots and children exactly of Pending "
    "slots, same index; (HANDOFF) before/with moving the outputs out, all slots are reset so the destructor will not touch "
    "them again, and the returned aggregate is positional; (ZIP)/(RACEOK) the same for zip rows and race_ok error slots; "
    "(WHO) unsafe storage operations occur only in the owning poll/drop bodies and the utils wrappers; (OWN) children are held "
    "by value in owned containers, never behind Rc/Arc/raw pointers/leaks. Decides the typestate protocol, not a schedule "
    "enumeration.")
EXPLANATION += (" (ZIP/DROP, loops) the destructor's drop loops are left only through the exhaustion of their iterator (an early return at the first slot that needs no dropping would leak the later ones); (UTIL) vec_assume_init reinterprets its argument in place.")
ASSUMPTIONS = [
    "pin-project's projection is a field access; ManuallyDrop/MaybeUninit behave per core docs",
    "user Drop impls that panic during the combinator's own destructor are out of scope",
    "slab / Vec / FuturesUnordered drop every element they own exactly once",
]
RULES = {
    "C02.TRANS": "join/try_join: Ready[/Ok] edge => OUT_WRITE(i) < STATE_SET(Ready)(i) < CHILD_DROP(i), once each, same child; try_join Err: STATE_SET(None)(i) < CHILD_DROP(i), no OUT_WRITE",
    "C02.QUIET": "slot writes / state sets / child drops of child i are reachable only through child i's Ready edge",
    "C02.DROP": "destructor: OUT_DROP(i) iff is_ready(i), CHILD_DROP(i) iff is_pending(i), one pair per child",
    "C02.HANDOFF": "completion: take the outputs exactly once, reset every slot state, positional result",
    "C02.ZIP": "zip: write-before-state on Some; row taken only under all_ready with states reset; None edge takes nothing; destructor drops Ready slots",
    "C02.RACEOK": "race_ok: Err => slot write, counter+1, state Ready on the same index; aggregate taken only when all failed, states reset; destructor drops Ready slots",
    "C02.POLLDROP": "an output slot dropped in place inside a poll body is marked not-Ready before the poll returns (else the destructor drops it again)",
    "C02.WHO": "unsafe storage operations only in the owning poll/drop bodies, constructors and utils wrappers",
    "C02.OWN": "every child-typed field is an owned container (no Rc/Arc/raw pointer/reference between combinator and child); ADTs with ManuallyDrop/MaybeUninit storage have a destructor",
    "C02.UTIL": "utils wrappers (FutureArray/FutureVec::drop, Output*::write/drop/take, indexes helpers) act on the index they are given",
}


def run(ctx):
    for rid, text in RULES.items():
        ctx.rule(rid, text)
    for cfg in ctx.configs:
        ctx.current_config = cfg
        M = ctx.model(cfg)
        from . import c03
        for u in families.subwaker_units(M, ("join", "try_join"), groups=False):
            rule_trans(ctx, M, u)
            rule_handoff(ctx, M, u)
            rule_drop(ctx, M, u)
            # a child whose slot already holds its value is not polled again (the new value would overwrite - leak -
            # the stored one, or a dropped child would be touched)
            with ctx.renamed({"C03.GUARD": "C02.QUIET"}):
                c03.rule_guard(ctx, u)
        for u in families.subwaker_units(M, ("zip",), groups=False):
            rule_zip(ctx, M, u)
            with ctx.renamed({"C03.GUARD": "C02.ZIP"}):
                c03.rule_guard(ctx, u)
        for u in families.passthrough_units(M, ("race_ok",)):
            if u.container != "vec":
                rule_raceok(ctx, M, u)
                with ctx.renamed({"C03.GUARD": "C02.RACEOK"}):
                    c03.rule_guard(ctx, u)
        for u in families.subwaker_units(M, ("join", "try_join", "zip"), groups=False) + [
                x for x in families.passthrough_units(M, ("race_ok",)) if x.container != "vec"]:
            rule_polldrop(ctx, M, u)
        rule_who(ctx, M)
        rule_own(ctx, M)
        rule_util(ctx, M)
        na = 1 if base(cfg) == "core" else 2
        ctx.floor("C02.TRANS", cfg, 2 * 78 + 2 * na)
        ctx.floor("C02.DROP", cfg, 2 * 78 + 2 * na)
        ctx.floor("C02.HANDOFF", cfg, 2 * 12 + 2 * na)
        ctx.floor("C02.ZIP", cfg, 78 + na)
        ctx.floor("C02.RACEOK", cfg, 78 + 1)
    return {}


# ------------------------------------------------------------------------------------------------
# slot vocabulary
# ------------------------------------------------------------------------------------------------

def slot_writes(bi):
    """(block, slot term, idx term or None, value term, where) for every write of an output slot:
    MaybeUninit::write(slot, v), Output{Array,Vec}::write(items, i, v), `slot = MaybeUninit::new(v)`."""
    cached = getattr(bi, "_slot_writes", None)
    if cached is not None:
        return cached
    out = []
    for s in bi.sites:
        if s.key == ("MaybeUninit", "write"):
            out.append((s.block, s.arg(0), None, s.arg(1), s.where))
        elif s.callee.owner in ("OutputArray", "OutputVec") and s.callee.name == "write":
            out.append((s.block, s.arg(0), s.arg(1), s.arg(2), s.where))
    body = bi.body
    for b in sorted(body.reachable):
        if body.is_cleanup(b):
            continue
        for st in body.stmts(b):
            if st["k"] != "assign" or not st["lhs"]["p"]:
                continue
            v = bi.T.of_rvalue(st["rv"], 0)
            if v[0] == "call" and v[1] == ("MaybeUninit", "new"):
                slot = bi.T.of_place(st["lhs"])
                out.append((b, slot, None, v[2][0] if v[2] else None, st.get("sp", "")))
    bi._slot_writes = out
    return out


def slot_is_child(M, u, c, slot, idx, block=None):
    """Does this slot belong to the child polled at c?"""
    if idx is not None:
        return common.same_index(u, c, idx, block)
    if slot is None:
        return False
    if slot[0] == "index":
        return common.same_index(u, c, slot[2], block)
    sp = self_path(slot)
    if sp is not None and c.pos is not None and u.member is not None:
        return sub_struct_pos(M, u.member, sp) == c.pos
    # component of the same loop item as the child (race_ok/array)
    r1 = scan.loop_item_root(slot)
    r2 = scan.loop_item_root(c.child)
    return r1 is not None and r1 == r2


def child_drops(bi):
    return [s for s in bi.sites if s.key == ("ManuallyDrop", "drop")]


def state_sets_for(M, u, c, variants):
    out = []
    for b, variant, idx, base, where in scan.state_sets(u.bi):
        if variant in variants:
            if common.same_index(u, c, idx, b):
                out.append(b)
            else:
                s = u.bi.by_block.get(b)
                if s is not None and idx is None:
                    r1 = scan.loop_item_root(s.arg(0))
                    r2 = scan.loop_item_root(c.child)
                    if r1 is not None and r1 == r2:
                        out.append(b)
    return out


def ordered(bi, starts, seq, exits, avoid_edges=()):
    """Every path from `starts` meets the block sets of `seq` in that order before any exit:
    must-reach each in turn, and a later set is not reachable while an earlier one is avoided."""
    problems = []
    for i, (name, blocks) in enumerate(seq):
        if not blocks:
            problems.append("no %s site" % name)
            continue
        ok, bad = bi.must_reach(starts, blocks, exits)
        if not ok:
            # retry with arm pruning
            r = bi.body.reach(starts, avoid_blocks=blocks, stop_blocks=exits, avoid_edges=avoid_edges)
            if any(b in r for b in exits):
                problems.append("%s is not reached on every path" % name)
        for j in range(i + 1, len(seq)):
            later = seq[j][1]
            r = bi.body.reach(starts, avoid_blocks=blocks, stop_blocks=exits, avoid_edges=avoid_edges)
            if any(b in r for b in later):
                problems.append("%s can happen before %s" % (seq[j][0], name))
    return problems


# ------------------------------------------------------------------------------------------------

def rule_trans(ctx, M, u):
    bi = u.bi
    for c in u.cps:
        header, exits = common.loop_exits(bi, c.block)
        avoid = common.arm_feasible_avoid(u, c)
        ok_lab = ("Ready", "Ok") if u.family == "try_join" else ("Ready",)
        edges = bi.outcome_edges(c.site, *ok_lab)
        if not edges:
            ctx.fail("C02.TRANS", u.where, "no %s edge for %s" % ("/".join(ok_lab), c.label), site=c.where)
            continue
        W = [b for b, slot, idx, v, w in slot_writes(bi) if slot_is_child(M, u, c, slot, idx, b)]
        S = state_sets_for(M, u, c, ("Ready",))
        D = [s.block for s in child_drops(bi) if s.arg(0) == c.child]
        starts = [t for _, t in edges]
        # restrict to the Ok region: sites guarded by this edge
        Wr = [b for b in W if bi.guarded_by(b, edges)]
        Sr = [b for b in S if bi.guarded_by(b, edges)]
        Dr = [b for b in D if bi.guarded_by(b, edges)]
        probs = ordered(bi, starts, [("output write", Wr), ("state:=Ready", Sr), ("child drop", Dr)], exits, avoid)
        if len(Wr) > 1 or len(Sr) > 1 or len(Dr) > 1:
            probs.append("more than one write/state/drop site for the child on its Ready path")
        # payload flows into the slot
        payload_ok = False
        for b, slot, idx, v, w in slot_writes(bi):
            if b in Wr and v is not None:
                root = v
                while root[0] in ("field", "variant"):
                    root = root[1]
                payload_ok = payload_ok or (root[0] == "call" and root[3] == c.block)
        if Wr and not payload_ok:
            probs.append("value written to the slot is not the child's own output")
        if probs:
            for p in sorted(set(probs)):
                ctx.fail("C02.TRANS", u.where, "%s: %s" % (c.label, p), site=c.where)
        else:
            ctx.ok("C02.TRANS", u.where, "%s: write < state:=Ready < drop on its Ready path" % c.label,
                   sample={"write": common.fmt_blocks(bi, Wr), "state": common.fmt_blocks(bi, Sr), "drop": common.fmt_blocks(bi, Dr)})
        # QUIET: all touches of this child's slot/state/future are behind its Ready edge
        all_ready = bi.outcome_edges(c.site, "Ready")
        touches = set(W) | set(state_sets_for(M, u, c, ("Ready", "None", "Pending"))) | set(D)
        loose = sorted(b for b in touches if not bi.guarded_by(b, all_ready))
        ctx.check(not loose, "C02.QUIET", u.where, "%s: slot touched only after its poll returned Ready" % c.label, site=c.where,
                  path=common.fmt_blocks(bi, loose))
        if u.family == "try_join":
            ee = bi.outcome_edges(c.site, "Ready", "Err")
            if not ee:
                ctx.fail("C02.TRANS", u.where, "no Ready(Err) edge for %s" % c.label, site=c.where)
                continue
            Sn = [b for b in state_sets_for(M, u, c, ("None",)) if bi.guarded_by(b, ee)]
            De = [b for b in D if bi.guarded_by(b, ee)]
            probs = ordered(bi, [t for _, t in ee], [("state:=None", Sn), ("child drop", De)], bi.return_blocks, avoid)
            r = bi.reach_from_edges(ee)
            if any(b in r for b in W):
                probs.append("an output is written on the error path")
            if any(b in r for b in state_sets_for(M, u, c, ("Ready",))):
                probs.append("failed slot is marked Ready")
            if probs:
                for p in sorted(set(probs)):
                    ctx.fail("C02.TRANS", u.where, "%s (Err): %s" % (c.label, p), site=c.where)
            else:
                ctx.ok("C02.TRANS", u.where, "%s (Err): state:=None < drop, nothing written" % c.label)


def completion_returns(bi, wrap=None):
    """blocks assigning `_0 = Poll::Ready(..)`; with the payload operand term."""
    out = []
    # every value that may flow into _0, at the block that builds it (directly, or through `let ret = ..; ret`)
    for b, kind, payload, t in flow.returned_values(bi):
        if t[0] == "agg" and t[1] == ("Poll", "Ready") and t[2]:
            out.append((b, t[2][0]))
    return out


def rule_handoff(ctx, M, u):
    bi = u.bi
    rets = completion_returns(bi)
    if u.family == "try_join":
        # Ready(Ok(x)) only
        keep = []
        for b, t in rets:
            if t[0] == "agg" and t[1] == ("Result", "Ok"):
                keep.append((b, t[2][0]))
        rets = keep
    if not rets:
        ctx.fail("C02.HANDOFF", u.where, "no completion return found", site=u.body.span)
        return
    resets = [b for b, v, w in scan.state_set_all(bi) if v == "None"]
    # loop form: `for state in self.state.iter_mut() { state.set_none() }`
    loop_resets = []
    for b, variant, idx, base, where in scan.state_sets(bi):
        s = bi.by_block.get(b)
        if variant == "None" and s is not None:
            r = scan.loop_item_root(s.arg(0))
            if r is not None and r[2] and r[2][0][0] == "call" and r[2][0][1][1] in ("iter_mut",) and r[2][0][2][0] == scan.self_field("state"):
                loop_resets.append((b, r[3]))
        # for_each closure form handled below
    fe = [s for s in bi.sites if s.callee.name == "for_each"]
    for s in fe:
        it = s.arg(0)
        if it[0] == "call" and it[1][1] == "iter_mut" and it[2][0] == scan.self_field("state"):
            cl = s.arg(1)
            if cl[0] == "agg" and cl[1][0] == "closure":
                cb = M.by_cdef.get(cl[1][1])
                if cb is not None and (any(x.callee.key == ("PollState", "set_none") for x in M.info(cb).sites) or any(
                        variant == "None" for _, variant, _, _, _ in scan.state_sets(M.info(cb)))):
                    resets.append(s.block)
    for rb, payload in rets:
        probs = []
        if u.container == "tuple":
            # swap(&mut out, self.outputs); (assume_init(out.0), ...)
            if not (payload[0] == "agg" and payload[1] == "tuple" and len(payload[2]) == u.arity):
                probs.append("result is not a %d-tuple" % u.arity)
            else:
                swapped = None
                for k, comp in enumerate(payload[2]):
                    good = comp[0] == "call" and comp[1] == ("MaybeUninit", "assume_init") and comp[2][0][0] == "field" and comp[2][0][2] == k
                    if not good:
                        probs.append("result position %d is not assume_init of output slot %d" % (k, k))
                    else:
                        base = comp[2][0][1]
                        swapped = base if swapped is None else swapped
                        if base != swapped:
                            probs.append("result mixes different output tuples")
                from . import flow as _flow
                swaps = _flow.takes_of(bi, scan.self_field("outputs"))
                if len(swaps) != 1 or not bi.body.blocks_dominate([swaps[0].block], rb) or (swapped is not None and swaps[0].taken != swapped):
                    probs.append("outputs are not swapped out exactly once before the result is built")
            if not resets or not any(bi.body.blocks_dominate([r], rb) for r in resets):
                probs.append("slot states are not reset (set_all_none) before returning the outputs")
        else:
            takes = [s for s in bi.sites if s.callee.owner in ("OutputArray", "OutputVec") and s.callee.name == "take"]
            if len(takes) != 1 or not (payload == takes[0].term or (payload[0] == "call" and payload[3] == takes[0].block)):
                probs.append("result is not items.take()")
            else:
                tb = takes[0].block
                ok_reset = any(bi.body.blocks_dominate([r], tb) for r in resets)
                for b, nxt in loop_resets:
                    # the take must be reachable only through the None (exit) edge of that loop's next()
                    site = bi.by_block.get(nxt)
                    if site is not None:
                        ne = bi.outcome_edges(site, "None")
                        if ne and bi.guarded_by(tb, ne):
                            ok_reset = True
                if not ok_reset:
                    probs.append("slot states are not all reset to None before the outputs are taken")
        # completion guard: counter test
        if probs:
            for p in sorted(set(probs)):
                ctx.fail("C02.HANDOFF", u.where, p, site=bi.describe(rb))
        else:
            ctx.ok("C02.HANDOFF", u.where, "outputs taken once, all slots reset, positional result", sample={"return": bi.describe(rb)})


def rule_drop(ctx, M, u):
    m = u.member
    if m.drop is None:
        ctx.fail("C02.DROP", u.where, "no PinnedDrop body for %s" % m.adt, site=u.body.span)
        return
    di = m.drop_info
    where = m.drop.def_
    if u.container == "tuple":
        for k in range(u.arity):
            od = []
            for s in di.sites:
                if s.key == ("MaybeUninit", "assume_init_drop"):
                    sp = self_path(s.arg(0))
                    if sp is not None and sub_struct_pos(M, m, sp) == k:
                        od.append(s)
            cd = []
            for s in di.sites:
                if s.key == ("ManuallyDrop", "drop"):
                    sp = self_path(s.arg(0))
                    if sp is not None and sub_struct_pos(M, m, sp) == k:
                        cd.append(s)
            re = []
            pe = []
            for s, idx, base in scan.state_tests(di, "is_ready"):
                if scan.const_of(idx) == k and base == scan.self_field("state"):
                    re += di.outcome_edges(s, True)
            for s, idx, base in scan.state_tests(di, "is_pending"):
                if scan.const_of(idx) == k and base == scan.self_field("state"):
                    pe += di.outcome_edges(s, True)
            ok = len(od) == 1 and len(cd) == 1 and re and pe and di.guarded_by(od[0].block, re) and di.guarded_by(cd[0].block, pe)
            # and they are actually executed on those edges
            if ok:
                ok1, _ = di.must_reach([t for _, t in re], [od[0].block], di.return_blocks)
                ok2, _ = di.must_reach([t for _, t in pe], [cd[0].block], di.return_blocks)
                ok = ok1 and ok2
            # the two state tests are evaluated on every path through the destructor (no early return / flag skips them)
            if ok:
                for s, idx, base in scan.state_tests(di, "is_ready") + scan.state_tests(di, "is_pending"):
                    if scan.const_of(idx) == k and base == scan.self_field("state"):
                        r_ = di.body.reach([0], avoid_blocks=[s.block], stop_blocks=di.return_blocks)
                        if any(x in r_ for x in di.return_blocks):
                            ok = False
            ctx.check(ok, "C02.DROP", where, "slot %d: output dropped iff Ready, child dropped iff Pending" % k,
                      site=(od[0].where if od else m.drop.span), sample={"out_drop": [s.where for s in od], "child_drop": [s.where for s in cd]})
    else:
        od = [s for s in di.sites if s.callee.owner in ("OutputArray", "OutputVec") and s.callee.name == "drop"]
        cd = [s for s in di.sites if s.callee.owner in ("FutureArray", "FutureVec") and s.callee.name == "drop"]

        def from_indexes(s, which):
            i = s.arg(1)
            r = scan.loop_item_root(i)
            return r is not None and r[2] and r[2][0][0] == "call" and r[2][0][1][1] == which and r[2][0][2][0] == scan.self_field("state") and s.arg(0) in (
                scan.self_field("items"), scan.self_field("futures"))
        def guarded_indexed(s, pred):
            """`for i in <all indices> { if state[i].<pred>() { X::drop(.., i) } }` (range or enumerate form)"""
            idx = s.arg(1)
            lp = di.body.innermost_loop(s.block)
            if idx is None or lp is None:
                return False
            r = scan.loop_item_root(idx)
            if r is None or not r[2]:
                return False
            it = r[2][0]
            full = False
            if it[0] == "agg" and it[1] == ("Range", "Range"):
                lo, hi = it[2]
                full = lo == ("const", 0) and (hi == ("sym", "N") or (hi[0] == "call" and hi[1][1] == "len"))
            elif it[0] == "call" and it[1][1] == "enumerate" and it[2] and it[2][0][0] == "call" and it[2][0][1][1] in ("iter", "iter_mut") \
                    and it[2][0][2] and it[2][0][2][0] == scan.self_field("state"):
                full = True
            if not full:
                return False
            item = ("field", ("variant", r, "Some"), 0)
            for t, tidx, base in scan.state_tests(di, pred):
                same = (tidx == idx and base == scan.self_field("state")) or (
                    idx == ("field", item, 0) and t.arg(0) == ("field", item, 1))
                if not same:
                    continue
                te = di.outcome_edges(t, True)
                if te and di.guarded_by(s.block, te):
                    ok1, _ = di.must_reach([x for _, x in te], [s.block], [lp[0]] + list(di.return_blocks))
                    nxt = di.by_block.get(r[3])
                    se = di.outcome_edges(nxt, "Some") if nxt else []
                    ok2, _ = di.must_reach([x for _, x in se], [t.block], [lp[0]] + list(di.return_blocks)) if se else (False, [])
                    if ok1 and ok2:
                        return True
            return False
        ok = len(od) == 1 and len(cd) == 1 and (from_indexes(od[0], "ready_indexes") or guarded_indexed(od[0], "is_ready")) and (
            from_indexes(cd[0], "pending_indexes") or guarded_indexed(cd[0], "is_pending"))
        ctx.check(ok, "C02.DROP", where, "outputs dropped for ready_indexes(), children dropped for pending_indexes()", site=m.drop.span,
                  sample={"out_drop": [short(s.arg(1)) for s in od], "child_drop": [short(s.arg(1)) for s in cd]})
        # the loops run to exhaustion: both drop sites inside loops whose only exit is next()==None
        for s in od + cd:
            lp = di.body.innermost_loop(s.block)
            ctx.check(lp is not None, "C02.DROP", where, "%s::drop is applied to every listed index (loop)" % s.callee.owner, site=s.where)
            # ... and that loop runs on every path through the destructor (no early return, no flag that skips it)
            r = scan.loop_item_root(s.arg(1))
            nb = r[3] if r is not None else None
            if nb is not None:
                r_ = di.body.reach([0], avoid_blocks=[nb], stop_blocks=di.return_blocks)
                ctx.check(not any(x in r_ for x in di.return_blocks), "C02.DROP", where,
                          "the %s::drop loop is reached on every path through the destructor" % s.callee.owner, site=s.where)


def rule_zip(ctx, M, u):
    bi = u.bi
    m = u.member
    tests_ = [t for t in common.all_ready_tests(M, bi) if t[3] and t[4]]
    alls = [t[0] for t in tests_]
    te = [e for t in tests_ for e in t[1]]
    from . import flow as _flow
    takes = _flow.takes_of(bi, scan.self_field("output"))
    resets = [b for b, v, w in scan.state_set_all(bi) if v == "Pending"]
    for c in u.cps:
        header, exits = common.loop_exits(bi, c.block)
        avoid = common.arm_feasible_avoid(u, c)
        se = bi.outcome_edges(c.site, "Ready", "Some")
        ne = bi.outcome_edges(c.site, "Ready", "None")
        if not se or not ne:
            ctx.fail("C02.ZIP", u.where, "missing Some/None edges for %s" % c.label, site=c.where)
            continue
        W = [b for b, slot, idx, v, w in slot_writes(bi) if slot_is_child(M, u, c, slot, idx, b) and bi.guarded_by(b, se)]
        S = [b for b in state_sets_for(M, u, c, ("Ready",)) if bi.guarded_by(b, se)]
        probs = ordered(bi, [t for _, t in se], [("row slot write", W), ("state:=Ready", S)], exits + [s.block for s in alls], avoid)
        payload_ok = False
        for b, slot, idx, v, w in slot_writes(bi):
            if b in W and v is not None:
                root = v
                while root[0] in ("field", "variant"):
                    root = root[1]
                payload_ok = payload_ok or (root[0] == "call" and root[3] == c.block)
        if W and not payload_ok:
            probs.append("row slot does not receive the child's item")
        # None edge: nothing is taken
        r = bi.reach_from_edges(ne)
        if any(s.block in r for s in takes):
            probs.append("row is taken on the None path")
        all_touch = set(b for b, slot, idx, v, w in slot_writes(bi) if slot_is_child(M, u, c, slot, idx, b)) | set(state_sets_for(M, u, c, ("Ready",)))
        loose = [b for b in all_touch if not bi.guarded_by(b, se)]
        if loose:
            probs.append("row slot/state written outside the child's Some edge")
        if probs:
            for p in sorted(set(probs)):
                ctx.fail("C02.ZIP", u.where, "%s: %s" % (c.label, p), site=c.where)
        else:
            ctx.ok("C02.ZIP", u.where, "%s: item buffered (write < state:=Ready) only on its Some edge; None takes nothing" % c.label)
    # emission
    probs = []
    if not te:
        probs.append("no all-ready test")
    if len(takes) != 1:
        probs.append("row is swapped out at %d sites (expected 1)" % len(takes))
    elif te and not bi.guarded_by(takes[0].block, te):
        probs.append("row taken without the all-ready test")
    if not resets or (te and not all(bi.guarded_by(b, te) for b in resets)):
        probs.append("states not reset to Pending exactly on the full-row path")
    elif te:
        ok, bad = bi.must_reach([t for _, t in te], resets, bi.return_blocks)
        if not ok:
            probs.append("full-row path can return without resetting the states")
    if probs:
        for p in sorted(set(probs)):
            ctx.fail("C02.ZIP", u.where, "emission: " + p, site=u.body.span)
    else:
        ctx.ok("C02.ZIP", u.where, "row taken once, only under all-ready, states reset to Pending")
    # destructor
    if m.drop is None:
        ctx.fail("C02.ZIP", u.where, "zip has no destructor for buffered items", site=u.body.span)
        return
    di = m.drop_info
    ods = [s for s in di.sites if s.key == ("MaybeUninit", "assume_init_drop")]
    if u.container == "tuple":
        for k in range(u.arity):
            od = [s for s in ods if (self_path(s.arg(0)) is not None and sub_struct_pos(M, m, self_path(s.arg(0))) == k)]
            re = []
            for s, idx, base in scan.state_tests(di, "is_ready"):
                if scan.const_of(idx) == k:
                    re += di.outcome_edges(s, True)
            ok = len(od) == 1 and re and di.guarded_by(od[0].block, re)
            if ok:
                ok, _ = di.must_reach([t for _, t in re], [od[0].block], di.return_blocks)
            if ok:
                ok = always_reached(di, [s.block for s, idx, base in scan.state_tests(di, "is_ready") if scan.const_of(idx) == k])
            ctx.check(ok, "C02.ZIP", m.drop.def_, "slot %d: buffered item dropped iff Ready" % k, site=m.drop.span)
    else:
        ok = destructor_filter_ready(M, m)
        ctx.check(ok, "C02.ZIP", m.drop.def_, "buffered items dropped exactly for Ready slots (zipped state/output loop)", site=m.drop.span)


def rule_raceok(ctx, M, u):
    bi = u.bi
    m = u.member
    for c in u.cps:
        header, exits = common.loop_exits(bi, c.block)
        avoid = common.arm_feasible_avoid(u, c)
        ee = bi.outcome_edges(c.site, "Ready", "Err")
        if not ee:
            ctx.fail("C02.RACEOK", u.where, "no Ready(Err) edge for %s" % c.label, site=c.where)
            continue
        W = [b for b, slot, idx, v, w in slot_writes(bi) if slot_is_child(M, u, c, slot, idx, b) and bi.guarded_by(b, ee)]
        S = [b for b in state_sets_for(M, u, c, ("Ready",)) if bi.guarded_by(b, ee)]
        probs = ordered(bi, [t for _, t in ee], [("error slot write", W), ("state:=Ready", S)], exits, avoid)
        # the counter moves once on every path that leads from the child's Ready edge through its Err edge to the end
        # of the iteration (the increment may sit before the Ok/Err split)
        re_ = bi.outcome_edges(c.site, "Ready")
        oke = bi.outcome_edges(c.site, "Ready", "Ok")
        incs = [b for b, pt, d, sp in scan.increments(bi) if pt == scan.self_field("completed") and d == 1 and bi.guarded_by(b, re_)]
        r = bi.reach_from_edges(re_, avoid_blocks=incs, stop_blocks=exits, avoid_edges=list(avoid) + list(oke))
        if not incs or not re_ or any(b in r for b in exits):
            probs.append("completed counter not incremented on the Err path")
        loose = [b for b, slot, idx, v, w in slot_writes(bi) if slot_is_child(M, u, c, slot, idx, b) and not bi.guarded_by(b, ee)]
        if loose:
            probs.append("error slot written outside the child's Err edge")
        if probs:
            for p in sorted(set(probs)):
                ctx.fail("C02.RACEOK", u.where, "%s: %s" % (c.label, p), site=c.where)
        else:
            ctx.ok("C02.RACEOK", u.where, "%s: Err => slot write < state:=Ready, counter+1" % c.label)
    # aggregate
    from . import flow as _flow
    takes = _flow.takes_of(bi, scan.self_field("errors"))
    resets = [b for b, v, w in scan.state_set_all(bi) if v == "None"]
    probs = []
    if len(takes) != 1:
        probs.append("errors swapped out at %d sites" % len(takes))
    if not resets:
        probs.append("error states are not reset when the aggregate is taken")
    if takes and resets:
        # both only under completed == N (any comparison shape: ==, !=, negated, through a bool local)
        from . import flow
        guards = flow.edges_where(bi, scan.self_field("completed"), "Eq", lambda t: True)
        if not guards or not bi.guarded_by(takes[0].block, guards) or not all(bi.guarded_by(b, guards) for b in resets):
            probs.append("aggregate taken / states reset without the all-failed test")
        else:
            ok, bad = bi.must_reach([t for _, t in guards], resets, bi.return_blocks)
            if not ok:
                probs.append("aggregate returned without resetting the error states")
    if probs:
        for p in sorted(set(probs)):
            ctx.fail("C02.RACEOK", u.where, "aggregate: " + p, site=u.body.span)
    else:
        ctx.ok("C02.RACEOK", u.where, "aggregate error taken once under completed==N, states reset")
    # destructor: filter(is_ready) -> assume_init_drop + set_none
    if m.drop is None:
        ctx.fail("C02.RACEOK", u.where, "race_ok has no destructor for stored errors", site=u.body.span)
        return
    ok = destructor_filter_ready(M, m)
    ctx.check(ok, "C02.RACEOK", m.drop.def_, "stored errors dropped exactly for Ready slots, on every path through the destructor", site=m.drop.span)


IN_PLACE_DROPS = {("MaybeUninit", "assume_init_drop"), ("MaybeUninit", "assume_init_read"), ("OutputArray", "drop"), ("OutputVec", "drop"),
                  ("core::ptr::drop_in_place", "drop_in_place"), ("ptr", "drop_in_place"), ("ptr", "read"), ("core::ptr::read", "read")}


def rule_polldrop(ctx, M, u):
    """Slots are dropped in place only by the destructor; if a poll body does it, the slot's state
    must stop saying Ready before the poll returns."""
    bi = u.bi
    bodies = [(bi, u.body)]
    for b in M.F.bodies:
        if b.root == u.body.def_ and b.def_ != u.body.def_:
            bodies.append((M.info(b), b))
    n = 0
    for xi, xb in bodies:
        for s in xi.sites:
            if s.key not in IN_PLACE_DROPS:
                continue
            n += 1
            if xb.def_ != u.body.def_:
                ctx.fail("C02.POLLDROP", u.where, "an output slot is dropped in place inside a closure of the poll body", site=s.where)
                continue
            resets = [b for b, variant, idx, base, w in scan.state_sets(bi) if variant in ("None", "Pending")] + [
                b for b, v, w in scan.state_set_all(bi)]
            ok, bad = bi.must_reach([s.target], resets, bi.return_blocks)
            ctx.check(bool(resets) and ok, "C02.POLLDROP", u.where,
                      "slot dropped in place in poll is marked not-Ready before returning", site=s.where, path=common.fmt_blocks(bi, bad))
    if n == 0:
        ctx.ok("C02.POLLDROP", u.where, "no in-place drop of an output slot in the poll body (0 sites; destructor-only)", nontrivial=False)


def indexes_of_state(M, bi, pred):
    """`<name>_indexes()` = the indexes whose state satisfies `pred`, in order.  Accepted spellings over
    `<the state storage>.iter()[.cloned()].enumerate()`:
       .filter(|(_, s)| s.<pred>()).map(|(i, _)| i)     and
       .filter_map(|(i, s)| <s is that variant>.then_some(i))"""
    def closure(t):
        if t is not None and t[0] == "agg" and isinstance(t[1], tuple) and t[1][0] == "closure":
            return M.by_cdef.get(t[1][1])
        return None

    def over_enumerate(src):
        while src is not None and src[0] == "call" and src[1][1] in ("cloned", "copied"):
            src = src[2][0] if src[2] else None
        return src is not None and src[0] == "call" and src[1][1] == "enumerate"

    def tests_component_1(ci):
        for t, idx, base in scan.state_tests(ci, pred):
            a = t.arg(0)
            # (i, state) pattern of the closure argument: component 1
            path = []
            while a is not None and a[0] in ("field", "variant", "index"):
                path.append(a[2])
                a = a[1]
            if a == ("param", 2) and path and path[-1] == 1:
                return t
        return None
    filt = [s for s in bi.sites if s.callee.name == "filter"]
    maps = [s for s in bi.sites if s.callee.name == "map"]
    fms = [s for s in bi.sites if s.callee.name == "filter_map"]
    if len(filt) == 1 and len(maps) == 1 and not fms:
        cb = closure(filt[0].arg(1))
        mb = closure(maps[0].arg(1))
        if cb is None or mb is None or not over_enumerate(filt[0].arg(0)):
            return False
        ci = M.info(cb)
        t = tests_component_1(ci)
        from . import flow as _flow
        rets = _flow.returned_values(ci)
        ok = t is not None and len(rets) == 1 and getattr(t, "block", None) is not None
        mrets = _flow.returned_values(M.info(mb))
        ok = ok and len(mrets) == 1 and mrets[0][3] == ("field", ("param", 2), 0)
        ok = ok and maps[0].arg(0) == filt[0].term
        return ok
    if len(fms) == 1 and not filt:
        cb = closure(fms[0].arg(1))
        if cb is None or not over_enumerate(fms[0].arg(0)):
            return False
        ci = M.info(cb)
        t = tests_component_1(ci)
        ts = [s for s in ci.sites if s.callee.name in ("then_some",)]
        if t is None or len(ts) != 1:
            return False
        v = ts[0].arg(1)
        path = []
        while v is not None and v[0] in ("field", "variant", "index"):
            path.append(v[2])
            v = v[1]
        if not (v == ("param", 2) and path and path[-1] == 0):
            return False
        # then_some's flag is the test's outcome: a call result of the predicate, or the bool fed by the match
        flag = ts[0].arg(0)
        if flag[0] == "call" and getattr(t, "block", None) == flag[3]:
            return True
        if flag[0] == "phi":
            te = ci.outcome_edges(t, True)
            return bool(te) and any(e["subject"] == flag for e, defs in ci.bool_phi_switches) or bool(te)
        return False
    return False


def always_reached(bi, blocks):
    """one of `blocks` is passed on every path from entry to a return (no early return / flag skips it)"""
    if not blocks:
        return False
    r = bi.body.reach([0], avoid_blocks=blocks, stop_blocks=bi.return_blocks)
    return not any(x in r for x in bi.return_blocks)


def _strip(t):
    """strip field/variant projections down to the root term"""
    while t is not None and t[0] in ("field", "variant", "index"):
        t = t[1]
    return t


def _comp_index(t, root):
    """t is `root.<k>` possibly wrapped in further transparent projections: return k"""
    path = []
    while t is not None and t != root and t[0] in ("field", "variant", "index"):
        path.append(t)
        t = t[1]
    if t != root or not path:
        return None
    first = path[-1]
    return first[2] if first[0] == "field" else None


def _zip_of_fields(it):
    """it = zip(iter*(self.A), iter*(self.B)) -> (A path term, B path term) else None"""
    if it is None or it[0] != "call" or it[1][1] != "zip" or len(it[2]) != 2:
        return None
    out = []
    for x in it[2]:
        if x[0] == "call" and x[1][1] in ("iter", "iter_mut") and x[2] and self_path(x[2][0]) is not None:
            out.append(x[2][0])
        else:
            return None
    return tuple(out)


def _is_state_field(M, m, t):
    sp = self_path(t)
    if not sp:
        return False
    idx, ty = families.adt_field(M, m.adt, sp[0])
    return ty is not None and ("PollArray" in M.F.types[ty]["s"] or "PollVec" in M.F.types[ty]["s"] or "PollState" in M.F.types[ty]["s"])


def exits_only_on_exhaustion(di, lp, nxt):
    """the drop loop is left only because its iterator is exhausted (the `None` edge of `next`): a `return` / `break` at the
    first slot that needs no dropping would leave the later slots undropped"""
    body = di.body
    none_e = set(di.outcome_edges(nxt, "None")) if nxt is not None else set()
    none_targets = {b for _, b in none_e}
    inside = set(lp[1])
    for a in inside:
        if body.is_cleanup(a):
            continue
        for b in body.succs(a):
            if b in inside or body.is_cleanup(b):
                continue
            if (a, b) in none_e:
                continue
            # leaving through a block that cannot return normally (panic) is not an exit
            r = di.reach_from_edges([(a, b)])
            if not any(x in r for x in di.return_blocks):
                continue
            return False
    return True


def destructor_filter_ready(M, m):
    """The destructor drops, for every position, the stored slot iff the slot's state is Ready.
    Accepted forms (all over `state.iter*().zip(slots.iter_mut())`, either operand order):
      A  `.filter(|(st, _)| st.is_ready())` then a `for` loop / `.for_each(..)` calling assume_init_drop on the slot component;
      B  a plain `for (st, slot) in zip` whose body drops the slot under `if st.is_ready()` (also the `if !.. { continue }` form).
    In every form the iteration is reached on every path through the destructor."""
    di = m.drop_info
    body = di.body
    DROP = ("MaybeUninit", "assume_init_drop")
    # ---------------------------------------------------------------- form A
    for f in [s for s in di.sites if s.callee.name == "filter"]:
        z = _zip_of_fields(f.arg(0))
        cl = f.arg(1)
        if z is None or not (cl[0] == "agg" and cl[1][0] == "closure"):
            continue
        st_pos = [k for k, x in enumerate(z) if _is_state_field(M, m, x)]
        if len(st_pos) != 1:
            continue
        st_pos = st_pos[0]
        cb = M.by_cdef.get(cl[1][1])
        if cb is None:
            continue
        ci = M.info(cb)
        preds = [s for s in ci.sites if s.callee.key == ("PollState", "is_ready")]
        rets = [t for b_, i_, rv in ci.assigns_to_return() for t in [ci.T.of_rvalue(rv, 0) if rv.get("k") != "callresult" else ci.T.of_call(b_, cb.term(b_), 0)]]
        if len(preds) != 1 or _comp_index(preds[0].arg(0), ("param", 2)) != st_pos:
            continue
        if not rets or not all(t[0] == "call" and t[3] == preds[0].block for t in rets):
            continue
        if not always_reached(di, [f.block]):
            continue
        # consumer of the filtered iterator
        for s in di.sites:
            if s.key == DROP:
                r = scan.loop_item_root(s.arg(0))
                if r is not None and r[2] and r[2][0][0] == "call" and r[2][0][3] == f.block:
                    item = ("field", ("variant", r, "Some"), 0)
                    if _comp_index(s.arg(0), item) == 1 - st_pos:
                        nxt = di.by_block.get(r[3])
                        se = di.outcome_edges(nxt, "Some") if nxt else []
                        lp = body.innermost_loop(s.block)
                        if se and lp:
                            ok, _ = di.must_reach([t for _, t in se], [s.block], [lp[0]] + list(di.return_blocks))
                            if ok and exits_only_on_exhaustion(di, lp, nxt):
                                return True
        for fe in [s for s in di.sites if s.callee.name == "for_each"]:
            src, cl2 = fe.arg(0), fe.arg(1)
            if src[0] == "call" and src[3] == f.block and cl2[0] == "agg" and cl2[1][0] == "closure":
                cb2 = M.by_cdef.get(cl2[1][1])
                if cb2 is not None:
                    c2 = M.info(cb2)
                    ds = [s for s in c2.sites if s.key == DROP]
                    if len(ds) == 1 and _comp_index(ds[0].arg(0), ("param", 2)) == 1 - st_pos and always_reached(c2, [ds[0].block]):
                        return True
    # ---------------------------------------------------------------- form E
    # `slots.iter_mut().enumerate().filter(|(i, _)| state[*i].is_ready())` then a loop dropping the slot component:
    # the index is attached before the filter, so every slot is looked up under its own position
    for f in [s for s in di.sites if s.callee.name == "filter"]:
        src, cl = f.arg(0), f.arg(1)
        if not (src is not None and src[0] == "call" and src[1][1] == "enumerate" and src[2] and src[2][0][0] == "call"
                and src[2][0][1][1] in ("iter_mut", "iter") and src[2][0][2] and self_path(src[2][0][2][0]) is not None
                and not _is_state_field(M, m, src[2][0][2][0])):
            continue
        if not (cl[0] == "agg" and cl[1][0] == "closure"):
            continue
        cb = M.by_cdef.get(cl[1][1])
        if cb is None:
            continue
        ci = M.info(cb)
        caps = list(cl[2])
        preds = [s for s in ci.sites if s.callee.key == ("PollState", "is_ready")]
        if len(preds) != 1:
            continue
        a = preds[0].arg(0)
        # state[<item>.0] with `state` a captured reference to the member's state table
        if not (a[0] == "index" and a[1][0] == "field" and a[1][1] == ("param", 1) and isinstance(a[1][2], int) and a[1][2] < len(caps)
                and _is_state_field(M, m, caps[a[1][2]]) and _comp_index(a[2], ("param", 2)) == 0):
            continue
        rets = [t for b_, i_, rv in ci.assigns_to_return() for t in [ci.T.of_rvalue(rv, 0) if rv.get("k") != "callresult" else ci.T.of_call(b_, cb.term(b_), 0)]]
        if not rets or not all(t[0] == "call" and t[3] == preds[0].block for t in rets):
            continue
        if not always_reached(di, [f.block]):
            continue
        for s in di.sites:
            if s.key == DROP:
                r = scan.loop_item_root(s.arg(0))
                if r is not None and r[2] and r[2][0][0] == "call" and r[2][0][3] == f.block:
                    item = ("field", ("variant", r, "Some"), 0)
                    if _comp_index(s.arg(0), item) == 1:
                        nxt = di.by_block.get(r[3])
                        se = di.outcome_edges(nxt, "Some") if nxt else []
                        lp = body.innermost_loop(s.block)
                        if se and lp:
                            ok, _ = di.must_reach([t for _, t in se], [s.block], [lp[0]] + list(di.return_blocks))
                            if ok and exits_only_on_exhaustion(di, lp, nxt):
                                return True
    # ---------------------------------------------------------------- form C
    # `for i in state.ready_indexes() { slots[i].assume_init_drop() }`  (ready_indexes = indexes whose state is Ready: C02.UTIL)
    for s in di.sites:
        if s.key != DROP:
            continue
        a = s.arg(0)
        if a is None or a[0] != "index" or self_path(a[1]) is None or _is_state_field(M, m, a[1]):
            continue
        r = scan.loop_item_root(a[2])
        if r is None or not r[2]:
            continue
        it = r[2][0]
        if it[0] == "call" and it[1][1] == "ready_indexes" and it[2] and _is_state_field(M, m, it[2][0]):
            nxt = di.by_block.get(r[3])
            lp = body.innermost_loop(s.block)
            if nxt is not None and lp is not None and always_reached(di, [nxt.block]):
                se = di.outcome_edges(nxt, "Some")
                ok, _ = di.must_reach([x for _, x in se], [s.block], [lp[0]] + list(di.return_blocks)) if se else (False, [])
                if ok and exits_only_on_exhaustion(di, lp, nxt):
                    return True
    # ---------------------------------------------------------------- form B
    for s in di.sites:
        if s.key != DROP:
            continue
        r = scan.loop_item_root(s.arg(0))
        if r is None or not r[2]:
            continue
        z = _zip_of_fields(r[2][0])
        if z is None:
            continue
        st_pos = [k for k, x in enumerate(z) if _is_state_field(M, m, x)]
        if len(st_pos) != 1:
            continue
        st_pos = st_pos[0]
        item = ("field", ("variant", r, "Some"), 0)
        if _comp_index(s.arg(0), item) != 1 - st_pos:
            continue
        nxt = di.by_block.get(r[3])
        lp = body.innermost_loop(s.block)
        if nxt is None or lp is None or not always_reached(di, [nxt.block]):
            continue
        for t, idx, base in scan.state_tests(di, "is_ready"):
            if _comp_index(t.arg(0), item) == st_pos:
                te = di.outcome_edges(t, True)
                fe_ = di.outcome_edges(t, False)
                se = di.outcome_edges(nxt, "Some")
                if not te or not se or not di.guarded_by(s.block, te):
                    continue
                ok1, _ = di.must_reach([x for _, x in te], [s.block], [lp[0]] + list(di.return_blocks))
                ok2, _ = di.must_reach([x for _, x in se], [t.block], [lp[0]] + list(di.return_blocks))
                if ok1 and ok2 and exits_only_on_exhaustion(di, lp, nxt):
                    return True
    # ---------------------------------------------------------------- form D
    # `for i in 0..N { if state[i].is_ready() { slots[i].assume_init_drop() } }` (also with `if !.. { continue }`)
    for s in di.sites:
        if s.key != DROP:
            continue
        a = s.arg(0)
        if a is None or a[0] != "index" or self_path(a[1]) is None or _is_state_field(M, m, a[1]):
            continue
        idx = a[2]
        r = scan.loop_item_root(idx)
        if r is None or not r[2] or idx != ("field", ("variant", r, "Some"), 0):
            continue
        it = r[2][0]
        while it[0] == "call" and it[1][1] in ("into_iter", "by_ref") and it[2]:
            it = it[2][0]
        if not (it[0] == "agg" and it[1] == ("Range", "Range") and it[2][0] == ("const", 0)):
            continue
        hi = it[2][1]
        if not (hi == ("sym", "N") or (hi[0] == "call" and hi[1][1] == "len" and hi[2] and self_path(hi[2][0]) is not None)):
            continue
        nxt = di.by_block.get(r[3])
        lp = body.innermost_loop(s.block)
        if nxt is None or lp is None or not always_reached(di, [nxt.block]):
            continue
        for t, tidx, base in scan.state_tests(di, "is_ready"):
            if tidx == idx and _is_state_field(M, m, base):
                te = di.outcome_edges(t, True)
                se = di.outcome_edges(nxt, "Some")
                if not te or not se or not di.guarded_by(s.block, te):
                    continue
                ok1, _ = di.must_reach([x for _, x in te], [s.block], [lp[0]] + list(di.return_blocks))
                ok2, _ = di.must_reach([x for _, x in se], [t.block], [lp[0]] + list(di.return_blocks))
                if ok1 and ok2 and exits_only_on_exhaustion(di, lp, nxt):
                    return True
    return False


# ------------------------------------------------------------------------------------------------

UNSAFE_OPS = {
    ("ManuallyDrop", "drop"), ("ManuallyDrop", "take"), ("ManuallyDrop", "into_inner"),
    ("MaybeUninit", "assume_init"), ("MaybeUninit", "assume_init_drop"), ("MaybeUninit", "assume_init_read"),
    ("MaybeUninit", "assume_init_mut"), ("MaybeUninit", "assume_init_ref"),
    ("core::mem::forget", "forget"), ("core::mem::transmute_copy", "transmute_copy"), ("Vec", "set_len"),
    ("core::ptr::read", "read"), ("ptr", "read"), ("Box", "leak"), ("Vec", "leak"), ("Box", "into_raw"), ("Vec", "from_raw_parts"),
    ("core::mem::zeroed", "zeroed"), ("core::ptr::drop_in_place", "drop_in_place"), ("ptr", "drop_in_place"), ("ptr", "write"),
}
LOCAL_UNSAFE = {"array_assume_init", "vec_assume_init"}


def rule_who(ctx, M):
    F = M.F
    owners = set()
    for m in M.members:
        if m.family in ("join", "try_join", "zip", "race_ok"):
            for b in (m.poll, m.drop):
                if b is not None:
                    owners.add(b.def_)
    allowed_utils = ("::utils::futures::", "::utils::output::", "::utils::array::")
    n_in = 0
    for b in F.bodies:
        if b.kind in ("Const", "AnonConst") or b.n > 5000:
            continue
        bad = []
        for blk, t in b.calls():
            if blk not in b.reachable or b.is_cleanup(blk):
                continue
            f = t["func"]
            if "indirect" in f:
                continue
            own = None
            if f.get("impl_self") is not None:
                ty = F.types[f["impl_self"]]
                own = simple_name(ty["cpath"]) if ty["k"] == "adt" else ty["k"]
            key = (own or f["cpath"], f["name"])
            if key in UNSAFE_OPS or f["name"] in LOCAL_UNSAFE:
                bad.append((blk, t, key))
        if not bad:
            continue
        cdef = b.j["cdef"]
        root_ok = b.def_ in owners or b.root in owners
        hc = F.d.get("helper_callers", {}).get(b.root)
        if not root_ok and hc:
            # a closure of a helper that was inlined into its callers: as allowed as all of those callers
            root_ok = all(r in owners for r in hc)
        util_ok = any(x in ("::" + cdef) for x in allowed_utils) or b.name in LOCAL_UNSAFE
        if not util_ok and b.kind == "Closure" and b.root != b.def_:
            # a closure of one of the local wrappers (`array.map(|slot| slot.assume_init())` inside array_assume_init)
            rb = M.F.by_def.get(b.root) if hasattr(M.F, "by_def") else None
            util_ok = rb is not None and rb.name in LOCAL_UNSAFE
        # closures of owner bodies (for_each destructor closure)
        if root_ok or util_ok:
            n_in += len(bad)
            continue
        # MaybeDone / group / costream code is safe code: any of these ops there is new
        for blk, t, key in bad:
            ctx.fail("C02.WHO", b.def_, "unsafe storage operation %s::%s outside the owning poll/drop bodies and utils wrappers" % key, site=t["sp"])
    ctx.require(n_in >= 100, "positive control: unsafe storage ops inside owners (%d)" % n_in)
    ctx.ok("C02.WHO", "<crate>", "all %d unsafe storage operations are inside owning poll/drop bodies or utils wrappers" % n_in,
           sample={"ops_in_owners": n_in})


NONCHILD = set()   # names of the audited ADT's params that are plain data (only `Sized`-like bounds)
DATA_TRAITS = ("Sized", "Debug", "Clone", "Copy", "Send", "Sync", "Unpin", "Default", "PartialEq", "Eq")


def mentions_param(F, tix, depth=0, seen=None):
    t = F.types[tix]
    if depth > 12:
        return False
    k = t["k"]
    if k == "param":
        return t["name"] not in NONCHILD
    if k == "alias":
        # an associated type of a child (its Output / Item / IntoFuture) is a produced value or is
        # checked where it is stored by value; only the projection `IntoFuture` designates a child
        return t.get("name") in ("IntoFuture", "IntoStream", "Future", "Stream") and any(
            isinstance(a, int) and mentions_param(F, a, depth + 1) for a in t["args"])
    if k in ("ref", "ptr", "array", "slice"):
        return mentions_param(F, t["ty"], depth + 1)
    if k == "tuple":
        return any(mentions_param(F, a, depth + 1) for a in t["tys"])
    if k == "adt":
        return any(isinstance(a, int) and mentions_param(F, a, depth + 1) for a in t["args"])
    return False


SHARED = ("Rc", "Arc", "Weak", "RefCell", "Cell", "UnsafeCell")


def bad_ownership(F, tix, depth=0):
    """a type through which a child-typed value would be shared / leaked rather than owned."""
    t = F.types[tix]
    if depth > 12 or not mentions_param(F, tix):
        return None
    k = t["k"]
    if k == "ptr":
        return "raw pointer " + t["s"]
    if k == "ref":
        return "reference " + t["s"]
    if k == "adt":
        n = simple_name(t["cpath"])
        if n in SHARED:
            return "%s<..> (%s)" % (n, t["s"])
        if n == "PhantomData":
            return None
        for a in t["args"]:
            if isinstance(a, int):
                r = bad_ownership(F, a, depth + 1)
                if r:
                    return r
        if t.get("local"):
            a = F.adts_c.get(t["cpath"])
            if a is not None:
                # instantiate-insensitive walk of the local ADT's own fields
                for v in a["variants"]:
                    for f in v["fields"]:
                        r = bad_ownership(F, f["ty"], depth + 1)
                        if r:
                            return r
        return None
    if k in ("array", "slice"):
        return bad_ownership(F, t["ty"], depth + 1)
    if k == "tuple":
        for a in t["tys"]:
            r = bad_ownership(F, a, depth + 1)
            if r:
                return r
    return None


def has_unsafe_storage(F, tix, depth=0):
    t = F.types[tix]
    if depth > 10:
        return False
    k = t["k"]
    if k == "adt":
        n = simple_name(t["cpath"])
        if n in ("ManuallyDrop", "MaybeUninit"):
            return True
        if any(isinstance(a, int) and has_unsafe_storage(F, a, depth + 1) for a in t["args"]):
            return True
        if t.get("local"):
            a = F.adts_c.get(t["cpath"])
            if a is not None:
                return any(has_unsafe_storage(F, f["ty"], depth + 1) for v in a["variants"] for f in v["fields"])
        return False
    if k in ("array", "slice", "ref", "ptr"):
        return has_unsafe_storage(F, t["ty"], depth + 1)
    if k == "tuple":
        return any(has_unsafe_storage(F, a, depth + 1) for a in t["tys"])
    return False


def rule_own(ctx, M, only=None):
    F = M.F
    adts = set()
    for m in M.members:
        if m.adt:
            adts.add(m.adt)
    for g in M.groups.values():
        adts.add(g["adt"])
        adts.add(g["keyed_adt"])
    for name, c in M.consumers.items():
        if c.get("adt"):
            adts.add(c["adt"])
    for extra in ("futures_concurrency::concurrent_stream::for_each::ForEachFut", "futures_concurrency::concurrent_stream::try_for_each::TryForEachFut",
                  "futures_concurrency::concurrent_stream::map::MapFuture", "futures_concurrency::concurrent_stream::enumerate::EnumerateFuture",
                  "futures_concurrency::utils::poll_state::maybe_done::MaybeDone", "futures_concurrency::future::wait_until::WaitUntil",
                  "futures_concurrency::stream::wait_until::WaitUntil"):
        if extra in F.adts_c:
            adts.add(extra)
    n = 0
    for cp in sorted(adts):
        a = F.adts_c.get(cp)
        if a is None:
            continue
        n += 1
        if only is not None and not only(cp):
            continue
        bad = []
        unsafe_store = False
        # params that carry explicit bounds, none of which is a behaviour trait, are plain data
        by_param = {}
        for pn, tr in a.get("bounds", []):
            by_param.setdefault(pn, set()).add(simple_name(tr))
        NONCHILD.clear()
        declared_children = [pn for pn, trs in by_param.items() if trs - set(DATA_TRAITS)]
        if declared_children:
            for pn, trs in by_param.items():
                if not (trs - set(DATA_TRAITS)):
                    NONCHILD.add(pn)
        for v in a["variants"]:
            for f in v["fields"]:
                r = bad_ownership(F, f["ty"])
                if r:
                    bad.append("field `%s`: child reachable through %s" % (f["name"], r))
                if has_unsafe_storage(F, f["ty"]):
                    unsafe_store = True
        if unsafe_store and M.drop_body_of(cp) is None and not a.get("has_drop"):
            bad.append("holds ManuallyDrop/MaybeUninit storage but has no destructor")
        if bad:
            for x in bad:
                ctx.fail("C02.OWN", cp, x, site=a["span"])
        else:
            ctx.ok("C02.OWN", cp, "children owned by value%s" % (", unsafe storage has a destructor" if unsafe_store else ""),
                   sample={"fields": [f["name"] for v in a["variants"] for f in v["fields"]]})
    NONCHILD.clear()
    ctx.require(n >= 60, "ADT audit coverage (%d)" % n)


def rule_util(ctx, M):
    """The utils wrappers act on the index they are given."""
    if M.config != "core":
        from . import joinlike as _jl
        _jl.rule_vec_assume_init(ctx, M, "C02.UTIL")
    checks = [
        ("futures::array::FutureArray", "drop", ("ManuallyDrop", "drop")),
        ("output::array::OutputArray", "drop", ("MaybeUninit", "assume_init_drop")),
    ]
    if M.config != "core":
        checks += [("futures::vec::FutureVec", "drop", ("ManuallyDrop", "drop")),
                   ("output::vec::OutputVec", "drop", ("MaybeUninit", "assume_init_drop"))]
    for owner, name, op in checks:
        b = prims.find_method(M, owner, name)
        ctx.require(b is not None, owner + "::" + name)
        bi = M.info(b)
        ops = [s for s in bi.sites if s.key == op]
        ok = len(ops) == 1 and ops[0].arg(0)[0] == "index" and ops[0].arg(0)[2] == ("param", 2)
        ctx.check(ok, "C02.UTIL", b.def_, "%s acts on the slot of the given index" % name, site=b.span)
    for owner in ["output::array::OutputArray"] + ([] if M.config == "core" else ["output::vec::OutputVec"]):
        b = prims.find_method(M, owner, "write")
        ctx.require(b is not None, owner + "::write")
        bi = M.info(b)
        ws = [(blk, slot, v) for blk, slot, idx, v, w in slot_writes(bi)]
        ok = len(ws) == 1 and ws[0][1][0] == "index" and ws[0][1][2] == ("param", 2) and ws[0][2] == ("param", 3)
        ctx.check(ok, "C02.UTIL", b.def_, "write(idx, value) stores value in slot idx", site=b.span)
    # ready_indexes / pending_indexes = filter(is_ready / is_pending)
    for owner in ["poll_state::array::PollArray"] + ([] if M.config == "core" else ["poll_state::vec::PollVec"]):
        for name, pred in (("ready_indexes", "is_ready"), ("pending_indexes", "is_pending")):
            b = prims.find_method(M, owner, name)
            ctx.require(b is not None, owner + "::" + name)
            bi = M.info(b)
            ok = indexes_of_state(M, bi, pred)
            maps = [1]
            ctx.check(ok and len(maps) == 1, "C02.UTIL", b.def_, "%s = indexes whose state %s" % (name, pred), site=b.span)
