"""C06 — race: the first child seen to resolve wins, immediately; the rest are cancelled."""
from ..facts import base
from .. import families, scan
from . import racelike, flow, common, c20, c02, c03, c01, prims, joinlike

PROPERTY = "C06"
LEVEL = "other"
CONFIGS_QUICK = ["std", "std-rel"]
CONFIGS_THOROUGH = ["std", "alloc", "core", "std-rel", "alloc-rel", "core-rel"]
EXPLANATION = (
    "Path and data-flow rules on the MIR of every race poll body (tuple arities 1-12, array, Vec): (WIN) on every child's Ready "
    "edge every path returns Ready(that child's payload) in the same call, sets `done`, and reaches no child-poll site nor the "
    "scan loop again; every Ready return carries the payload of a child polled in this call; Pending is produced only on the "
    "scan loop's exit edge (all children were polled and returned Pending); (SCAN) a Pending child never ends the scan and the "
    "scan covers every child (one arm per tuple position polling that field; Indexer of the container length; Indexer::iter is a "
    "rotation of 0..max); (OWN) the children are plain by-value fields of the race future, so the losers are dropped by drop glue "
    "together with it and nothing else holds them; (EXT) FutureExt::race builds (self, other).")
EXPLANATION += (' (CTOR) the entry point stores every operand, converted by into_future only, as the child of its own position.')
EXPLANATION += (' (SCAN, helpers) the utils::pin accessors used to reach child i are the standard slice / Vec accessors re-pinned element-wise. (EXT, surface) no inherent method shadows `race`; no body takes a by-value combinator apart.')
ASSUMPTIONS = [
    "which of several simultaneously ready children is seen first is the scan order (unspecified by the property)",
    "drop glue drops every by-value field exactly once (language guarantee)",
]
RULES = {
    "C06.CTOR": "entry point: every operand becomes the child of its own position, converted by into_future / into_stream only; nothing reorders, drops or duplicates operands",
    "C06.LIVE": "premises from the wake protocol, re-checked here for this family: task waker registered first, child polled with its own sub-waker (or the caller's context), no readiness lock across a child poll, a cleared bit is followed by a poll, re-arm after an item, readiness primitives / Wake::wake forward correctly",
    "C06.WIN": "Ready edge => same-call return of that payload, done := true, no further poll; Ready returns only carry polled payloads; Pending only after the full scan",
    "C06.DONE": "the `done` guard is evaluated before any child is polled, and is set when a child wins: the losers are never polled again",
    "C06.SCAN": "Pending child => scan continues; scan covers all children; Indexer rotation",
    "C06.OWN": "children owned by value by the race future (no Rc/Arc/raw pointer/leak)",
    "C06.EXT": "FutureExt::race(self, other) = Race::race((self, other))",
}


def run(ctx):
    for rid, text in RULES.items():
        ctx.rule(rid, text)
    for cfg in ctx.configs:
        ctx.current_config = cfg
        M = ctx.model(cfg)
        units = families.passthrough_units(M, ("race",))
        c01.live_premises(ctx, M, units, "C06.LIVE")
        from . import ctors
        ctors.run_family(ctx, M, units, "C06.CTOR", cfg)
        for u in units:
            rets, claimed = racelike.rule_win(ctx, M, u, "C06.WIN", ("Ready",), "Ready", flag="done")
            loose = [r for r in rets if r[0] not in claimed]
            ctx.check(bool(rets) and not loose, "C06.WIN", u.where, "every Ready return carries a polled child's payload", site=u.body.span,
                      path=common.fmt_blocks(u.bi, [r[0] for r in loose]))
            racelike.rule_pending_after_scan(ctx, M, u, "C06.WIN")
            flow.rule_integrity(ctx, u.bi, "C06.WIN", u.where, ("Ready",), "the winner's output")
            with ctx.renamed({"C03.LATCH": "C06.DONE", "C03.MARK": "C06.DONE"}):
                c03.rule_latch(ctx, u)
                c03.rule_mark(ctx, u)
            with ctx.renamed({"C20.CONT": "C06.SCAN", "C20.COVER": "C06.SCAN"}):
                c20.rule_cont(ctx, M, u)
                c20.rule_cover(ctx, M, u)
        prims.check_indexer(ctx, M, "C06.SCAN")
        adts = {u.member.adt for u in units}
        with ctx.renamed({"C02.OWN": "C06.OWN"}):
            c02.rule_own(ctx, M, only=lambda cp: cp in adts)
        from . import common as _cm
        ctx.require(_cm.rule_pin_utils(ctx, M, "C06.SCAN") >= 1, "utils::pin helpers")
        n = joinlike.rule_ext(ctx, M, "future::futures_ext::FutureExt", "race", "race", "C06.EXT")
        ctx.require(n >= 1, "FutureExt::race")
        na = 1 if base(cfg) == "core" else 2
        ctx.floor("C06.WIN", cfg, 78 + na + 2 * (12 + na))
        ctx.floor("C06.SCAN", cfg, 78 + na + 12 + na)
        ctx.floor("C06.OWN", cfg, 12 + na)
    return {}
