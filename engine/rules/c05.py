"""C05 — try_join: Ok iff all Ok (positional); the first observed error short-circuits."""
from ..facts import base
from .. import families, scan
from . import joinlike, flow, common, c02, c03, c01

PROPERTY = "C05"
LEVEL = "other"
CONFIGS_QUICK = ["std", "alloc", "std-rel"]
CONFIGS_THOROUGH = ["std", "alloc", "core", "std-rel", "alloc-rel", "core-rel"]
EXPLANATION = (
    "Data-flow, counter and short-circuit rules on the MIR of every try_join poll body (tuple arities 1-12, array, Vec): "
    "(POS/CNT/ZERO) as for join, on the Ready(Ok) edges: the Ok payload goes to the child's own slot, the counter moves once per "
    "resolved child, Ready(Ok(..)) is returned only under the completion test and carries the positional slot container; (ERR) "
    "on every child's Ready(Err) edge every path returns Ready(Err(e)) in that same call with e = exactly that child's Err "
    "payload, sets `consumed`, and reaches no child-poll site; (OK) every Ready(Err) return carries the Err payload of a child "
    "poll of this call - no error is fabricated, stored for later or replaced; since every Err edge returns, reaching the "
    "completion test implies no child has failed; (DISCARD) the Err path neither takes nor returns any output slot (values "
    "already produced stay for the destructor: C02.DROP).")
EXPLANATION += (' (CTOR) the entry point stores operand K, converted by into_future only, as the child of position K.')
ASSUMPTIONS = [
    "each child completes at most once (C03.GUARD/MARK)",
    "destructor behaviour for Ready slots and pending children is decided by C02.DROP",
]
RULES = {
    "C05.CTOR": "entry point: every operand becomes the child of its own position, converted by into_future / into_stream only; nothing reorders, drops or duplicates operands",
    "C05.LIVE": "premises from the wake protocol, re-checked here for this family: task waker registered first, child polled with its own sub-waker (or the caller's context), no readiness lock across a child poll, a cleared bit is followed by a poll, re-arm after an item, readiness primitives / Wake::wake forward correctly",
    "C05.POS": "child's Ok payload is written exactly once, to the child's own slot; Ok result is the positional slot container",
    "C05.CNT": "counter discipline and guard of the Ok return (as C04.CNT)",
    "C05.ZERO": "zero-length world (array, Vec) returns Ready(Ok) without polling; try_join of () is straight-line Ready(Ok)",
    "C05.ONCE": "premise: a child is polled only while Pending and marked in the poll in which it resolves",
    "C05.ERR": "Ready(Err) edge => same-call return of Ready(Err(that child's error)), consumed := true, no further child poll",
    "C05.OK": "every Ready(Err(..)) return carries the Err payload of a child polled in this call",
    "C05.DISCARD": "the error path takes no output slot and returns nothing but the error; the destructor drops every Ready slot and every Pending child on every path (values already produced are dropped, not leaked); the error path resets no slot state but the failed child's own (no set_all_none / set_all_pending behind an Err edge), and the per-child transitions of C02.TRANS hold for the try_join units",
}


def run(ctx):
    for rid, text in RULES.items():
        ctx.rule(rid, text)
    for cfg in ctx.configs:
        ctx.current_config = cfg
        M = ctx.model(cfg)
        units = families.subwaker_units(M, ("try_join",), groups=False)
        c01.live_premises(ctx, M, units, "C05.LIVE")
        from . import ctors
        ctors.run_family(ctx, M, units, "C05.CTOR", cfg)
        for u in units:
            joinlike.rule_pos(ctx, M, u, "C05.POS")
            joinlike.rule_result(ctx, M, u, "C05.POS")
            joinlike.rule_cnt(ctx, M, u, "C05.CNT")
            rule_err(ctx, M, u)
            with ctx.renamed({"C03.GUARD": "C05.ONCE", "C03.MARK": "C05.ONCE", "C02.DROP": "C05.DISCARD", "C02.TRANS": "C05.DISCARD", "C02.QUIET": "C05.DISCARD"}):
                c03.rule_guard(ctx, u)
                c03.rule_mark(ctx, u)
                c02.rule_drop(ctx, M, u)
                c02.rule_trans(ctx, M, u)
            flow.rule_integrity(ctx, u.bi, "C05.POS", u.where, ("Ready(Ok)",), "the Ok output")
            flow.rule_integrity(ctx, u.bi, "C05.OK", u.where, ("Ready(Err)",), "the returned error")
            if u.container in ("array", "vec"):
                joinlike.rule_zero(ctx, M, u, "C05.ZERO", ("Ready(Ok)",))
        with ctx.renamed({"C02.UTIL": "C05.DISCARD"}):
            c02.rule_util(ctx, M)
        joinlike.rule_zero_tuple0(ctx, M, "try_join", "C05.ZERO", "Ready(Ok)")
        na = 1 if base(cfg) == "core" else 2
        ctx.floor("C05.POS", cfg, 78 + na + 12 + na)
        ctx.floor("C05.CNT", cfg, 2 * (78 + na) + 3 * (12 + na))
        ctx.floor("C05.ERR", cfg, 78 + na)
        ctx.floor("C05.OK", cfg, 12 + na)
        ctx.floor("C05.DISCARD", cfg, 78 + na)
        ctx.floor("C05.ZERO", cfg, na + 1)
    return {}


def rule_err(ctx, M, u):
    bi = u.bi
    all_cps = {c.block for c in u.cps}
    err_rets = flow.returns_of(bi, "Ready(Err)")
    claimed = set()
    consumed_w = [b for b, pt, v, sp in scan.field_writes(bi) if pt == scan.self_field("consumed") and v == ("const", 1)]
    takes = [s.block for s in bi.sites if (s.callee.owner in ("OutputArray", "OutputVec") and s.callee.name == "take")
             or s.key == ("MaybeUninit", "assume_init") or s.block in flow.all_take_blocks(bi)]
    for c in u.cps:
        ee = bi.outcome_edges(c.site, "Ready", "Err")
        if not ee:
            ctx.fail("C05.ERR", u.where, "no Ready(Err) edge for %s" % c.label, site=c.where)
            continue
        avoid = common.arm_feasible_avoid(u, c)
        mine = [r for r in err_rets if r[2] is not None and flow.is_payload(r[2], c.block, "Ready", "Err")]
        for r in mine:
            claimed.add(r[0])
        probs = []
        if not mine:
            probs.append("its error is not returned")
        else:
            goal = [r[0] for r in mine]
            header, exits = common.loop_exits(bi, c.block)
            # every path from the Err edge builds that return value before leaving the iteration,
            # and then returns (no path back to the scan loop)
            stops = list(bi.return_blocks) + ([header] if header is not None else [])
            r1 = bi.reach_from_edges(ee, avoid_blocks=goal, stop_blocks=stops, avoid_edges=avoid)
            if any(x in r1 for x in stops):
                probs.append("a path from its Err edge does not return Ready(Err(that error)) in the same call")
            r2 = bi.reach_from_edges(ee, avoid_edges=avoid)
            if header is not None and header in r2:
                probs.append("the scan continues after its error")
            if all_cps & r2:
                probs.append("a child is polled after its error was seen")
            if not consumed_w or not any(x in r2 for x in consumed_w):
                probs.append("`consumed` is not set on the error path")
            else:
                ok, bad = bi.must_reach([t for _, t in ee], consumed_w, bi.return_blocks)
                if not ok:
                    probs.append("`consumed` is not set on every error path")
        if probs:
            for p in sorted(set(probs)):
                ctx.fail("C05.ERR", u.where, "%s: %s" % (c.label, p), site=c.where)
        else:
            ctx.ok("C05.ERR", u.where, "%s: Err => returned at once, consumed set, nothing polled afterwards" % c.label,
                   sample={"returns": common.fmt_blocks(bi, [r[0] for r in mine])})
        r2 = bi.reach_from_edges(ee, avoid_edges=avoid)
        tk = sorted(x for x in takes if x in r2)
        wr = sorted(b for b, slot, idx, v, w in c02.slot_writes(bi) if b in r2)
        ctx.check(not tk and not wr, "C05.DISCARD", u.where, "%s: error path takes / writes no output slot" % c.label, site=c.where,
                  path=common.fmt_blocks(bi, tk + wr))
        # the destructor finds the values the *other* children produced through their slot states: a whole-table reset on the
        # error path (set_all_none / set_all_pending) makes it skip them - they leak instead of being dropped (seed C05-q)
        rs = sorted(b for b, variant, w in scan.state_set_all(bi) if b in r2)
        ctx.check(not rs, "C05.DISCARD", u.where, "%s: error path leaves the other children's slot states to the destructor (no whole-table reset)" % c.label,
                  site=c.where, path=common.fmt_blocks(bi, rs))
    loose = [r for r in err_rets if r[0] not in claimed]
    ctx.check(bool(err_rets) and not loose, "C05.OK", u.where, "every Ready(Err) return carries a polled child's own error",
              site=u.body.span, path=common.fmt_blocks(bi, [r[0] for r in loose]))
