"""C03 — poll discipline: who may poll, skip tests before each poll, finishing marks after a
child's final result, no poll after the deciding child."""
from ..facts import base
from .. import scan, families
from ..families import short
from ..sites import FUTURE, STREAM, is_agg
from ..terms import simple_name
from . import common, prims

PROPERTY = "C03"
LEVEL = "other"
CONFIGS_QUICK = ["std", "alloc", "std-rel"]
CONFIGS_THOROUGH = ["std", "alloc", "core", "std-rel", "alloc-rel", "core-rel"]
EXPLANATION = (
    "Typestate / who-may-call analysis on MIR: (WHO) Future::poll / Stream::poll_next calls occur only inside poll bodies "
    "(impl Future/Stream, poll_next_inner, compiler-generated await loops), never in constructors, group mutators, destructors "
    "or Debug impls, and no such body calls a poll body; (GUARD) every child-poll site is control-dependent on the family's "
    "'child not finished' state test on the same index; (MARK) on the child's final result (Ready / None) every path to the "
    "end of the iteration records that on the same index; (STOP) after the deciding child no other child-poll site is "
    "reachable in that call; (SRC) the source of a concurrent stream is not polled after it returned None.")
ASSUMPTIONS = [
    "callers honour the Future/Stream contract (no poll after the combinator's final result)",
    "slab / BTreeSet / iterator library models as listed in DESIGN.md (trusted base)",
]

RULES = {
    "C03.WHO": "poll calls only in poll bodies; constructors, group API, destructors, Debug never poll nor call a poll body",
    "C03.GUARD": "each child poll is guarded by the family's not-finished state test on the same child",
    "C03.MARK": "child's final result => finishing mark on the same child before the iteration ends",
    "C03.STOP": "no child poll reachable after the deciding child's result in the same call",
    "C03.LATCH": "a body that guards against being polled after its final result (assert on done/consumed/completed) evaluates that guard before any child poll",
    "C03.WAIT": "wait_until: the deadline is never polled again after it returned Ready; the inner value is not polled before (typestate run shared with C19)",
    "C03.SRC": "FromStream::drive: no iter.next() after the source returned None; flush is reached",
    "C03.PRED": "PollState predicates/setters mean what their names say",
}

GUARDS = {
    "join": [("is_pending", True), ("is_ready", False)],
    "try_join": [("is_pending", True), ("is_ready", False)],
    "merge": [("is_none", False), ("is_pending", True)],
    "zip": [("is_ready", False), ("is_pending", True)],
    "race_ok": [("is_ready", False), ("is_pending", True)],
    "future_group": [("is_pending", True)],
    "stream_group": [("is_pending", True)],
}


def run(ctx):
    for rid, text in RULES.items():
        ctx.rule(rid, text)
    for cfg in ctx.configs:
        ctx.current_config = cfg
        M = ctx.model(cfg)
        rule_who(ctx, M)
        units = families.subwaker_units(M) + families.passthrough_units(M, ("race_ok",))
        for u in units:
            if u.family == "race_ok" and u.container == "vec":
                continue
            rule_guard(ctx, u)
        for u in families.all_member_units(M):
            rule_mark(ctx, u)
            rule_stop(ctx, u)
            from . import flow as _flow
            _flow.rule_final_values(ctx, u.bi, "C03.STOP", u.where)
            rule_latch(ctx, u)
        rule_maybe_done(ctx, M)
        from . import c19
        with ctx.renamed({"C19.*": "C03.WAIT"}):
            for kind, adt, ext_trait, tr, meth in c19.TARGETS:
                c19.check_one(ctx, M, kind, adt, ext_trait, tr, meth)
        if base(cfg) != "core":
            rule_src(ctx, M)
        prims.check_pollstate(ctx, M, "C03.PRED")
        ctx.floor("C03.GUARD", cfg, 5 * 78 + (5 if base(cfg) == "core" else 11))
        ctx.floor("C03.MARK", cfg, 7 * 78 + (7 if base(cfg) == "core" else 15))
        ctx.floor("C03.STOP", cfg, 5 * 78 + (5 if base(cfg) == "core" else 11))
    return {}


# ------------------------------------------------------------------------------------------------

def is_poll_body(M, b):
    if b.kind == "AssocFn" and b.j.get("impl_trait_c") in (FUTURE, STREAM) and b.name in ("poll", "poll_next"):
        return True
    if b.kind == "AssocFn" and b.name == "poll_next_inner":
        return True
    return False


def rule_who(ctx, M):
    F = M.F
    allowed_roots = set()
    poll_bodies = set()
    for b in F.bodies:
        if is_poll_body(M, b):
            allowed_roots.add(b.def_)
            poll_bodies.add(b.j["cdef"])
    total_allowed_sites = 0
    n_forbidden = 0
    for b in F.bodies:
        if b.kind in ("Const", "AnonConst"):
            continue
        in_coroutine = b.j.get("coroutine_kind") is not None
        allowed = b.def_ in allowed_roots or b.root in allowed_roots or in_coroutine
        # closures nested in coroutines: root is the async fn; treat closures whose root has a coroutine as allowed
        if not allowed and b.kind == "Closure":
            rootb = F.by_def.get(b.root)
            if rootb is not None and M.coroutine_of(rootb) is not None:
                allowed = True
        polls = []
        calls_poll_body = []
        for blk, t in b.calls():
            if blk not in b.reachable or b.is_cleanup(blk):
                continue
            f = t["func"]
            if "indirect" in f:
                continue
            if (f.get("trait_c") == FUTURE and f["name"] == "poll") or (f.get("trait_c") == STREAM and f["name"] == "poll_next"):
                polls.append((blk, t))
            tgt = f.get("resolved_c") or f.get("cpath")
            if tgt in poll_bodies:
                calls_poll_body.append((blk, t))
        if allowed:
            total_allowed_sites += len(polls)
            continue
        n_forbidden += 1
        if polls or calls_poll_body:
            for blk, t in polls + calls_poll_body:
                ctx.fail("C03.WHO", b.def_, "polls (calls %s) outside a poll body" % (t["func"].get("resolved") or t["func"]["path"]),
                         site=t["sp"])
        else:
            kind = None
            if b.name in ("new", "insert", "remove", "reserve", "extend", "from_iter", "keyed", "with_capacity", "insert_pinned",
                          "join", "try_join", "race", "race_ok", "merge", "zip", "chain", "wait_until", "co", "fmt", "drop",
                          "__drop_inner", "len", "is_empty", "contains_key", "capacity", "default", "into_co_stream", "take", "map",
                          "limit", "enumerate"):
                kind = b.name
            if kind:
                ctx.ok("C03.WHO", b.def_, "%s does not poll" % kind, sample={"calls": sum(1 for _ in b.calls())})
    ctx.require(total_allowed_sites >= 500, "positive control: poll sites inside poll bodies (%d)" % total_allowed_sites)
    ctx.ok("C03.WHO", "<crate>", "positive control: %d poll call sites found inside poll bodies; %d non-poll bodies scanned" % (
        total_allowed_sites, n_forbidden), sample={"poll_sites": total_allowed_sites, "bodies_scanned": n_forbidden})


def guard_edges(u, c):
    bi = u.bi
    out = []
    for pred, val in GUARDS.get(u.family, []):
        for s, idx, base in scan.state_tests(bi, pred):
            if common.same_index(u, c, idx) or zip_item_same(c, s):
                out.extend(bi.outcome_edges(s, val))
    return out


def zip_item_same(c, test_site):
    """race_ok/array: `for ((fut, out), st) in futures.zip(errors).zip(states)`: fut and st are
    components of the same loop item, hence the same position."""
    a = test_site.arg(0)
    r1 = scan.loop_item_root(a)
    r2 = scan.loop_item_root(c.child)
    if r1 is None or r2 is None or r1 != r2:
        return False
    # the iterator must be a zip of full iterators: next() of Zip/Filter-free adapter chain
    it = r1[2][0] if r1[2] else None
    return it is not None and it[0] == "call" and it[1][1] == "zip"


def rule_guard(ctx, u):
    bi = u.bi
    for c in u.cps:
        ge = guard_edges(u, c)
        ok = bool(ge) and bi.guarded_by(c.block, ge)
        ctx.check(ok, "C03.GUARD", u.where, "%s polled only when its state says it is not finished" % c.label, site=c.where,
                  sample={"guard_edges": ge})
        if ok:
            # the guard is re-evaluated before every poll: no way from a poll of the child back to the same poll site
            # (an immediate re-poll loop, a retry after a self-wake) that does not pass the state test again
            tests = sorted({a for a, b_ in ge})
            r = bi.body.reach(bi.body.succs(c.block), avoid_blocks=tests, stop_blocks=bi.return_blocks)
            ctx.check(c.block not in r, "C03.GUARD", u.where, "%s is not polled again without its not-finished test being evaluated again" % c.label,
                      site=c.where)


# finishing marks ---------------------------------------------------------------------------------

def final_edges(u, c):
    """Edges on which the child delivered its final result, with a label."""
    bi = u.bi
    if u.family in ("merge", "zip", "chain", "stream_group"):
        return bi.outcome_edges(c.site, "Ready", "None"), "Ready(None)"
    return bi.outcome_edges(c.site, "Ready"), "Ready"


def mark_blocks(u, c):
    """Blocks that record 'child c is finished' for its family."""
    bi = u.bi
    blocks = []
    fam = u.family
    if fam in ("join", "try_join", "merge", "race_ok", "future_group", "stream_group"):
        want = {"join": ("Ready", "None"), "try_join": ("Ready", "None"), "merge": ("None",), "race_ok": ("Ready", "None"),
                "future_group": ("None",), "stream_group": ("None",)}[fam]
        for b, variant, idx, base, where in scan.state_sets(bi):
            if variant in want and (common.same_index(u, c, idx, b) or zip_state_same(bi, c, b)):
                blocks.append(b)
    if fam in ("race", "race_ok", "zip", "chain", "try_join"):
        for b, pt, v, sp in scan.field_writes(bi):
            if pt in (scan.self_field("done"), scan.self_field("consumed")) and v == ("const", 1):
                blocks.append(b)
    if fam == "chain":
        for b, pt, d, sp in scan.increments(bi):
            if pt == scan.self_field("index") and d == 1:
                blocks.append(b)
    return blocks


def zip_state_same(bi, c, block):
    """race_ok/array: `st.set_ready()` where st is a component of the same loop item as the child."""
    s = bi.by_block.get(block)
    if s is None:
        return False
    r1 = scan.loop_item_root(s.arg(0))
    r2 = scan.loop_item_root(c.child)
    return r1 is not None and r1 == r2


def rule_mark(ctx, u):
    bi = u.bi
    for c in u.cps:
        edges, lab = final_edges(u, c)
        if not edges:
            ctx.fail("C03.MARK", u.where, "no %s edge found for %s" % (lab, c.label), site=c.where)
            continue
        marks = mark_blocks(u, c)
        header, exits = common.loop_exits(bi, c.block)
        # race_ok: the Ok edge returns at once (covered by STOP); the mark is needed on Err
        if u.family == "race_ok":
            e2 = bi.outcome_edges(c.site, "Ready", "Err")
            if e2:
                edges = e2
                lab = "Ready(Err)"
        avoid = common.arm_feasible_avoid(u, c)
        r = bi.reach_from_edges(edges, avoid_blocks=marks, stop_blocks=exits, avoid_edges=avoid)
        bad = [b for b in exits if b in r]
        ctx.check(bool(marks) and not bad, "C03.MARK", u.where, "%s: %s is recorded as finished on %s" % (u.family, c.label, lab),
                  site=c.where, path=common.fmt_blocks(bi, bad), sample={"marks": common.fmt_blocks(bi, marks[:4])})


DECIDING = {
    "race": ("Ready",), "race_ok": ("Ready", "Ok"), "try_join": ("Ready", "Err"), "zip": ("Ready", "None"),
    "merge": ("Ready", "Some"), "stream_group": ("Ready", "Some"), "future_group": ("Ready",),
}


def rule_stop(ctx, u):
    bi = u.bi
    lab = DECIDING.get(u.family)
    if lab is None:
        return
    all_cps = {c.block for c in u.cps}
    for c in u.cps:
        edges = bi.outcome_edges(c.site, *lab)
        if not edges:
            ctx.fail("C03.STOP", u.where, "no %s edge found for %s" % ("/".join(lab), c.label), site=c.where)
            continue
        r = bi.reach_from_edges(edges)
        hit = sorted(all_cps & r)
        ctx.check(not hit, "C03.STOP", u.where, "no child is polled after %s delivered %s" % (c.label, "/".join(lab)), site=c.where,
                  path=common.fmt_blocks(bi, hit))


def panic_blocks(bi):
    """blocks that diverge: calls without a return target (panic_fmt, unreachable, assert failures)"""
    body = bi.body
    out = set()
    for b in body.reachable:
        if body.is_cleanup(b):
            continue
        t = body.term(b)
        if t["k"] == "call" and t.get("t") is None:
            out.add(b)
        elif t["k"] in ("unreachable", "abort"):
            out.add(b)
    return out


def completion_guards(bi):
    """bool switches on a completion flag of self (done / consumed, or counter == const) one of
    whose edges leads only to a panic: returns [(switch entry, live edge, panic edge)]."""
    body = bi.body
    pan = panic_blocks(bi)
    out = []
    for e in bi.switches:
        if e["kind"] != "bool":
            continue
        s = e["subject"]
        is_flag = s[0] == "field" and s[1] == ("param", 1)
        if not is_flag and s[0] == "binop" and s[1] in ("Eq", "Ne"):
            is_flag = any(x[0] == "field" and x[1] == ("param", 1) for x in (s[2], s[3]))
        if not is_flag and s[0] == "phi":
            for d in body.defs.get(s[1], []):
                t = bi.T._of_def(s[1], d, 1)
                for x in (t,) + tuple(t[1:] if isinstance(t, tuple) else ()):
                    if isinstance(x, tuple) and x and x[0] in ("binop", "unop"):
                        from ..terms import subterms as _st
                        if any(y[0] == "field" and y[1] == ("param", 1) for y in _st(x)):
                            is_flag = True
        if not is_flag:
            continue
        for lab in (True, False):
            pe = bi.edge(e, lab)
            le = bi.edge(e, not lab)
            if not pe or not le:
                continue
            r = body.reach([pe[1]])
            if r and not any(body.term(x)["k"] == "return" for x in r) and (r & pan):
                out.append((e, le, pe))
    return out


def rule_latch(ctx, u):
    bi = u.bi
    guards = completion_guards(bi)
    if not guards:
        ctx.ok("C03.LATCH", u.where, "%s: body has no polled-after-completion guard (caller contract; nothing to order)" % u.label, nontrivial=False)
        return
    live = [le for e, le, pe in guards]
    bad = [c for c in u.cps if not bi.guarded_by(c.block, live)]
    ctx.check(not bad, "C03.LATCH", u.where, "%s: the polled-after-completion guard is evaluated before any child is polled" % u.label,
              site=(bad[0].where if bad else u.body.span), path=[c.where for c in bad[:4]])


def rule_maybe_done(ctx, M):
    """MaybeDone::poll: Future(f) -> poll f, on Ready store Done(out); Done -> Ready without poll."""
    b = None
    for x in M.F.bodies:
        if x.name == "poll" and x.j.get("impl_trait_c") == FUTURE and (M.adt_of_type(x.impl_self) or "").endswith("maybe_done::MaybeDone"):
            b = x
    if b is None:
        if M.config == "core":
            return
        ctx.require(False, "MaybeDone::poll")
    bi = M.info(b)
    cps = bi.child_polls()
    ok = len(cps) == 1
    if ok:
        c = cps[0]
        # the poll is guarded by the `Future` arm of the match on self
        guards = []
        for e in bi.switches:
            if e["kind"] == "discr":
                ed = bi.edge(e, "Future")
                if ed:
                    guards.append(ed)
        ok = bool(guards) and bi.guarded_by(c.block, guards)
        ctx.check(ok, "C03.GUARD", b.def_, "MaybeDone polls its future only in the Future state", site=c.where)
        # on Ready: Pin::set(self, Done(res)) before return
        edges = bi.outcome_edges(c, "Ready")
        def is_done_of_output(v):
            from . import flow as _flow
            if v is not None and v[0] == "agg" and v[1] == ("MaybeDone", "Done") and v[2]:
                return _flow.is_payload(v[2][0], c.block, "Ready") or _flow.is_payload(_flow.refine(bi, v[2][0]), c.block, "Ready")
            return False
        sets = [s.block for s in bi.sites if s.callee.key == ("Pin", "set") and is_done_of_output(s.arg(1))]
        # `*this = MaybeDone::Done(res)` through the (unpinned) self reference
        body_ = bi.body
        for blk_ in sorted(body_.reachable):
            if body_.is_cleanup(blk_):
                continue
            for st_ in body_.stmts(blk_):
                if st_["k"] == "assign" and st_["lhs"]["p"] and bi.T.of_place(st_["lhs"]) == ("param", 1) and is_done_of_output(bi.T.of_rvalue(st_["rv"], 0)):
                    sets.append(blk_)
        good, bad = bi.must_reach([t for _, t in edges], sets, bi.return_blocks)
        ctx.check(bool(edges) and bool(sets) and good, "C03.MARK", b.def_, "MaybeDone becomes Done(output) when its future resolves",
                  site=c.where, path=common.fmt_blocks(bi, bad))
    else:
        ctx.fail("C03.GUARD", b.def_, "MaybeDone::poll has %d child-poll sites (expected 1)" % len(cps), site=b.span)


def rule_src(ctx, M):
    """FromStream::drive: after `iter.next()` yields None nothing polls the source again."""
    ent = None
    for adt, e in M.costreams.items():
        if adt.endswith("from_stream::FromStream"):
            ent = e
    ctx.require(ent is not None and ent["drive"] is not None, "FromStream::drive coroutine")
    from . import costream
    costream.check_drive_src(ctx, M, ent["drive"], "C03.SRC")
