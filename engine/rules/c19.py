"""C19 — wait_until: the inner future/stream is untouched until the deadline resolves; the deadline
is never polled afterwards; from then on the combinator is the inner value."""
from .. import scan, typestate
from ..families import short
from ..sites import FUTURE, STREAM, is_agg
from ..terms import simple_name
from . import common

PROPERTY = "C19"
LEVEL = "model_checking"
TECHNIQUE = ("typestate analysis (conditional constant propagation with explicit abstract-state enumeration) of the MIR of both "
             "WaitUntil poll bodies over the `state` field, children opaque; constructor / extension-method data-flow checks")
CONFIGS_QUICK = ["std", "std-rel"]
CONFIGS_THOROUGH = ["std", "alloc", "core", "std-rel", "alloc-rel", "core-rel"]
EXPLANATION = (
    "Both WaitUntil poll bodies are finite-state in their `state` field and treat the deadline and the inner future/stream as "
    "opaque children, so an abstract run over (block, state value, deadline-resolved-in-this-call, inner-polled) from every entry "
    "state covers every deadline behaviour, every inner behaviour and every spurious poll. Decided on every abstract path: (GATE) "
    "the deadline is polled only in the initial state and the inner value only in a later state; (LATCH) the state leaves the "
    "initial value exactly on paths that saw the deadline return Ready in this call, before any return, and never goes back; "
    "(SAME) after the deadline resolves the inner value is polled before returning; (PASS) the inner poll's result is returned "
    "unchanged, deadline Pending returns Pending without touching the inner value; (CTX) both children get the caller's context; "
    "(EXT) the extension methods build WaitUntil{inner: self, deadline: deadline.into_future(), state: initial}.")
ASSUMPTIONS = [
    "unwinding out of a child's poll is not modelled (the state is only written after the call returns)",
    "pin-project's projection is a field access",
]
RULES = {
    "C19.ORIGIN": "every value the wrapper returns is the inner value's own result of this call, or Pending caused by the deadline / inner value: nothing is fabricated (no fusing, no synthetic end)",
    "C19.GATE": "deadline polled only in the initial state; inner polled only in a non-initial state",
    "C19.LATCH": "state leaves the initial value only after deadline->Ready in this call, on every such path before returning, never back",
    "C19.SAME": "every path from deadline->Ready polls the inner value before returning",
    "C19.PASS": "inner result is the result; deadline Pending => Pending with no inner poll",
    "C19.CTX": "both child polls receive the caller's Context",
    "C19.EXT": "FutureExt/StreamExt::wait_until = WaitUntil::new(self, deadline.into_future()); new stores (inner, deadline, initial state)",
}

TARGETS = [
    ("future", "futures_concurrency::future::wait_until::WaitUntil", "futures_concurrency::future::futures_ext::FutureExt", FUTURE, "poll"),
    ("stream", "futures_concurrency::stream::wait_until::WaitUntil", "futures_concurrency::stream::stream_ext::StreamExt", STREAM, "poll_next"),
]


def run(ctx):
    for rid, text in RULES.items():
        ctx.rule(rid, text)
    states = transitions = 0
    samples = []
    for cfg in ctx.configs:
        ctx.current_config = cfg
        M = ctx.model(cfg)
        for kind, adt, ext_trait, tr, meth in TARGETS:
            s, t, smp = check_one(ctx, M, kind, adt, ext_trait, tr, meth)
            states += s
            transitions += t
            samples += smp
        for r in ("C19.GATE", "C19.LATCH", "C19.SAME", "C19.PASS", "C19.CTX", "C19.EXT"):
            ctx.floor(r, cfg, 2)
    return {"states": states, "transitions": transitions, "traces_validated_against_impl": 0,
            "abstract_runs": samples[:12]}


def find_ext(M, ext_trait):
    for b in M.F.bodies:
        if b.name == "wait_until" and b.j["cdef"].startswith(ext_trait):
            return b
    return None


def check_one(ctx, M, kind, adt, ext_trait, tr, meth):
    poll = M.poll_body_of(adt)
    new = M.inherent_fn(adt, "new")
    ext = find_ext(M, ext_trait)
    ctx.require(poll is not None and new is not None and ext is not None, "%s WaitUntil poll/new/ext bodies" % kind)
    where = poll.def_
    # ---------------------------------------------------------------- EXT: roles of the fields
    nbi = M.info(new)
    agg = None
    for b in sorted(new.reachable):
        for s in new.stmts(b):
            if s["k"] == "assign" and s["rv"]["k"] == "agg" and s["rv"].get("cpath") == adt:
                agg = s["rv"]
    ctx.require(agg is not None, "WaitUntil aggregate in %s" % new.def_)
    fvals = dict(zip(agg["fnames"], [nbi.T.of_operand(f) for f in agg["fields"]]))
    inner_f = [n for n, v in fvals.items() if v == ("param", 1)]
    dl_f = [n for n, v in fvals.items() if v == ("param", 2)]
    st_f = [n for n, v in fvals.items() if v[0] == "agg" and isinstance(v[1], tuple)]
    ok = len(inner_f) == 1 and len(dl_f) == 1 and len(st_f) == 1
    ctx.check(ok, "C19.EXT", new.def_, "new(inner, deadline) stores arg1 / arg2 in two distinct fields and an initial state constant",
              site=new.span, sample={k: short(v) for k, v in fvals.items()})
    if not ok:
        return 0, 0, []
    inner_f, dl_f, st_f = inner_f[0], dl_f[0], st_f[0]
    init = fvals[st_f][1][1]
    ebi = M.info(ext)
    calls = [s for s in ebi.sites if s.callee.name == "new" and s.callee.owner == "WaitUntil"]
    ok = len(calls) == 1 and ebi.assigns_to_return() and calls[0].dest_local == 0
    if ok:
        a0, a1 = calls[0].arg(0), calls[0].arg(1)
        ok = a0 == ("param", 1) and a1 is not None and a1[0] == "call" and a1[1][1] == "into_future" and a1[2][0] == ("param", 2)
        # into_future of the blanket impl is folded to identity by the term builder when resolved; accept both
        ok = ok or (a0 == ("param", 1) and a1 == ("param", 2))
    ctx.check(ok, "C19.EXT", ext.def_, "wait_until(self, deadline) = WaitUntil::new(self, deadline.into_future())", site=ext.span)
    # nothing else builds a WaitUntil: an inherent `wait_until` on the wrapper itself (which would shadow the extension
    # method and, say, merge stacked deadlines into one) or any other constructor changes what `x.wait_until(d)` means
    others = []
    for x in M.F.bodies:
        if x.kind in ("Const", "AnonConst") or x.def_ in (ext.def_, new.def_) or "::test" in x.def_:
            continue
        for blk in sorted(x.reachable):
            if x.is_cleanup(blk):
                continue
            t = x.term(blk)
            if t["k"] == "call" and "indirect" not in t["func"] and (t["func"].get("resolved_c") or t["func"].get("cpath")) == new.j["cdef"]:
                others.append("%s calls WaitUntil::new" % x.def_)
            for st in x.stmts(blk):
                if st["k"] == "assign" and st["rv"]["k"] == "agg" and st["rv"].get("cpath") == adt:
                    others.append("%s builds a WaitUntil" % x.def_)
    ctx.check(not others, "C19.EXT", new.def_, "WaitUntil is built only by `new`, which is called only by the extension method", site=new.span, path=others[:4])

    # ---------------------------------------------------------------- poll body
    bi = M.info(poll)
    cps = bi.child_polls()
    dl = [s for s in cps if s.arg(0) == scan.self_field(dl_f)]
    inner = [s for s in cps if s.arg(0) == scan.self_field(inner_f)]
    other = [s for s in cps if s not in dl and s not in inner]
    ctx.require(dl and inner, "%s: deadline (%d) and inner (%d) poll sites" % (where, len(dl), len(inner)))
    for s in other:
        ctx.fail("C19.GATE", where, "poll of something that is neither the deadline nor the inner value", site=s.where)
    for s in cps:
        ctx.check(common.is_caller_cx(bi, s.arg(1)), "C19.CTX", where,
                  "%s polled with the caller's context" % ("deadline" if s in dl else "inner"), site=s.where)
    # variants of the state enum
    st_place = scan.self_field(st_f)
    variants = None
    copies = typestate.Tracker(bi, [(st_f, st_place, "enum")]).copy_locals
    state_local = None
    for e in bi.switches:
        s_ = e["subject"]
        if e["kind"] == "discr" and s_[0] == "phi" and s_[1] in copies:
            state_local = s_[1]
        on_state = s_ == st_place or (s_[0] == "phi" and s_[1] in copies) or (s_[0] == "call" and s_[1] in (("core::mem::replace", "replace"), ("core::mem::take", "take")) and s_[2] and s_[2][0] == st_place)
        if e["kind"] == "discr" and on_state:
            variants = [l for l in e["edges"] if l != "otherwise"] + e.get("otherwise_names", [])
    ctx.require(variants and init in variants, "%s: match on self.%s with variants" % (where, st_f))
    flag_edges = {}
    for s in dl:
        for ed in bi.outcome_edges(s, "Ready"):
            flag_edges[ed] = "dl_ready"
        for ed in bi.outcome_edges(s, "Pending"):
            flag_edges[ed] = "dl_pending"
    ctx.require(any(v == "dl_ready" for v in flag_edges.values()), "%s: deadline Ready edge" % where)
    flag_sites = {s.block: "inner_polled" for s in inner}
    flag_sites.update({s.block: "dl_polled" for s in dl})
    tr = typestate.Tracker(bi, [(st_f, st_place, "enum")], flag_edges=flag_edges, flag_sites=flag_sites)
    nstates = ntrans = 0
    samples = []
    # the state the body acts on: the field, or its local working copy while one is in use
    ci = tr.names.index("_copy_%d" % state_local) if state_local is not None else None

    def eff(vals):
        if ci is not None and vals[ci] != typestate.TOP:
            return vals[ci]
        return vals[0]
    dl_blocks = {s.block for s in dl}
    in_blocks = {s.block for s in inner}
    for entry in variants:
        r = tr.run({st_f: entry})
        nstates += r.states
        ntrans += r.transitions
        smp = {"body": where, "entry_state": entry, "abstract_states": r.states, "transitions": r.transitions,
               "returns": sorted({(v[0], ",".join(sorted(f))) for _, v, f in r.at_return})}
        samples.append(smp)
        # GATE
        for b in dl_blocks:
            for vals, flags in r.at_site.get(b, ()):
                ok = eff(vals) == init and "dl_ready" not in flags and "dl_polled" not in flags
                ctx.check(ok, "C19.GATE", where, "entry %s: deadline polled in state %s%s" % (entry, eff(vals), " (again)" if not ok else ""),
                          site=bi.describe(b))
        for b in in_blocks:
            for vals, flags in r.at_site.get(b, ()):
                ok = eff(vals) != init and eff(vals) != typestate.TOP and (entry != init or "dl_ready" in flags)
                ctx.check(ok, "C19.GATE", where, "entry %s: inner polled in state %s %s" % (
                    entry, eff(vals), "after the deadline resolved" if "dl_ready" in flags else "with the deadline already resolved earlier" if entry != init else "BEFORE the deadline resolved"),
                    site=bi.describe(b))
        # LATCH
        for b, n, old, new, flags, sp in r.writes:
            if n != st_f:
                continue
            if old == init and new != init and new != typestate.TOP:
                ctx.check("dl_ready" in flags, "C19.LATCH", where, "entry %s: state %s -> %s written only after the deadline returned Ready" % (entry, old, new), site=sp)
            elif old == init and new == init:
                ctx.ok("C19.LATCH", where, "entry %s: state %s stored unchanged" % (entry, old))
            elif new == init or new == typestate.TOP:
                ctx.fail("C19.LATCH", where, "entry %s: state written back to %s" % (entry, new), site=sp)
            else:
                ctx.ok("C19.LATCH", where, "entry %s: state %s -> %s" % (entry, old, new))
        for b, vals, flags in r.at_return:
            if "dl_ready" in flags:
                ctx.check(vals[0] != init, "C19.LATCH", where, "entry %s: returns after deadline Ready with state %s (deadline would be polled again)" % (entry, vals[0])
                          if vals[0] == init else "entry %s: state is %s at the return that follows deadline Ready" % (entry, vals[0]), site=bi.describe(b))
                ctx.check("inner_polled" in flags, "C19.SAME", where, "entry %s: inner value polled in the poll in which the deadline resolved" % entry,
                          site=bi.describe(b))
            if "dl_pending" in flags:
                ctx.check("inner_polled" not in flags and vals[0] == init, "C19.PASS", where,
                          "entry %s: deadline Pending => return without polling the inner value, state unchanged" % entry, site=bi.describe(b))
            if entry != init:
                ctx.check("dl_polled" not in flags, "C19.GATE", where, "entry %s: deadline not polled on the path to this return" % entry, site=bi.describe(b))
    # ---------------------------------------------------------------- PASS: value flow
    pend_blocks = set(common.pending_blocks(bi))
    for s in inner:
        if s.dest_local == 0:
            # tail call: the inner result *is* the return value; nothing may overwrite _0 afterwards
            later = bi.body.reach([s.target])
            over = [b for b, i, rv in bi.assigns_to_return() if b in later and b != s.block]
            ctx.check(not over, "C19.PASS", where, "inner poll result is returned as it is", site=s.where, path=common.fmt_blocks(bi, over))
            continue
        re = bi.outcome_edges(s, "Ready")
        pe = bi.outcome_edges(s, "Pending")
        ok = bool(re) and bool(pe)
        if ok:
            # the values that may be returned, at the block that builds them (directly into _0 or into a
            # local that is returned later: `break Poll::Pending` / `let output = ..; output`)
            from . import flow as _flow
            vals_ = _flow.returned_values(bi)
            # Pending edge: every return reached carries a Poll::Pending built after the edge
            rp = bi.reach_from_edges(pe)
            sets = [b for b, k_, p_, t_ in vals_ if k_ == "Pending" and b in rp]
            good, bad = bi.must_reach([t for _, t in pe], sets, bi.return_blocks)
            others = [b for b, k_, p_, t_ in vals_ if k_ != "Pending" and b in rp]
            ctx.check(good and not others, "C19.PASS", where, "inner Pending => Pending", site=s.where, path=common.fmt_blocks(bi, bad + others))
            rr = bi.reach_from_edges(re)
            want = ("field", ("variant", s.term, "Ready"), 0)
            rets = [(b, k_, p_, t_) for b, k_, p_, t_ in vals_ if b in rr]
            good = bool(rets)
            for b, k_, p_, t_ in rets:
                if not (t_ is not None and t_[0] == "agg" and t_[1] == ("Poll", "Ready") and t_[2] == (want,)):
                    good = False
            g2, bad = bi.must_reach([t for _, t in re], [b for b, _, _, _ in rets], bi.return_blocks)
            ctx.check(good and g2, "C19.PASS", where, "inner Ready(v) => Ready(v) with the same v", site=s.where, path=common.fmt_blocks(bi, bad))
        else:
            ctx.fail("C19.PASS", where, "inner poll result is neither returned directly nor matched on Ready/Pending", site=s.where)
    # ---------------------------------------------------------------- ORIGIN: nothing is fabricated
    from . import flow
    dl_pend = [ed for s in dl for ed in bi.outcome_edges(s, "Pending")]
    in_pend = [ed for s in inner for ed in bi.outcome_edges(s, "Pending")]
    for blk, kind, payload, t in flow.returned_values(bi):
        if t[0] == "call" and any(t[3] == s.block for s in inner):
            ctx.ok("C19.ORIGIN", where, "returns the inner poll result itself", sample={"at": bi.describe(blk)})
            continue
        if kind == "Pending":
            ok = bi.guarded_by(blk, dl_pend + in_pend)
            ctx.check(ok, "C19.ORIGIN", where, "Pending is returned only because the deadline or the inner value returned Pending", site=bi.describe(blk))
            continue
        ok = False
        for s in inner:
            if kind == "Ready" and payload is not None and flow.is_payload(payload, s.block, "Ready"):
                ok = True
            elif kind in ("Ready(Some)", "Ready(None)"):
                lab = kind[6:-1]
                eds = bi.outcome_edges(s, "Ready", lab)
                if eds and bi.guarded_by(blk, eds) and (lab == "None" or (payload is not None and flow.is_payload(payload, s.block, "Ready", "Some"))):
                    ok = True
        ctx.check(ok, "C19.ORIGIN", where, "a %s value is returned only as the inner value's own result of this call" % kind, site=bi.describe(blk))
    return nstates, ntrans, samples
