"""C17 — merge fairness: the structural premises of the rotation argument."""
from ..facts import base
from .. import families, scan
from ..families import loop_domain, ctor_fields, short
from . import racelike, flow, common, c01, c20, prims

PROPERTY = "C17"
LEVEL = "other"
CONFIGS_QUICK = ["std", "std-rel"]
CONFIGS_THOROUGH = ["std", "alloc", "core", "std-rel", "alloc-rel", "core-rel"]
EXPLANATION = (
    "Decides the four structural premises from which the N-yield bound follows (paper argument in DESIGN.md §3/C17), on the MIR "
    "of Indexer and of every merge poll_next body (tuple arities 1-12, array, Vec): (ROT) path summaries of Indexer::new / "
    "Indexer::iter / IndexIter::next: new starts at offset 0 with max = the argument; iter hands out a rotation of 0..max that "
    "starts at the old offset and stores (offset + 1) rem max; next yields (pos + offset) rem end for pos in 0..end; (USE) every "
    "merge poll_next calls Indexer::iter on its own `indexer` field exactly once per call, outside any loop, before every child "
    "poll, the scan loop iterates that iterator, and the Indexer is built with the number of inputs; (WIN) the first scanned "
    "input that yields an item ends the call with that item and a Pending input does not stop the scan; (REARM) an input that "
    "yielded is re-armed before the return. The numeric bound itself is argued from these premises, not computed.")
ASSUMPTIONS = [
    "usize arithmetic does not overflow for realistic input counts (offset < max <= isize::MAX)",
    "an input that 'always has an item' returns Ready(Some) whenever polled; the other inputs are arbitrary",
]
RULES = {
    "C17.ROT": "Indexer::new / iter / IndexIter::next summaries: rotation of 0..max starting at the old offset, offset advances by one mod max",
    "C17.USE": "each merge poll_next: exactly one Indexer::iter(self.indexer) per call, not in a loop, dominating all child polls; the scan iterates it; Indexer::new(number of inputs)",
    "C17.WIN": "first input with an item wins the call; Pending input => scan continues",
    "C17.REARM": "input re-armed after yielding",
}


def run(ctx):
    for rid, text in RULES.items():
        ctx.rule(rid, text)
    for cfg in ctx.configs:
        ctx.current_config = cfg
        M = ctx.model(cfg)
        prims.check_indexer(ctx, M, "C17.ROT")
        units = families.subwaker_units(M, ("merge",), groups=False)
        for u in units:
            rule_use(ctx, M, u)
            with ctx.renamed({"C20.CONT": "C17.WIN", "C01.REARM": "C17.REARM"}):
                racelike.rule_win(ctx, M, u, "C17.WIN", ("Ready", "Some"), "Ready(Some)")
                c20.rule_cont(ctx, M, u)
                c01.rule_rearm(ctx, u)
        rule_who(ctx, M, units)
        # "an input that always has an item is visited again" rests on the bit discipline of the merges: a cleared bit is
        # followed by a poll, a yielding input is re-armed, the scan is not cut short
        c01.live_premises(ctx, M, units, "C17.REARM")
        na = 1 if base(cfg) == "core" else 2
        ctx.floor("C17.ROT", cfg, 3)
        ctx.floor("C17.USE", cfg, 12 + na)
        ctx.floor("C17.WIN", cfg, 2 * (78 + na))
        ctx.floor("C17.REARM", cfg, 78 + na)
    return {}


def rule_who(ctx, M, units):
    """The rotation state is touched only by Indexer::{new, iter}: no poll body replaces or rewinds
    its indexer, nothing outside the Indexer impl writes offset/max, and Indexer::new is called only
    by constructors."""
    F = M.F
    ctor_defs = set()
    for m in M.members:
        for b in (m.ctor, m.new):
            if b is not None:
                ctor_defs.add(b.def_)
    n_new = 0
    n_bodies = 0
    for x in F.bodies:
        if x.kind in ("Const", "AnonConst"):
            continue
        n_bodies += 1
        xi = M.info(x)
        in_indexer = x.impl_self is not None and (M.adt_of_type(x.impl_self) or "").endswith("indexer::Indexer")
        for s in xi.sites:
            if s.callee.owner == "Indexer" and s.callee.name not in ("new", "iter"):
                ctx.fail("C17.USE", x.def_, "the rotation state is manipulated through Indexer::%s" % s.callee.name, site=s.where)
            if s.key == ("Indexer", "new"):
                n_new += 1
                if x.def_ not in ctor_defs and not in_indexer:
                    ctx.fail("C17.USE", x.def_, "Indexer::new is called outside a constructor (the rotation would restart)", site=s.where)
        for blk, pt, v, sp in scan.field_writes(xi):
            path = []
            t = pt
            while t[0] in ("field", "index", "variant"):
                path.append(t[2])
                t = t[1]
            if "indexer" in path and not in_indexer:
                ctx.fail("C17.USE", x.def_, "a body outside Indexer writes the combinator's `indexer` field", site=sp)
            if in_indexer and x.name not in ("new", "iter") and path and path[-1] in ("offset", "max"):
                ctx.fail("C17.USE", x.def_, "Indexer.%s is written outside new/iter" % path[-1], site=sp)
    ctx.require(n_new >= 12, "positive control: Indexer::new sites in constructors (%d)" % n_new)
    ctx.ok("C17.USE", "<crate>", "rotation state touched only by Indexer::{new (in constructors, %d sites), iter}; %d bodies scanned" % (n_new, n_bodies))


def rule_use(ctx, M, u):
    bi = u.bi
    its = [s for s in bi.sites if s.key == ("Indexer", "iter")]
    probs = []
    if len(its) != 1:
        probs.append("%d Indexer::iter calls in the body (expected exactly 1)" % len(its))
    else:
        s = its[0]
        if s.arg(0) != scan.self_field("indexer"):
            probs.append("Indexer::iter is not called on self.indexer")
        if bi.body.innermost_loop(s.block) is not None:
            probs.append("Indexer::iter is called inside a loop (offset advances more than once per call)")
        for c in u.cps:
            if not bi.body.blocks_dominate([s.block], c.block):
                probs.append("a child poll is reachable without calling Indexer::iter")
                break
        for c in u.cps:
            kind, det = loop_domain(u, c)
            if kind != "indexer" or det != scan.self_field("indexer"):
                probs.append("the scan loop does not iterate the Indexer rotation (domain: %s)" % kind)
                break
    fields, cb, cbi = ctor_fields(M, u.member)
    ix = (fields or {}).get("indexer")
    okn = ix is not None and ix[0] == "call" and ix[1] == ("Indexer", "new") and ix[2]
    if okn:
        n = ix[2][0]
        if u.container == "tuple":
            okn = n == ("const", u.arity)
        else:
            okn = n == ("sym", "N") or (n[0] == "call" and n[1][1] == "len")
    if not okn:
        probs.append("Indexer is not created with the number of inputs (%s)" % (short(ix) if ix else None))
    if probs:
        for p in sorted(set(probs)):
            ctx.fail("C17.USE", u.where, p, site=u.body.span)
    else:
        ctx.ok("C17.USE", u.where, "one Indexer::iter(self.indexer) per call, before the scan, scan iterates it, Indexer::new(#inputs)",
               sample={"iter_site": its[0].where})
