"""C10 — chain: concatenation in order with strictly sequential evaluation."""
from ..facts import base
from .. import families, scan
from ..families import short, ctor_fields
from . import flow, common, joinlike, c01

PROPERTY = "C10"
LEVEL = "other"
CONFIGS_QUICK = ["std", "std-rel"]
CONFIGS_THOROUGH = ["std", "alloc", "core", "std-rel", "alloc-rel", "core-rel"]
EXPLANATION = (
    "Typestate rules over the `index` field on the MIR of every chain poll_next body (tuple arities 1-12, array, Vec): (SEL) the "
    "polled input is selected by `index` and nothing else - array/Vec poll `iter_pin_mut(self.streams).nth(self.index)`, tuples "
    "have exactly one arm per position K of `match index`, arm K polling field K; (MONO) constructors set index := 0 and the only "
    "writes to `index` are `index + 1`, exactly once on an input's Ready(None) path and nowhere else - hence an input is not "
    "polled until every earlier one returned None, and never again afterwards; (END) Ready(None) is returned only under "
    "index == number of inputs (with done := true), that test is re-evaluated after every advance before anything is polled or "
    "returned; (PASS) the selected input's Ready(Some(x)) and Pending are returned as they are in the same call (payload flow / "
    "the poll result itself), leaving `index` untouched; (ZERO) zero-length world returns Ready(None) without polling; (EXT) "
    "StreamExt::chain builds (self, other).")
EXPLANATION += (' (CTOR) the entry point stores the operands in order: input K of the chain is operand K.')
EXPLANATION += (' (SEL, helpers) iter_pin_mut* / get_pin_mut* are the standard slice / Vec accessors of their argument re-pinned element-wise - no hand-written pointer walk, no own Iterator impl in utils::pin. (EXT, surface) no inherent method named `chain` on a stream type of the crate, and no body moves a field out of a by-value combinator.')
ASSUMPTIONS = [
    "Iterator::nth(i) on a slice iterator yields the element at position i (library model)",
]
RULES = {
    "C10.CTOR": "entry point: every operand becomes the child of its own position, converted by into_future / into_stream only; nothing reorders, drops or duplicates operands",
    "C10.LIVE": "premises from the wake protocol, re-checked here for this family: task waker registered first, child polled with its own sub-waker (or the caller's context), no readiness lock across a child poll, a cleared bit is followed by a poll, re-arm after an item, readiness primitives / Wake::wake forward correctly",
    "C10.SEL": "the polled child is selected by self.index: nth(index) over the whole container / one match arm per tuple position",
    "C10.MONO": "index starts at 0; only written as index+1, once per Ready(None) of the selected input, nowhere else",
    "C10.END": "Ready(None) only under index == len (done := true); the test is evaluated after every advance before polling/returning",
    "C10.PASS": "Ready(Some(x)) / Pending of the selected input are returned unchanged in the same call",
    "C10.ZERO": "zero-length world (array, Vec) returns Ready(None) without polling",
    "C10.EXT": "StreamExt::chain(self, other) = Chain::chain((self, other))",
}


def run(ctx):
    for rid, text in RULES.items():
        ctx.rule(rid, text)
    for cfg in ctx.configs:
        ctx.current_config = cfg
        M = ctx.model(cfg)
        units = families.passthrough_units(M, ("chain",))
        c01.live_premises(ctx, M, units, "C10.LIVE")
        from . import ctors
        ctors.run_family(ctx, M, units, "C10.CTOR", cfg)
        for u in units:
            rule_sel(ctx, M, u)
            rule_mono(ctx, M, u)
            rule_end(ctx, M, u)
            rule_pass(ctx, M, u)
            if u.container in ("array", "vec"):
                joinlike.rule_zero(ctx, M, u, "C10.ZERO", ("Ready(None)",))
        from . import common as _cm
        ctx.require(_cm.rule_pin_utils(ctx, M, "C10.SEL") >= 1, "utils::pin helpers")
        n = joinlike.rule_ext(ctx, M, "stream::stream_ext::StreamExt", "chain", "chain", "C10.EXT")
        ctx.require(n >= 1, "StreamExt::chain")
        na = 1 if base(cfg) == "core" else 2
        ctx.floor("C10.SEL", cfg, 12 + na)
        ctx.floor("C10.MONO", cfg, 78 + na + 2 * (12 + na))
        ctx.floor("C10.END", cfg, 78 + na + 12 + na)
        ctx.floor("C10.PASS", cfg, 2 * (78 + na))
        ctx.floor("C10.ZERO", cfg, na)
    return {}


INDEX = scan.self_field("index")


def rule_sel(ctx, M, u):
    bi = u.bi
    probs = []
    if not u.cps:
        probs.append("no child poll")
    if u.container == "tuple":
        per_pos = {}
        for c in u.cps:
            per_pos.setdefault(c.pos, []).append(c)
            if c.loop_idx != INDEX:
                probs.append("child#%s is not selected by self.index" % c.pos)
            elif c.arm != c.pos:
                probs.append("arm %s of `match index` polls field %s" % (c.arm, c.pos))
        if set(per_pos) != set(range(u.arity)):
            probs.append("polled positions %s != 0..%d" % (sorted(k for k in per_pos if k is not None), u.arity - 1))
        if any(len(v) != 1 for v in per_pos.values()):
            probs.append("a position is polled at several sites")
        consts = [k for k in u.arms(INDEX).constants if k != u.arity]   # `index == LEN` is the end test, not an arm
        if set(consts) != set(range(u.arity)):
            probs.append("arms of `match index` %s != 0..%d" % (consts, u.arity - 1))
    else:
        if len(u.cps) != 1:
            probs.append("%d child-poll sites (expected 1)" % len(u.cps))
        for c in u.cps:
            t = c.child
            while t[0] in ("field", "variant"):
                t = t[1]
            good = t[0] == "call" and t[1][1] == "nth" and len(t[2]) == 2 and t[2][1] == INDEX
            if good:
                it = t[2][0]
                good = it[0] == "call" and it[1][1] in ("iter_pin_mut", "iter_pin_mut_vec") and it[2] and it[2][0] == scan.self_field("streams")
            elif t[0] == "call" and t[1][1] in ("get_pin_mut", "get_pin_mut_from_vec") and len(t[2]) == 2:
                # the crate's own pinned accessor: element `index` of the whole container
                good = t[2][0] == scan.self_field("streams") and t[2][1] == INDEX
            elif t[0] == "index":
                good = t[1] == scan.self_field("streams") and t[2] == INDEX
            if not good:
                probs.append("polled input is not iter_pin_mut(self.streams).nth(self.index) (%s)" % short(c.child))
    for c in u.cps:
        if not common.is_caller_cx(bi, c.ctx):
            probs.append("%s is not polled with the caller's context" % c.label)
    if probs:
        for p in sorted(set(probs)):
            ctx.fail("C10.SEL", u.where, p, site=u.body.span)
    else:
        ctx.ok("C10.SEL", u.where, "input selected by self.index only (%s)" % ("one arm per position" if u.container == "tuple" else "nth(index)"))


def rule_mono(ctx, M, u):
    bi = u.bi
    fields, cb, cbi = ctor_fields(M, u.member)
    ctx.check((fields or {}).get("index") == ("const", 0), "C10.MONO", cb.def_ if cb else u.where, "%s: index starts at 0" % u.label,
              site=cb.span if cb else u.body.span)
    ups = flow.counter_updates(bi, "index")
    all_ne = []
    for c in u.cps:
        ne = bi.outcome_edges(c.site, "Ready", "None")
        all_ne += ne
        if not ne:
            ctx.fail("C10.MONO", u.where, "no Ready(None) edge for %s" % c.label, site=c.where)
            continue
        header, exits = common.loop_exits(bi, c.block)
        avoid = common.arm_feasible_avoid(u, c)
        mine = [b for b, d, sp in ups if bi.guarded_by(b, ne)]
        probs = flow.once_on_paths(bi, [t for _, t in ne], mine, exits, avoid)
        if any(d != 1 for b, d, sp in ups if b in mine):
            probs.append("index changed by something other than +1")
        ctx.check(not probs, "C10.MONO", u.where, "%s: index+1 exactly once on its Ready(None) path" % c.label, site=c.where, path=probs)
    loose = [(b, sp) for b, d, sp in ups if not bi.guarded_by(b, all_ne)]
    ctx.check(bool(ups) and not loose, "C10.MONO", u.where, "index is written only when the selected input returned None", site=u.body.span,
              path=[sp for _, sp in loose])


def len_target(M, u):
    if u.container == "tuple":
        return lambda t: t == ("const", u.arity)
    fields, cb, cbi = ctor_fields(M, u.member)
    ln = (fields or {}).get("len")
    ok_len = ln is not None and ln[0] == "call" and ln[1][1] == "len" and ln[2] and ln[2][0][0] == "param"
    return lambda t: (t == scan.self_field("len") and ok_len) or t == ("sym", "N") or (
        t[0] == "call" and t[1][1] == "len" and t[2] and t[2][0] == scan.self_field("streams"))


def rule_end(ctx, M, u):
    bi = u.bi
    target = len_target(M, u)
    guard = flow.edges_where(bi, INDEX, "Eq", target)
    tests = [e["block"] for e, o, x, y in flow.compare_tests(bi) if (x == INDEX and target(y)) or (y == INDEX and target(x))]
    rets = flow.returns_of(bi, "Ready(None)")
    done_w = [b for b, pt, v, sp in scan.field_writes(bi) if pt == scan.self_field("done") and v == ("const", 1)]
    if not rets:
        ctx.fail("C10.END", u.where, "no Ready(None) return", site=u.body.span)
    for b, kind, payload, t in rets:
        ok = bool(guard) and bi.guarded_by(b, guard)
        okd = bool(done_w) and bool(guard)
        if okd:
            okd, bad = bi.must_reach([t2 for _, t2 in guard], done_w, bi.return_blocks)
        ctx.check(ok and okd, "C10.END", u.where, "Ready(None) only when index == number of inputs; done := true", site=bi.describe(b))
    all_cps = [c.block for c in u.cps]
    for c in u.cps:
        ne = bi.outcome_edges(c.site, "Ready", "None")
        if not ne:
            continue
        # after the advance, nothing is polled or returned before the end test is evaluated again
        r = bi.reach_from_edges(ne, avoid_blocks=tests)
        bad = sorted(x for x in r if x in all_cps or x in bi.return_blocks)
        ctx.check(bool(tests) and not bad, "C10.END", u.where, "%s: after it ends, the end test is evaluated before anything is polled or returned" % c.label,
                  site=c.where, path=common.fmt_blocks(bi, bad))


def rule_pass(ctx, M, u):
    bi = u.bi
    rv = flow.returned_values(bi)
    for c in u.cps:
        header, exits = common.loop_exits(bi, c.block)
        avoid = common.arm_feasible_avoid(u, c)
        for labs, kind in ((("Ready", "Some"), "Ready(Some)"), (("Pending",), "Pending")):
            edges = bi.outcome_edges(c.site, *labs)
            if not edges:
                ctx.fail("C10.PASS", u.where, "no %s edge for %s" % ("/".join(labs), c.label), site=c.where)
                continue
            good = []
            for b, k, payload, t in rv:
                if t[0] == "call" and t[3] == c.block:
                    good.append(b)          # the poll result itself is returned
                    if b == c.block and bi._path_from_shared_result(("phi", c.site.dest_local), c.site) == []:
                        # `let polled = match i { K => child_K.poll_next(cx), .. }; .. return polled`: the alternative
                        # is located at its definition; the blocks that hand the shared local back are the returns
                        for x in bi.assigns_to_return():
                            if x[2].get("k") == "use" and bi.T.of_rvalue(x[2], 0) == ("phi", c.site.dest_local):
                                good.append(x[0])
                elif k == kind and kind == "Pending":
                    good.append(b)
                elif k == kind and payload is not None and flow.is_payload(payload, c.block, *labs):
                    good.append(b)
            r = bi.reach_from_edges(edges, avoid_blocks=good, stop_blocks=exits, avoid_edges=avoid)
            bad = [x for x in exits if x in r]
            r2 = bi.reach_from_edges(edges, avoid_edges=avoid)
            other = [b for b, k, payload, t in rv if b in r2 and b not in good]
            cont = header is not None and header in r2
            ctx.check(bool(good) and not bad and not other and not cont, "C10.PASS", u.where,
                      "%s: %s is returned unchanged in the same call" % (c.label, kind), site=c.where, path=common.fmt_blocks(bi, bad + other))
    flow.rule_integrity(ctx, bi, "C10.PASS", u.where, ("Ready(Some)",), "the forwarded item")
