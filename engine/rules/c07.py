"""C07 — race_ok: first success wins; error only when all failed, positional aggregate."""
from ..facts import base
from .. import families, scan, zw
from ..families import short, ctor_fields
from ..terms import subterms
from . import racelike, flow, common, c01, c02, c03, prims, joinlike

PROPERTY = "C07"
LEVEL = "other"
CONFIGS_QUICK = ["std", "std-rel"]
CONFIGS_THOROUGH = ["std", "alloc", "core", "std-rel", "alloc-rel", "core-rel"]
EXPLANATION = (
    "Path and data-flow rules on the MIR of every race_ok poll body (tuple arities 1-12, array, Vec): (OK) on every child's "
    "Ready(Ok) edge every path returns Ready(Ok(that payload)) in the same call and reaches no further child poll; every "
    "Ready(Ok) return carries a polled child's payload; (SLOT) on Ready(Err) (array, tuple) the Err payload is stored in the "
    "error slot of the child's own position, the `completed` counter moves by one exactly once and the slot state becomes Ready "
    "(a failed child is skipped from then on: C03.GUARD); the counter is written nowhere else; (ALL) Ready(Err(..)) is returned "
    "only under completed == N, its payload is AggregateError::new(array_assume_init(<the array swapped out of self.errors>)) - "
    "positional - and after any failure that test is evaluated before Pending can be returned; Pending is produced only after the "
    "scan; (VEC) MaybeDone::poll / take_ok / take_err summaries, the Ok value is take_ok() of the element just polled, the error "
    "return is control-dependent on the all_done flag which every Pending element clears, and the error vector is the in-order "
    "map(take_err) over the elements; (ZERO) zero-length world returns Ready(Err) for array and Vec without polling.")
EXPLANATION += (' (CTOR) the entry point stores operand K, converted by into_future only, as the child of position K (the aggregate error is positional with respect to the operands).')
EXPLANATION += (' (VEC, MaybeDone::poll) the slot type of the Vec variant polls its inner future only in the Future state, stores Done(output) before returning Ready, passes Pending on, and answers Ready(()) without polling or panicking when it is polled again in the Done state (the Vec scan polls finished elements again by design).')
ASSUMPTIONS = [
    "Iterator::{zip,map,collect} preserve order (library model)",
    "C03.GUARD: a child whose slot is Ready is never polled again",
]
RULES = {
    "C07.CTOR": "entry point: every operand becomes the child of its own position, converted by into_future / into_stream only; nothing reorders, drops or duplicates operands",
    "C07.LIVE": "premises from the wake protocol, re-checked here for this family: task waker registered first, child polled with its own sub-waker (or the caller's context), no readiness lock across a child poll, a cleared bit is followed by a poll, re-arm after an item, readiness primitives / Wake::wake forward correctly",
    "C07.OK": "Ready(Ok) edge => same-call return of that payload, nothing polled afterwards; Ok returns only carry polled payloads",
    "C07.SLOT": "Ready(Err) edge => error stored in the child's own slot, completed+1 once, state Ready; counter written nowhere else",
    "C07.ALL": "Ready(Err) only under completed == N with the positional swapped-out error array; completion test evaluated after any failure before Pending; Pending only after the scan",
    "C07.VEC": "Vec: MaybeDone::{poll,take_ok,take_err} summaries; Ok = take_ok of the polled element; Err under all_done; errors = in-order map(take_err)",
    "C07.ZERO": "zero-length world returns Ready(Err(empty)) without polling (array, Vec)",
}


def run(ctx):
    for rid, text in RULES.items():
        ctx.rule(rid, text)
    for cfg in ctx.configs:
        ctx.current_config = cfg
        M = ctx.model(cfg)
        units = families.passthrough_units(M, ("race_ok",))
        c01.live_premises(ctx, M, [u for u in units if u.container != "vec"], "C07.LIVE")
        from . import ctors
        ctors.run_family(ctx, M, units, "C07.CTOR", cfg)
        for u in units:
            flow.rule_integrity(ctx, u.bi, "C07.OK", u.where, ("Ready(Ok)",), "the winner's value")
            if u.container != "vec":
                flow.rule_integrity(ctx, u.bi, "C07.ALL", u.where, ("Ready(Err)",), "the aggregate error")
            if u.container == "vec":
                rule_vec(ctx, M, u)
                joinlike.rule_zero(ctx, M, u, "C07.ZERO", ("Ready(Err)",))
                continue
            has_done = scan.self_field("done") in [w[1] for w in scan.field_writes(u.bi)]
            rets, claimed = racelike.rule_win(ctx, M, u, "C07.OK", ("Ready", "Ok"), "Ready(Ok)", flag="done" if has_done else None)
            loose = [r for r in rets if r[0] not in claimed]
            ctx.check(bool(rets) and not loose, "C07.OK", u.where, "every Ready(Ok) return carries a polled child's payload", site=u.body.span)
            rule_slot(ctx, M, u)
            rule_all(ctx, M, u)
            with ctx.renamed({"C03.GUARD": "C07.SLOT", "C03.MARK": "C07.SLOT", "C03.LATCH": "C07.OK"}):
                c03.rule_guard(ctx, u)
                c03.rule_mark(ctx, u)
                c03.rule_latch(ctx, u)
            if u.container == "array":
                joinlike.rule_zero(ctx, M, u, "C07.ZERO", ("Ready(Err)",))
        if base(cfg) != "core":
            with ctx.renamed({"C03.GUARD": "C07.VEC", "C03.MARK": "C07.VEC"}):
                c03.rule_maybe_done(ctx, M)
            rule_take(ctx, M)
            rule_maybe_done_poll(ctx, M)
        nv = 0 if base(cfg) == "core" else 1
        ctx.floor("C07.OK", cfg, 78 + 1 + 12 + 1)
        ctx.floor("C07.SLOT", cfg, 78 + 1 + 12 + 1)
        ctx.floor("C07.ALL", cfg, 2 * (12 + 1) + 78 + 1)
        ctx.floor("C07.ZERO", cfg, 1 + nv)
        if nv:
            ctx.floor("C07.VEC", cfg, 6)
    return {}


def rule_slot(ctx, M, u):
    bi = u.bi
    ups = flow.counter_updates(bi, "completed")
    all_ready = []
    for c in u.cps:
        all_ready += bi.outcome_edges(c.site, "Ready")
        ee = bi.outcome_edges(c.site, "Ready", "Err")
        if not ee:
            ctx.fail("C07.SLOT", u.where, "no Ready(Err) edge for %s" % c.label, site=c.where)
            continue
        header, exits = common.loop_exits(bi, c.block)
        avoid = common.arm_feasible_avoid(u, c)
        ws = [(b, slot, idx, v) for b, slot, idx, v, w in c02.slot_writes(bi) if bi.guarded_by(b, ee)]
        probs = []
        if len(ws) != 1:
            probs.append("%d error-slot writes on its Err path (expected 1)" % len(ws))
        for b, slot, idx, v in ws:
            if not c02.slot_is_child(M, u, c, slot, idx, b):
                probs.append("error stored in a slot that is not the child's own position")
            if v is None or not flow.is_payload(v, c.block, "Ready", "Err"):
                probs.append("value stored is not the child's own Err payload")
        if ws:
            ok, bad = bi.must_reach([t for _, t in ee], [w[0] for w in ws], exits)
            if not ok:
                r = bi.reach_from_edges(ee, avoid_blocks=[w[0] for w in ws], stop_blocks=exits, avoid_edges=avoid)
                if any(x in r for x in exits):
                    probs.append("error is not stored on every Err path")
        re_ = bi.outcome_edges(c.site, "Ready")
        oke = bi.outcome_edges(c.site, "Ready", "Ok")
        mine = [b for b, d, sp in ups if bi.guarded_by(b, re_)]
        # once on every path Ready -> Err -> end of the iteration (the increment may precede the Ok/Err split)
        for p in flow.once_on_paths(bi, [t for _, t in re_], mine, exits, list(avoid) + list(oke)):
            probs.append("completed counter on the Err path: " + p)
        if any(d != 1 for b, d, sp in ups if b in mine):
            probs.append("completed counter changed by something other than +1")
        S = [b for b in c02.state_sets_for(M, u, c, ("Ready",)) if bi.guarded_by(b, ee)]
        if not S:
            probs.append("slot state is not set Ready on the Err path")
        else:
            r = bi.reach_from_edges(ee, avoid_blocks=S, stop_blocks=exits, avoid_edges=avoid)
            if any(x in r for x in exits):
                probs.append("slot state is not set Ready on every Err path")
        if probs:
            for p in sorted(set(probs)):
                ctx.fail("C07.SLOT", u.where, "%s: %s" % (c.label, p), site=c.where)
        else:
            ctx.ok("C07.SLOT", u.where, "%s: Err => own slot := its error, completed+1 once, state Ready" % c.label)
    loose = [(b, sp) for b, d, sp in ups if not bi.guarded_by(b, all_ready)]
    ctx.check(bool(ups) and not loose, "C07.SLOT", u.where, "`completed` is written only on children's Ready paths", site=u.body.span,
              path=[sp for _, sp in loose])


def n_target(u):
    if u.container == "tuple":
        return lambda t: t == ("const", u.arity)
    return lambda t: t == ("sym", "N")


def rule_all(ctx, M, u):
    bi = u.bi
    ft = scan.self_field("completed")
    target = n_target(u)
    guard = flow.edges_where(bi, ft, "Eq", target, bounded=True)
    not_done = flow.edges_where(bi, ft, "Ne", target, bounded=True)
    rets = flow.returns_of(bi, "Ready(Err)")
    fields, cb, cbi = ctor_fields(M, u.member)
    ctx.check((fields or {}).get("completed") == ("const", 0), "C07.ALL", cb.def_ if cb else u.where, "%s: `completed` starts at 0" % u.label,
              site=cb.span if cb else u.body.span)
    if not rets:
        ctx.fail("C07.ALL", u.where, "no Ready(Err) return", site=u.body.span)
    swaps = flow.takes_of(bi, scan.self_field("errors"))
    for b, kind, payload, t in rets:
        probs = []
        if not guard or not bi.guarded_by(b, guard):
            probs.append("aggregate error returned without the test completed == number of children")
        good = False
        if payload is not None and payload[0] == "call" and payload[1][1] == "new" and payload[1][0] == "AggregateError" and payload[2]:
            inner = payload[2][0]
            if inner[0] == "call" and inner[1][1] == "array_assume_init" and inner[2]:
                src = inner[2][0]
                if len(swaps) == 1:
                    other = swaps[0].taken
                    good = other == src and bi.body.blocks_dominate([swaps[0].block], b) and bi.guarded_by(swaps[0].block, guard)
        if not good:
            probs.append("aggregate payload is not AggregateError::new(array_assume_init(<array swapped out of self.errors once>))")
        if probs:
            for p in probs:
                ctx.fail("C07.ALL", u.where, p, site=bi.describe(b))
        else:
            ctx.ok("C07.ALL", u.where, "Err(aggregate) only when all failed; payload is the positional error array", sample={"return": bi.describe(b)})
    pend = common.pending_blocks(bi)
    for c in u.cps:
        ee = bi.outcome_edges(c.site, "Ready", "Err")
        if not ee:
            continue
        avoid = common.arm_feasible_avoid(u, c)
        r = bi.reach_from_edges(ee, avoid_edges=list(avoid) + not_done)
        bad = sorted(x for x in pend if x in r)
        ctx.check(bool(not_done) and not bad, "C07.ALL", u.where,
                  "%s: after it fails, the all-failed test is evaluated before Pending can be returned" % c.label, site=c.where,
                  path=common.fmt_blocks(bi, bad))
    with ctx.renamed({"X": "C07.ALL"}):
        racelike.rule_pending_after_scan(ctx, M, u, "C07.ALL")


# ------------------------------------------------------------------------------------------------ Vec

def rule_take(ctx, M):
    for name, variant in (("take_ok", "Ok"), ("take_err", "Err")):
        b = None
        for x in M.F.bodies:
            if x.name == name and "maybe_done" in x.def_:
                b = x
        ctx.require(b is not None, "MaybeDone::" + name)
        bi = M.info(b)
        rets = flow.returned_values(bi)
        somes = [r for r in rets if r[1] == "Some"]
        nones = [r for r in rets if r[1] == "None"]
        probs = []
        if len(somes) != 1 or not nones:
            probs.append("expected one Some(..) and at least one None return")
        else:
            p = somes[0][2]
            # the old value is taken out of *self with mem::replace / mem::swap, leaving Gone behind
            tks = flow.takes_of(bi, ("param", 1))
            want = ("field", ("variant", ("field", ("variant", tks[0].taken, "Done"), 0), variant), 0) if len(tks) == 1 else None
            site = tks[0].site if len(tks) == 1 else None
            if site is None or p != want:
                probs.append("Some payload is not <value taken out of self>@Done@%s" % variant)
            else:
                fresh = [a for a in (site.arg(0), site.arg(1)) if a != ("param", 1)]
                gone = ("agg", ("MaybeDone", "Gone"), ())
                if not fresh or fresh[0] != gone:
                    probs.append("the value is not replaced by Gone")
                # the replace is control-dependent on self being Done(variant)
                g = []
                for e in bi.switches:
                    if e["kind"] == "discr":
                        for lab in ("Done", variant):
                            ed = bi.edge(e, lab)
                            if ed:
                                g.append((lab, ed))
                for lab in ("Done", variant):
                    eds = [ed for l, ed in g if l == lab]
                    if not eds or not bi.guarded_by(site.block, eds):
                        probs.append("take is not guarded by the %s test" % lab)
        if probs:
            for p in sorted(set(probs)):
                ctx.fail("C07.VEC", b.def_, p, site=b.span)
        else:
            ctx.ok("C07.VEC", b.def_, "%s: Some(x) iff self was Done(%s(x)); self becomes Gone" % (name, variant))


def rule_maybe_done_poll(ctx, M):
    """MaybeDone::poll (the slot type of Vec race_ok, whose scan re-polls every element on every wake-up):
       Future(f) -> the one child poll; on Ready the slot becomes Done(output) and Ready(()) is returned; Pending is passed on;
       Done(_)   -> Ready(()) at once, without polling and without panicking (a failed child is polled again by design);
       nothing is polled in any other state."""
    b = None
    for x in M.F.bodies:
        if x.name == "poll" and "maybe_done" in x.def_ and x.kind == "AssocFn" and x.j.get("impl_trait_c") == "core::future::future::Future":
            b = x
    ctx.require(b is not None, "MaybeDone::poll")
    bi = M.info(b)
    probs = []
    cps = bi.child_polls()
    disc = [e for e in bi.switches if e["kind"] == "discr" and bi.edge(e, "Future") and bi.edge(e, "Done")]
    if len(cps) != 1 or not disc:
        probs.append("expected one child poll and a match on the slot's state")
    else:
        c = cps[0]
        fut_e = [bi.edge(e, "Future") for e in disc]
        done_e = [bi.edge(e, "Done") for e in disc]
        if not bi.guarded_by(c.block, fut_e):
            probs.append("the inner future is polled outside the Future state")
        # Done: a return is reached on every path, it is Ready, and nothing is polled on the way
        rets = flow.returned_values(bi)
        r = bi.reach_from_edges(done_e)
        if c.block in r:
            probs.append("a slot that is already Done is polled again")
        ok_ret, bad = bi.must_reach([t for _, t in done_e], list(bi.return_blocks), [])
        kinds = {k for blk, k, p_, t in rets if blk in r}
        if not ok_ret or not any(x in r for x in bi.return_blocks) or kinds - {"Ready"}:
            probs.append("a slot that is already Done does not answer Ready(()) (the Vec scan polls finished elements again)")
        # Ready of the inner future: the slot is overwritten with Done(payload) before Ready is returned
        re_ = bi.outcome_edges(c, "Ready")
        pe = bi.outcome_edges(c, "Pending")
        payload = ("field", ("variant", c.term, "Ready"), 0)
        def is_done_of_payload(v):
            # also when the poll result was parked in a carrier first (`let polled = .. Some(fut.poll(cx)) ..; match polled {
            # Some(Poll::Ready(res)) => self.set(Done(res))`): read the stored value back through the carrier
            if not (v is not None and v[0] == "agg" and v[1] == ("MaybeDone", "Done") and len(v[2]) == 1):
                return False
            x = v[2][0]
            return x == payload or flow.refine(bi, x) == payload
        sets = []
        for s in bi.sites:
            if s.callee.name == "set" and s.callee.owner == "Pin" and is_done_of_payload(s.arg(1)):
                sets.append(s.block)
        for blk, pt, v, sp in scan.field_writes(bi):
            if is_done_of_payload(v):
                sets.append(blk)
        if not re_ or not sets or not bi.must_reach([t for _, t in re_], sets, bi.return_blocks)[0]:
            probs.append("the output is not stored as Done(output) before Ready is returned")
        if pe:
            rp = bi.reach_from_edges(pe)
            if {k for blk, k, p_, t in rets if blk in rp} - {"Pending"}:
                probs.append("Pending of the inner future is not passed on")
    ctx.check(not probs, "C07.VEC", b.def_, "MaybeDone::poll: Future -> one poll, Done(output) stored on Ready; Done -> Ready(()) without polling",
              site=b.span, path=probs)


def rule_vec(ctx, M, u):
    bi = u.bi
    where = u.where
    polls = [s for s in bi.sites if s.key == ("MaybeDone", "poll")]
    takes = [s for s in bi.sites if s.key == ("MaybeDone", "take_ok")]
    ctx.require(len(polls) == 1 and len(takes) == 1, "vec::RaceOk::poll: MaybeDone::poll / take_ok sites")
    p, tk = polls[0], takes[0]
    lp = bi.body.innermost_loop(p.block)
    ctx.require(lp is not None, "vec::RaceOk scan loop")
    header, lblocks = lp
    # ctx handed through
    ctx.check(common.is_caller_cx(bi, p.arg(1)), "C07.VEC", where, "element polled with the caller's context", site=p.where)
    # Ok: value = take_ok(same element) on the not-pending edge
    notp = bi.outcome_edges(p, "Ready")
    pend = bi.outcome_edges(p, "Pending")
    rets = flow.returns_of(bi, "Ready(Ok)")
    ok = bool(notp) and bool(pend) and tk.arg(0) == p.arg(0) and bi.guarded_by(tk.block, notp)
    ok_ret = len(rets) == 1 and flow.is_payload(rets[0][2], tk.block, "Some") if rets else False
    some_e = bi.outcome_edges(tk, "Some")
    if ok_ret:
        r2 = bi.reach_from_edges(some_e)
        good_ret, bad = bi.must_reach([t for _, t in some_e], [rets[0][0]], [header] + list(bi.return_blocks))
        ok_ret = good_ret and header not in r2 and p.block not in r2
    ctx.check(ok and ok_ret, "C07.VEC", where, "Ok value = take_ok() of the element just polled, returned in the same call, scan stops", site=tk.where)
    # all_done flag
    errs = flow.returns_of(bi, "Ready(Err)")
    flag_e = [e for e in bi.switches if e["kind"] == "bool" and e["subject"][0] == "phi" and bi.body.local_tys(e["subject"][1]) == "bool"]
    good = False
    detail = "error return is control-dependent on the all_done flag that every Pending element clears"
    if len(errs) == 1 and flag_e:
        for e in flag_e:
            L = e["subject"][1]
            te = bi.edge(e, True)
            if not te or not bi.guarded_by(errs[0][0], [te]):
                continue
            defs = [d for d in bi.body.defs.get(L, []) if d[0] in bi.body.reachable and not bi.body.is_cleanup(d[0])]
            trues = [d[0] for d in defs if d[2] == "assign" and bi.T.of_rvalue(d[3], 0) == ("const", 1)]
            falses = [d[0] for d in defs if d[2] == "assign" and bi.T.of_rvalue(d[3], 0) == ("const", 0)]
            if len(trues) + len(falses) != len(defs) or not falses:
                continue
            # true only assigned before the loop; every Pending edge reaches a `false` assignment before the header
            if any(b in lblocks for b in trues) or not all(bi.body.dominates(b, header) for b in trues):
                continue
            okp, bad = bi.must_reach([t for _, t in pend], falses, [header] + list(bi.return_blocks))
            if okp and bi.guarded_by(e["block"], racelike_exit(bi, p)):
                good = True
    ctx.check(good, "C07.VEC", where, detail, site=u.body.span)
    # Pending only on the flag's false edge after the scan
    pb = common.pending_blocks(bi)
    okp = bool(pb) and all(bi.guarded_by(b, racelike_exit(bi, p)) for b in pb)
    ctx.check(okp, "C07.VEC", where, "Pending is produced only after the scan", site=u.body.span)
    # error vector: collect(map(iter_pin_mut(replace(self.elems, ..)), |e| take_err(e)@Some))  -- or the same as an
    # explicit loop pushing take_err(e)@Some onto a fresh Vec
    okv = False
    allow = []

    def from_all_elems(src):
        return src[0] == "call" and src[1][1] == "iter_pin_mut" and src[2] and src[2][0][0] == "call" and \
            src[2][0][1] == ("core::mem::replace", "replace") and src[2][0][2][0] == scan.self_field("elems")
    if len(errs) == 1 and errs[0][2] is not None:
        pl = errs[0][2]
        if pl[0] == "call" and pl[1] == ("AggregateError", "new") and pl[2]:
            c = pl[2][0]
            if c[0] == "call" and c[1][1] == "collect" and c[2] and c[2][0][0] == "call" and c[2][0][1][1] == "map":
                mp = c[2][0]
                src, cl = mp[2][0], mp[2][1]
                cl_ok = False
                if cl[0] == "agg" and cl[1][0] == "closure":
                    cbody = M.by_cdef.get(cl[1][1])
                    if cbody is not None:
                        ci = M.info(cbody)
                        te = [s for s in ci.sites if s.key == ("MaybeDone", "take_err")]
                        crets = flow.returned_values(ci)
                        cl_ok = len(te) == 1 and te[0].arg(0) == ("param", 2) and any(
                            flow.is_payload(t, te[0].block, "Some") for _, _, _, t in crets)
                okv = from_all_elems(src) and cl_ok
            elif c[0] == "call" and c[1][0] == "Vec" and c[1][1] in ("with_capacity", "new"):
                pushes = [s for s in bi.sites if s.key == ("Vec", "push") and s.arg(0) == c]
                te = [s for s in bi.sites if s.key == ("MaybeDone", "take_err")]
                if len(pushes) == 1 and len(te) == 1 and flow.is_payload(pushes[0].arg(1), te[0].block, "Some"):
                    r = scan.loop_item_root(te[0].arg(0))
                    nxt = bi.by_block.get(r[3]) if r is not None else None
                    lp = bi.body.innermost_loop(pushes[0].block)
                    if nxt is not None and lp is not None and r[2] and from_all_elems(r[2][0]):
                        se = bi.outcome_edges(nxt, "Some")
                        ne = bi.outcome_edges(nxt, "None")
                        some_e = bi.outcome_edges(te[0], "Some")
                        ok1, _ = bi.must_reach([t for _, t in se], [te[0].block], [lp[0]] + list(bi.return_blocks))
                        ok2, _ = bi.must_reach([t for _, t in some_e], [pushes[0].block], [lp[0]] + list(bi.return_blocks))
                        okv = bool(se) and bool(ne) and bool(some_e) and ok1 and ok2 and bi.guarded_by(errs[0][0], ne)
                        allow = [pushes[0].block]
    ctx.check(okv, "C07.VEC", where, "aggregate error = in-order map(take_err) over all elements", site=u.body.span)
    flow.rule_integrity(ctx, bi, "C07.VEC", where, ("Ready(Err)",), "the aggregate error", allow_blocks=allow)


def racelike_exit(bi, poll_site):
    """None edges of the `next()` driving the loop around poll_site"""
    r = scan.loop_item_root(poll_site.arg(0))
    if r is None:
        return []
    s = bi.by_block.get(r[3])
    return bi.outcome_edges(s, "None") if s is not None else []
