"""C20 — concurrent evaluation: a Pending child never stops the scan; the scan covers every child;
all children start armed."""
from ..facts import base
from .. import scan, families
from ..families import short, ctor_fields, loop_domain
from ..sites import is_agg
from . import common, prims

PROPERTY = "C20"
LEVEL = "other"
CONFIGS_QUICK = ["std", "alloc", "std-rel"]
CONFIGS_THOROUGH = ["std", "alloc", "core", "std-rel", "alloc-rel", "core-rel"]
EXPLANATION = (
    "Path and coverage rules on the MIR of every scan-loop poll body (join, try_join, race, race_ok, merge, zip, groups; all "
    "tuple arities, array, Vec; three feature configurations): (CONT) from the Pending edge of every child poll every path "
    "returns to the scan loop's header - it never reaches a Poll::Pending return value or leaves the loop; (COVER) the scan "
    "ranges over all children: tuple bodies have exactly one arm per position K polling field K and iterate 0..LEN or an "
    "Indexer of that length, array/Vec/group bodies iterate the whole container / Indexer(len) / key set; (ARM0) constructors "
    "create all-ready wakers and all-Pending state tables, groups arm on insert. Together with C01.TOKEN this decides "
    "'whenever the combinator returns Pending every child it owns has been polled'.")
ASSUMPTIONS = [
    "library iterators (Range, enumerate, slice iterators, BTreeSet::iter, Zip) visit each element once, in order",
    "children's own progress (running to completion) is their behaviour, not decided here",
]
RULES = {
    "C20.CONT": "CPS -> Pending: every path reaches the scan-loop header; no Pending return value and no loop exit on that path",
    "C20.COVER": "scan domain covers all children: one arm per tuple position (arm K polls field K), loop over 0..LEN / Indexer(LEN) / whole container / key set",
    "C20.ARM0": "constructors: wakers all ready (WakerArray::new / WakerVec::new(len)), states all Pending (new_pending), Indexer::new(len)",
    "C20.LIVE": "premises from the wake protocol, re-checked here for this family: task waker registered first, child polled with its own sub-waker (or the caller's context), no readiness lock across a child poll, a cleared bit is followed by a poll, re-arm after an item, readiness primitives / Wake::wake forward correctly",
    "C20.ROT": "Indexer::iter / IndexIter::next visit every index in 0..max exactly once (rotation)",
    "C20.BITS0": "Readiness*::new sets every bit (std) / no_std clear_ready is always true",
}
SCAN_FAMILIES = ("join", "try_join", "race", "race_ok", "merge", "zip")


def run(ctx):
    for rid, text in RULES.items():
        ctx.rule(rid, text)
    for cfg in ctx.configs:
        ctx.current_config = cfg
        M = ctx.model(cfg)
        units = [u for u in families.all_member_units(M) if u.family in SCAN_FAMILIES or u.container == "group"]
        for u in units:
            rule_cont(ctx, M, u)
            rule_no_bailout(ctx, M, u)
            rule_cover(ctx, M, u)
            if u.member is not None:
                rule_arm0(ctx, M, u)
        from . import c01
        c01.live_premises(ctx, M, units, "C20.LIVE")
        if base(cfg) != "core":
            from . import c11, c12, grouplike
            with ctx.renamed({"C11.*": "C20.COVER", "C12.*": "C20.COVER"}):
                for gname in ("future_group", "stream_group"):
                    grouplike.rule_insert(ctx, M, gname, "C20.COVER")
                    grouplike.rule_remove(ctx, M, gname, "C20.COVER")
                    grouplike.rule_extend(ctx, M, gname, "C20.COVER")
                gu = grouplike.group_unit(M, "future_group")
                if gu is not None:
                    c11.rule_done(ctx, M, gu)
                gu = grouplike.group_unit(M, "stream_group")
                if gu is not None:
                    c12.rule_endm(ctx, M, gu)
                    c12.rule_drain(ctx, M, gu)
                    c12.rule_item(ctx, M, gu)
        prims.check_indexer(ctx, M, "C20.ROT")
        if base(cfg) == "std":
            prims.check_bits(ctx, M, "C20.BITS0")
        else:
            prims.check_nostd(ctx, M, "C20.BITS0")
        ctx.floor("C20.CONT", cfg, 6 * 78 + (6 if base(cfg) == "core" else 14))
        ctx.floor("C20.COVER", cfg, 6 * 12 + (6 if base(cfg) == "core" else 14))
        ctx.floor("C20.ARM0", cfg, 6 * 12 + (6 if base(cfg) == "core" else 12))
    return {}


def scan_sites(M, u):
    """(block, label, site, arm-avoid edges) for every child-poll-like site of the scan loop."""
    bi = u.bi
    out = []
    for c in u.cps:
        out.append((c.block, c.label, c.site, common.arm_feasible_avoid(u, c), c.loop))
    if u.family == "race_ok" and u.container == "vec":
        for s in bi.sites:
            if s.callee.key == ("MaybeDone", "poll"):
                out.append((s.block, "child (MaybeDone)", s, [], bi.body.innermost_loop(s.block)))
    return out


def rule_cont(ctx, M, u):
    bi = u.bi
    pend = set(common.pending_blocks(bi))
    sites = scan_sites(M, u)
    if not sites:
        ctx.fail("C20.CONT", u.where, "no child-poll site found in scan body", site=u.body.span)
        return
    for block, label, site, avoid, loop in sites:
        pe = bi.outcome_edges(site, "Pending")
        if not pe:
            ctx.fail("C20.CONT", u.where, "no Pending edge found for %s" % label, site=site.where)
            continue
        if loop is None:
            ctx.fail("C20.CONT", u.where, "%s is not polled inside a scan loop" % label, site=site.where)
            continue
        header, lblocks = loop
        r = bi.reach_from_edges(pe, stop_blocks=[header], avoid_edges=avoid)
        r_in = {b for b in r if b != header}
        bad_pending = sorted(b for b in r_in if b in pend)
        stale = stale_pending_returns(bi, pe, header, avoid, r_in)
        if header in r and not bad_pending and not stale:
            ctx.ok("C20.CONT", u.where, "%s Pending => scan continues" % label, sample={"site": site.where, "header": header})
        else:
            why = "produces a Poll::Pending result" if bad_pending else (
                "returns a stale Pending value" if stale else "never returns to the scan loop")
            ctx.fail("C20.CONT", u.where, "%s Pending => %s instead of continuing the scan" % (label, why), site=site.where,
                     path=common.fmt_blocks(bi, bad_pending or stale))


def rule_no_bailout(ctx, M, u):
    """A scan may give up early (`return Poll::Pending` from inside the loop) only because nothing is flagged ready any
    more (`!readiness.any_ready()`): a poll budget, a queue bound or any other early exit leaves flagged children
    unpolled with nobody to wake the task again (and a self-wake would still make every caller spin)."""
    bi = u.bi
    body = bi.body
    sites = scan_sites(M, u)
    loops = {}
    for block, label, site, avoid, loop in sites:
        if loop is not None:
            loops[loop[0]] = loop
    if not loops:
        return
    pend = set(common.pending_blocks(bi))
    quiet = []
    for s in scan.any_ready_sites(bi):
        quiet += bi.outcome_edges(s, False)
    bad = []
    from . import racelike
    exit_e = list(racelike.scan_exit_edges(u))
    for header, lblocks in loops.values():
        # exhaustion of whatever iterator drives this loop
        for e in bi.switches:
            s_ = e["subject"]
            if e["block"] in lblocks and e["kind"] == "discr" and s_[0] == "call" and s_[1][1] in ("next", "next_back"):
                ed = bi.edge(e, "None")
                if ed and ed not in exit_e:
                    exit_e.append(ed)
        # Pending values built on a way out of the loop that is neither the exhaustion of the scan's iterator nor the
        # "nothing flagged" test: reachable from the header within one iteration while avoiding both
        # (with the carrier pruning of reach_from_edges: a `break` that follows `found = Some(x)` does not lead to the
        # `None => Poll::Pending` arm of the match after the loop)
        r = bi.reach_from_edges([(header, x) for x in body.succs(header)], avoid_edges=list(exit_e) + list(quiet), stop_blocks=[header])
        for b in sorted(pend):
            if b in r and b != header:
                bad.append(b)
    ctx.check(not bad, "C20.CONT", u.where, "inside the scan Pending is returned only when no child is flagged ready (no budget / bound bails out of the scan)",
              site=u.body.span, path=common.fmt_blocks(bi, bad))


def stale_pending_returns(bi, pe, header, avoid, r_in):
    """`_0 = move L` reached from the Pending edge without passing the loop header, where L may
    still hold a Poll::Pending assigned earlier (e.g. `ret` in the groups after a `break`)."""
    body = bi.body
    out = []
    for b, i, rv in bi.assigns_to_return():
        if b not in r_in or rv.get("k") != "use":
            continue
        p = rv["op"].get("mv") or rv["op"].get("cp")
        if p is None or p["p"]:
            continue
        L = p["l"]
        defs = [d for d in body.defs.get(L, []) if d[0] in body.reachable and not body.is_cleanup(d[0])]
        pend_defs = [d for d in defs if d[2] == "assign" and is_agg(d[3], "Poll", "Pending")]
        if not pend_defs:
            continue
        r2 = bi.reach_from_edges(pe, stop_blocks=[header], avoid_edges=avoid, avoid_blocks=[d[0] for d in defs])
        if b in r2:
            out.append(b)
    return out


def rule_cover(ctx, M, u):
    bi = u.bi
    if u.container == "tuple":
        if not u.cps:
            ctx.fail("C20.COVER", u.where, "no child polls", site=u.body.span)
            return
        idxs = {c.loop_idx for c in u.cps}
        arms_ok = len(idxs) == 1 and None not in idxs
        per_pos = {}
        for c in u.cps:
            per_pos.setdefault(c.pos, []).append(c)
        want = set(range(u.arity))
        bad = []
        if set(per_pos) != want:
            bad.append("polled positions %s != 0..%d" % (sorted(k for k in per_pos if k is not None), u.arity - 1))
        for k, cs in per_pos.items():
            if len(cs) != 1:
                bad.append("position %s polled at %d sites" % (k, len(cs)))
            for c in cs:
                if c.arm != c.pos:
                    bad.append("arm %s polls field %s" % (c.arm, c.pos))
        if arms_ok:
            idx = next(iter(idxs))
            consts = u.arms(idx).constants
            if set(consts) != want:
                bad.append("arm constants %s != 0..%d" % (consts, u.arity - 1))
            kind, det = loop_domain(u, u.cps[0])
            if kind == "range":
                lo, hi = det
                if lo != ("const", 0) or hi != ("const", u.arity):
                    bad.append("scan range is %s..%s, expected 0..%d" % (short(lo), short(hi), u.arity))
            elif kind == "indexer":
                fields, cb, cbi = ctor_fields(M, u.member)
                ix = (fields or {}).get("indexer")
                if ix is None or ix[0] != "call" or ix[1] != ("Indexer", "new") or ix[2][0] != ("const", u.arity):
                    bad.append("Indexer is not created with the tuple length %d (%s)" % (u.arity, short(ix) if ix else None))
                if det != scan.self_field("indexer"):
                    bad.append("scan does not iterate self.indexer")
            else:
                bad.append("unrecognised scan domain %s" % kind)
        else:
            bad.append("children are not selected by one scan index")
        if bad:
            for x in bad:
                ctx.fail("C20.COVER", u.where, x, site=u.body.span)
        else:
            ctx.ok("C20.COVER", u.where, "one arm per position 0..%d, arm K polls field K, scan over all positions" % (u.arity - 1),
                   sample={"arms": sorted(per_pos)})
        return
    # array / vec / group
    if u.family == "race_ok" and u.container == "vec":
        # iter_pin_mut(self.elems): whole boxed slice
        its = [s for s in bi.sites if s.callee.name == "iter_pin_mut"]
        ok = bool(its) and its[0].arg(0) == scan.self_field("elems")
        ctx.check(ok, "C20.COVER", u.where, "scan iterates all of self.elems", site=u.body.span)
        return
    if not u.cps:
        ctx.fail("C20.COVER", u.where, "no child polls", site=u.body.span)
        return
    c = u.cps[0]
    kind, det = loop_domain(u, c)
    bad = []
    fields, cb, cbi = (ctor_fields(M, u.member) if u.member is not None else (None, None, None))
    if kind == "enumerate":
        # enumerate(FutureArray/FutureVec::iter(self.futures)) and the polled child is the item itself
        if not (det[0] == "call" and det[1][1] in ("iter", "iter_pin_mut", "iter_pin_mut_vec", "iter_mut") and det[2] and det[2][0] == scan.self_field("futures")):
            bad.append("enumerate() is not over all of self.futures")
    elif kind == "indexer":
        ix = (fields or {}).get("indexer")
        cont = (fields or {}).get("streams") or (fields or {}).get("futures")
        okix = ix is not None and ix[0] == "call" and ix[1] == ("Indexer", "new")
        if okix:
            n = ix[2][0]
            okix = n == ("sym", "N") or (n[0] == "call" and n[1][1] == "len")
        if not okix:
            bad.append("Indexer is not created with the container length (%s)" % (short(ix) if ix else None))
        if det != scan.self_field("indexer"):
            bad.append("scan does not iterate self.indexer")
    elif kind == "range":
        lo, hi = det
        hi_ok = hi == ("sym", "N")
        if not hi_ok and hi == scan.self_field("len"):
            ln = (fields or {}).get("len")
            hi_ok = ln is not None and ln[0] == "call" and ln[1][1] == "len"
        if lo != ("const", 0) or not hi_ok:
            bad.append("scan range %s..%s is not 0..len" % (short(lo), short(hi)))
    elif kind == "keys":
        if det != scan.self_field("keys"):
            bad.append("group scan does not iterate self.keys")
    elif kind == "zip" and det[0] == "call" and len(det[2]) == 2:
        # `(0..N).zip(self.futures.iter())` (either order): the spelled-out enumerate() - both sides span the container
        a, b = det[2]
        if a[0] == "call":
            a, b = b, a
        rng_ok = a[0] == "agg" and a[1] == ("Range", "Range") and a[2][0] == ("const", 0) and \
            (a[2][1] == ("sym", "N") or (a[2][1][0] == "call" and a[2][1][1][1] == "len"))
        it_ok = b[0] == "call" and b[1][1] == "iter" and b[2] and b[2][0] == scan.self_field("futures")
        if not (rng_ok and it_ok):
            bad.append("zip scan is not (0..len) paired with all of self.futures")
    elif kind is None and c.idx is not None and c.idx[0] == "loopitem":
        # zip of whole-container iterators (race_ok/array)
        r = scan.loop_item_root(c.child)
        it = r[2][0] if r and r[2] else None
        full = it is not None and it[0] == "call" and it[1][1] == "zip"
        if full:
            inner = it
            while inner[0] == "call" and inner[1][1] == "zip":
                inner = inner[2][0]
            full = inner[0] == "call" and inner[1][1] == "iter_pin_mut" and inner[2][0] == scan.self_field("futures")
        if not full:
            bad.append("scan is not a zip over all of self.futures")
    else:
        bad.append("unrecognised scan domain %s" % kind)
    if bad:
        for x in bad:
            ctx.fail("C20.COVER", u.where, x, site=c.where)
    else:
        ctx.ok("C20.COVER", u.where, "scan domain '%s' covers the whole container" % (kind or "zip"), sample={"domain": kind})


def rule_arm0(ctx, M, u):
    fields, cb, cbi = ctor_fields(M, u.member)
    if fields is None:
        ctx.fail("C20.ARM0", u.where, "constructor aggregate of %s not found" % u.member.adt, site=u.body.span)
        return
    bad = []
    if u.family in ("join", "try_join", "merge", "zip"):
        w = fields.get("wakers")
        if not (w and w[0] == "call" and w[1][1] == "new" and w[1][0] in scan.WAKERS):
            bad.append("wakers not created by WakerArray::new / WakerVec::new")
        elif w[1][0] == "WakerVec":
            n = w[2][0] if w[2] else None
            if not (n and n[0] == "call" and n[1][1] == "len"):
                bad.append("WakerVec::new not given the container length")
    st_name = {"join": "state", "try_join": "state", "merge": "state", "zip": "state"}.get(u.family)
    if u.family == "race_ok" and u.container != "vec":
        st_name = "errors_states" if "errors_states" in fields else "error_states"
    if st_name:
        st = fields.get(st_name)
        if not (st and st[0] == "call" and st[1][1] == "new_pending" and st[1][0] in ("PollArray", "PollVec")):
            bad.append("state table not created by new_pending (%s)" % (short(st) if st else None))
        elif st[1][0] == "PollVec":
            n = st[2][0] if st[2] else None
            if not (n and n[0] == "call" and n[1][1] == "len"):
                bad.append("PollVec::new_pending not given the container length")
    if bad:
        for x in bad:
            ctx.fail("C20.ARM0", cb.def_, x, site=cb.span)
    else:
        ctx.ok("C20.ARM0", cb.def_, "%s starts with every child armed and Pending" % u.label,
               sample={k: short(v) for k, v in fields.items() if k in ("wakers", "state", "indexer", "error_states", "errors_states")})
