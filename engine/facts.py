"""Fact extraction: runs the mirfacts driver over /repo's *current working tree* and caches the
result keyed by a hash of everything the build reads."""
import fcntl
import hashlib
import json
import os
import shutil
import subprocess
import sys
import time

VERIF = os.path.dirname(os.path.dirname(os.path.abspath(__file__)))
REPO = os.environ.get("VERIF_REPO", "/repo")
CACHE = os.environ.get("VERIF_CACHE") or os.path.join(VERIF, ".cache")
DRIVER_DIR = os.path.join(VERIF, "driver")
DRIVER_BIN = os.path.join(DRIVER_DIR, "target", "release", "mirfacts")

CONFIGS = {
    "std": [],
    "alloc": ["--no-default-features", "--features", "alloc"],
    "core": ["--no-default-features"],
    # the same feature sets built with the release profile (debug_assertions off, overflow checks off): the pinned
    # tests only ever build the dev profile, so code under #[cfg(debug_assertions)] / #[cfg(not(debug_assertions))]
    # is invisible to them
    "std-rel": ["--release"],
    "alloc-rel": ["--no-default-features", "--features", "alloc", "--release"],
    "core-rel": ["--no-default-features", "--release"],
}


def base(config):
    """feature set of a configuration name ('std-rel' -> 'std')"""
    return config.split("-")[0]


def profile(config):
    return "release" if config.endswith("-rel") else "dev"


class Inconclusive(Exception):
    pass


def _sysroot():
    return subprocess.check_output(["rustc", "+nightly", "--print", "sysroot"], text=True).strip()


def build_driver():
    """Build the driver if needed (offline, nightly)."""
    env = dict(os.environ, CARGO_NET_OFFLINE="true")
    r = subprocess.run(
        ["cargo", "build", "--release", "--offline"], cwd=DRIVER_DIR, env=env,
        stdout=subprocess.PIPE, stderr=subprocess.STDOUT, text=True)
    if r.returncode != 0 or not os.path.exists(DRIVER_BIN):
        raise Inconclusive("driver build failed:\n" + r.stdout[-4000:])
    return DRIVER_BIN


def tree_hash(repo=None):
    repo = repo or REPO
    h = hashlib.sha256()
    files = []
    for root in ("src",):
        for dp, dn, fn in os.walk(os.path.join(repo, root)):
            dn.sort()
            for f in sorted(fn):
                files.append(os.path.join(dp, f))
    for f in ("Cargo.toml", "Cargo.lock"):
        p = os.path.join(repo, f)
        if os.path.exists(p):
            files.append(p)
    for p in files:
        h.update(os.path.relpath(p, repo).encode())
        h.update(b"\0")
        with open(p, "rb") as fh:
            h.update(fh.read())
        h.update(b"\0")
    # the driver's own source is part of the key
    with open(os.path.join(DRIVER_DIR, "src", "main.rs"), "rb") as fh:
        h.update(fh.read())
    return h.hexdigest()[:24]


def _prune_cache(keep):
    try:
        ents = [e for e in os.listdir(CACHE) if e.startswith("facts-") and e != keep]
        ents.sort(key=lambda e: os.path.getmtime(os.path.join(CACHE, e)))
        for e in ents[:-10]:
            shutil.rmtree(os.path.join(CACHE, e), ignore_errors=True)
    except OSError:
        pass


def extract(config, repo=None, force=False):
    """Return (facts dict, info dict) for `config` of the current tree."""
    repo = repo or REPO
    os.makedirs(CACHE, exist_ok=True)
    key = tree_hash(repo)
    d = os.path.join(CACHE, "facts-" + key)
    out = os.path.join(d, config + ".json")
    info = {"config": config, "tree_hash": key, "cache": "hit"}
    force = force or os.environ.get("VERIF_NO_CACHE") == "1"
    lock_path = os.path.join(CACHE, "lock-" + config)
    with open(lock_path, "w") as lk:
        fcntl.flock(lk, fcntl.LOCK_EX)
        if force or not os.path.exists(out):
            info["cache"] = "miss"
            if not os.path.exists(DRIVER_BIN):
                build_driver()
            os.makedirs(d, exist_ok=True)
            if os.path.exists(out):
                os.remove(out)
            target = os.path.join(CACHE, "target-" + config)
            # never let cargo replay a stale result for the member crate
            fp = os.path.join(target, "release" if config.endswith("-rel") else "debug", ".fingerprint")
            if os.path.isdir(fp):
                for e in os.listdir(fp):
                    if e.startswith("futures-concurrency-"):
                        shutil.rmtree(os.path.join(fp, e), ignore_errors=True)
            env = dict(os.environ)
            env.update({
                "LD_LIBRARY_PATH": _sysroot() + "/lib" + (":" + env["LD_LIBRARY_PATH"] if env.get("LD_LIBRARY_PATH") else ""),
                "RUSTFLAGS": "-Awarnings",
                "RUSTC_WORKSPACE_WRAPPER": DRIVER_BIN,
                "MIRFACTS_OUT": out,
                "MIRFACTS_CONFIG": config,
                "CARGO_TARGET_DIR": target,
                "CARGO_NET_OFFLINE": "true",
            })
            env.pop("RUSTC_WRAPPER", None)
            t0 = time.time()
            cmd = ["cargo", "+nightly", "check", "--offline", "--lib", "--message-format=short"] + CONFIGS[config]
            r = subprocess.run(cmd, cwd=repo, env=env, stdout=subprocess.PIPE, stderr=subprocess.STDOUT, text=True)
            if r.returncode != 0 and "error[E" not in r.stdout and "error: could not compile" not in r.stdout:
                # not a compile error of the crate (resource hiccup, interrupted build): one clean retry
                time.sleep(2)
                if os.path.isdir(fp):
                    for e in os.listdir(fp):
                        if e.startswith("futures-concurrency-"):
                            shutil.rmtree(os.path.join(fp, e), ignore_errors=True)
                r = subprocess.run(cmd, cwd=repo, env=env, stdout=subprocess.PIPE, stderr=subprocess.STDOUT, text=True)
                info["retried"] = True
            info["extract_s"] = round(time.time() - t0, 2)
            if r.returncode != 0:
                raise Inconclusive("cargo check failed for config %s:\n%s" % (config, r.stdout[-6000:]))
            if not os.path.exists(out):
                raise Inconclusive("driver did not write %s (stale cargo cache?)\n%s" % (out, r.stdout[-2000:]))
            _prune_cache("facts-" + key)
        fcntl.flock(lk, fcntl.LOCK_UN)
    try:
        os.utime(d, None)      # LRU: a tree that is still being used is not pruned
    except OSError:
        pass
    with open(out) as fh:
        facts = json.load(fh)
    if facts.get("config") != config:
        raise Inconclusive("fact file config mismatch")
    info["bodies"] = len(facts["bodies"])
    info["file"] = out
    return facts, info


if __name__ == "__main__":
    for c in sys.argv[1:] or ["std"]:
        f, i = extract(c)
        print(i)
