"""L8 — zero-world evaluation.

Conditional constant propagation (explicit enumeration of reachable abstract states) of one poll
body started from the abstract input "the child container is empty": the const generic `N` is 0,
`len()` / `is_empty()` of every child-sized container is 0 / true, every scalar field of `self` has
the value its constructor gives it under that assumption, every iterator over a child-sized
container (or over `0..0`) yields `None` at once.  Branches whose condition evaluates to a constant
follow only that edge; everything else follows all edges.  Nothing is executed.

Result: the kinds of value returned, the blocks reached (to ask "is a child poll / an Indexer::iter
call / a division reachable"), and divisions whose divisor evaluates to 0."""
from collections import deque

from . import scan
from .terms import subterms, simple_name

CHILD_SIZED_OWNERS = ("PollArray", "PollVec", "WakerArray", "WakerVec", "OutputArray", "OutputVec", "FutureArray", "FutureVec")
ITER_ADAPTERS = ("enumerate", "zip", "map", "filter", "cloned", "copied", "rev", "iter", "iter_mut", "iter_pin_mut",
                 "iter_pin_mut_vec", "into_iter", "by_ref", "peekable", "skip", "take", "chain", "filter_map", "ready_indexes",
                 "pending_indexes")
CMP = {
    "Eq": lambda a, b: a == b, "Ne": lambda a, b: a != b, "Lt": lambda a, b: a < b, "Le": lambda a, b: a <= b,
    "Gt": lambda a, b: a > b, "Ge": lambda a, b: a >= b,
}
CMPC = {"eq": "Eq", "ne": "Ne", "lt": "Lt", "le": "Le", "gt": "Gt", "ge": "Ge"}


def sized_by_input(t):
    """Is the constructor term of a field sized by the input container?"""
    if t is None:
        return False
    if t[0] == "call" and t[1][0] in CHILD_SIZED_OWNERS:
        return True
    for s in subterms(t):
        if s[0] == "param" or s == ("sym", "N"):
            return True
    return False


class Result:
    def __init__(self):
        self.returns = set()     # (block, kind)
        self.reached = set()     # blocks
        self.divzero = []        # (block, description)
        self.panics = []         # blocks that diverge and are reached with every branch on the way decided
        self.states = 0
        self.unknown_branches = 0


class ZeroWorld:
    def __init__(self, bi, ctor_fields, classify):
        self.bi = bi
        self.body = bi.body
        self.classify = classify
        self.ctor = ctor_fields or {}
        self.sized = {n for n, t in self.ctor.items() if sized_by_input(t)}
        self.sw = {e["block"]: e for e in bi.switches}
        # mutable scalar locals (several whole definitions)
        self.tracked_locals = set()
        for l, defs in self.body.defs.items():
            live = [d for d in defs if d[0] in self.body.reachable and not self.body.is_cleanup(d[0])]
            if len(live) > 1 and self.body.local_tys(l) in ("bool", "usize", "u32", "u64", "i32"):
                self.tracked_locals.add(l)
        # enum carrier locals (`let failure = loop { .. break Some(e) .. break None };`): the variant last assigned
        self.variant_locals = {e["subject"][1] for e, defs in bi.variant_phi_switches}

    # ------------------------------------------------------------------ evaluation of terms
    def ctor_val(self, t):
        """value of a constructor term in the zero world"""
        if t is None:
            return None
        if t[0] == "const":
            return t[1]
        if t == ("sym", "N"):
            return 0
        if t[0] == "call" and t[1][1] == "len":
            return 0
        if t[0] == "call" and t[1][1] == "is_empty":
            return 1
        if t[0] == "unop" and t[1] == "Not":
            v = self.ctor_val(t[2])
            return None if v is None else int(not v)
        return None

    def initial_env(self):
        env = {}
        for n, t in self.ctor.items():
            v = self.ctor_val(t)
            if v is not None:
                env[("f", n)] = v
            elif t is not None and t[0] == "call" and t[1] == ("Indexer", "new") and t[2]:
                env[("f", n, "max")] = self.ctor_val(t[2][0])
        return env

    def is_sized_container(self, t):
        while t is not None and t[0] in ("field", "variant", "index") and not (t[0] == "field" and t[1] == ("param", 1)):
            t = t[1]
        if t is not None and t[0] == "field" and t[1] == ("param", 1):
            return t[2] in self.sized
        return False

    def val(self, t, env):
        if t is None:
            return None
        k = t[0]
        if k == "const":
            return t[1]
        if k == "sym":
            return 0 if t[1] == "N" else None
        if k == "phi":
            return env.get(("l", t[1]))
        if k == "field":
            if t[1] == ("param", 1):
                return env.get(("f", t[2]))
            if t[1][0] == "binop" and t[1][1].endswith("WithOverflow"):
                inner = self.val(("binop", t[1][1].replace("WithOverflow", ""), t[1][2], t[1][3]), env)
                if t[2] == 0:
                    return inner
                return False if inner is not None else None
            return None
        if k == "cast":
            return self.val(t[2], env)
        if k == "unop" and t[1] == "Not":
            v = self.val(t[2], env)
            return (not v) if isinstance(v, bool) else (None if v is None else (not bool(v)))
        if k == "binop":
            a, b = self.val(t[2], env), self.val(t[3], env)
            op = t[1].replace("Unchecked", "")
            if a is None or b is None:
                return None
            if op in CMP:
                return CMP[op](a, b)
            if op == "Add":
                return a + b
            if op == "Sub":
                return a - b if a >= b else None
            if op == "SubSat":
                return max(a - b, 0)
            if op == "Mul":
                return a * b
            if op in ("BitAnd",) and isinstance(a, bool) and isinstance(b, bool):
                return a and b
            if op in ("BitOr",) and isinstance(a, bool) and isinstance(b, bool):
                return a or b
            return None
        if k == "call":
            name = t[1][1]
            args = t[2]
            if name == "len" and args and self.is_sized_container(args[0]):
                return 0
            if name == "is_empty" and args and self.is_sized_container(args[0]):
                return True
            if name in CMPC and len(args) == 2 and t[1][0] in ("PartialEq", "PartialOrd", "usize", "Ord", "ref"):
                a, b = self.val(args[0], env), self.val(args[1], env)
                if a is None or b is None:
                    return None
                return CMP[CMPC[name]](a, b)
            return None
        return None

    def empty_iter(self, it, env, depth=0):
        """Does iterator term `it` yield nothing in the zero world?"""
        if it is None or depth > 8:
            return False
        if it[0] == "agg" and it[1] == ("Range", "Range"):
            lo, hi = self.val(it[2][0], env), self.val(it[2][1], env)
            return lo is not None and hi is not None and lo >= hi
        if it[0] == "call":
            key = it[1]
            if key == ("Indexer", "iter"):
                a = it[2][0] if it[2] else None
                if a is not None and a[0] == "field" and a[1] == ("param", 1):
                    return env.get(("f", a[2], "max")) == 0
                return False
            if key[1] in ITER_ADAPTERS and it[2]:
                if key[1] in ("zip", "chain"):
                    es = [self.empty_iter(a, env, depth + 1) for a in it[2][:2]]
                    return any(es) if key[1] == "zip" else all(es)
                return self.empty_iter(it[2][0], env, depth + 1)
            return False
        return self.is_sized_container(it)

    # ------------------------------------------------------------------ the run
    def run(self, limit=20000):
        body, bi = self.body, self.bi
        res = Result()
        env0 = self.initial_env()
        start = (0, tuple(sorted(env0.items(), key=lambda kv: str(kv[0]))), None, True)
        seen = {start}
        dq = deque([start])
        while dq:
            b, envt, ret, certain = dq.popleft()
            res.states += 1
            if res.states > limit:
                raise RuntimeError("zero-world state explosion")
            res.reached.add(b)
            env = dict(envt)
            for st in body.stmts(b):
                if st["k"] != "assign":
                    continue
                lhs = st["lhs"]
                if not lhs["p"]:
                    if lhs["l"] == 0:
                        ret = self.classify(bi.T.of_rvalue(st["rv"], 0))[0]
                        # `_0 = move L` of a multi-def local: value unknown here, resolved at the def
                        t = bi.T.of_rvalue(st["rv"], 0)
                        if t[0] == "phi":
                            ret = env.get(("r", t[1]), "other")
                    elif lhs["l"] in self.tracked_locals:
                        env[("l", lhs["l"])] = self.val(bi.T.of_rvalue(st["rv"], 0), env)
                    elif lhs["l"] in self.variant_locals:
                        if st["rv"]["k"] == "agg":
                            env[("v", lhs["l"])] = st["rv"].get("vname")
                        else:
                            t_ = bi.T.of_rvalue(st["rv"], 0)
                            env[("v", lhs["l"])] = t_[1][1] if t_[0] == "agg" and isinstance(t_[1], tuple) and len(t_[1]) == 2 else None
                    else:
                        # remember the kind of Poll-typed temporaries that are later moved into _0
                        kind = self.classify(bi.T.of_rvalue(st["rv"], 0))[0]
                        if kind != "other":
                            env[("r", lhs["l"])] = kind
                else:
                    pt = bi.T.of_place(lhs)
                    if pt[0] == "field" and pt[1] == ("param", 1):
                        env[("f", pt[2])] = self.val(bi.T.of_rvalue(st["rv"], 0), env)
            t = body.term(b)
            k = t["k"]
            if k == "return":
                res.returns.add((b, ret))
                continue
            if certain and ((k == "call" and t.get("t") is None) or k in ("unreachable", "abort")):
                res.panics.append((b, t.get("sp", "")))
            succs = None
            if k == "call":
                site = bi.by_block.get(b)
                if site is not None:
                    c = site.callee
                    if c.name in ("wrapping_rem", "wrapping_div", "rem", "div", "checked_rem", "rem_euclid") and len(site.args) >= 2:
                        if self.val(site.arg(1), env) == 0:
                            res.divzero.append((b, site.where))
                    d = t["dest"]
                    if not d["p"] and d["l"] in self.tracked_locals:
                        env[("l", d["l"])] = None
                    if not d["p"] and d["l"] == 0:
                        ret = "call"
            elif k == "assert":
                pass
            elif k == "switch":
                e = self.sw.get(b)
                if e is not None:
                    s = e["subject"]
                    if e["kind"] == "bool":
                        v = self.val(s, env)
                        if v is not None:
                            tb = e["edges"].get(bool(v))
                            succs = [tb] if tb is not None else []
                    elif e["kind"] == "int":
                        v = self.val(s, env)
                        if v is not None:
                            succs = [e["edges"].get(v, e["edges"]["otherwise"])]
                    elif e["kind"] == "discr":
                        if s[0] == "call" and s[1][1] in ("next", "next_back") and s[2] and self.empty_iter(s[2][0], env):
                            tb = e["edges"].get("None")
                            if tb is not None:
                                succs = [tb]
                        elif s[0] == "agg" and isinstance(s[1], tuple):
                            tb = e["edges"].get(s[1][1])
                            if tb is not None:
                                succs = [tb]
                        elif s[0] == "phi" and s[1] in self.variant_locals and env.get(("v", s[1])) is not None:
                            tb = e["edges"].get(env[("v", s[1])])
                            if tb is not None:
                                succs = [tb]
                if succs is None:
                    res.unknown_branches += 1
            if succs is None:
                succs = body.succs(b)
                if k == "switch" and len(set(succs)) > 1:
                    certain = False
            # statements evaluated: division by zero as a binop
            for st in body.stmts(b):
                if st["k"] == "assign" and st["rv"]["k"] == "binop" and st["rv"]["op"] in ("Rem", "Div"):
                    if self.val(bi.T.of_operand(st["rv"]["b"]), env) == 0:
                        res.divzero.append((b, st.get("sp", "")))
            # widening: counters that keep growing carry no information in the zero world
            for k_ in list(env):
                v_ = env[k_]
                if isinstance(v_, int) and not isinstance(v_, bool) and (v_ > 8 or v_ < 0):
                    env[k_] = None
            envt2 = tuple(sorted(env.items(), key=lambda kv: str(kv[0])))
            for tb in succs:
                if tb is None or body.is_cleanup(tb):
                    continue
                s2 = (tb, envt2, ret, certain)
                if s2 not in seen:
                    seen.add(s2)
                    dq.append(s2)
        return res
