"""Peephole canonicalisation of equivalent library idioms (run after helper inlining, before the model is built).

Each rewrite replaces a call sequence by the single library call it is documented to be equivalent to, so that the rules
keep one spelling per operation:

  * `ptr::drop_in_place(MaybeUninit::as_mut_ptr(slot))`        ->  `MaybeUninit::assume_init_drop(slot)`
    (that is the body of `assume_init_drop` in core)

Nothing else is touched; a sequence that does not match exactly (the pointer has another definition or another use)
is left as it is."""
import copy


def _defs_uses(body, local):
    defs, uses = [], 0
    for bi, blk in enumerate(body["blocks"]):
        for s in blk["stmts"]:
            if s["k"] == "assign":
                if s["lhs"]["l"] == local and not s["lhs"]["p"]:
                    defs.append(("stmt", bi, s))
                uses += _count(s["rv"], local)
        t = blk["term"]
        if t["k"] == "call":
            if t.get("dest") and t["dest"]["l"] == local and not t["dest"]["p"]:
                defs.append(("call", bi, t))
            uses += _count(t.get("args"), local)
        elif t["k"] in ("switch",):
            uses += _count(t.get("op"), local)
        elif t["k"] == "drop":
            uses += _count(t.get("place"), local)
    return defs, uses


def _count(x, local):
    n = 0
    if isinstance(x, dict):
        if isinstance(x.get("l"), int) and "p" in x and x["l"] == local:
            n += 1
        for v in x.values():
            n += _count(v, local)
    elif isinstance(x, list):
        for v in x:
            n += _count(v, local)
    return n


def canonicalise(facts):
    done = {}
    for b in facts["bodies"]:
        for blk in b["blocks"]:
            t = blk["term"]
            if t["k"] != "call":
                continue
            f = t.get("func") or {}
            if f.get("name") != "drop_in_place" or not str(f.get("cpath", "")).startswith("core::ptr::") or len(t.get("args") or []) != 1:
                continue
            a = t["args"][0]
            pl = a.get("mv") or a.get("cp")
            if not pl or pl["p"]:
                continue
            defs, uses = _defs_uses(b, pl["l"])
            if len(defs) != 1 or uses != 1 or defs[0][0] != "call":
                continue
            d = defs[0][2]
            df = d.get("func") or {}
            if df.get("name") != "as_mut_ptr" or "MaybeUninit" not in str(df.get("path", "")) or len(d.get("args") or []) != 1:
                continue
            nf = copy.deepcopy(df)
            nf["name"] = "assume_init_drop"
            for k in ("path", "cpath", "resolved", "resolved_c"):
                if isinstance(nf.get(k), str):
                    nf[k] = nf[k].replace("as_mut_ptr", "assume_init_drop")
            # the pointer computation becomes a plain move of the `&mut MaybeUninit<T>`; the drop takes that reference
            slot_ref = d["args"][0]
            d_blk = b["blocks"][defs[0][1]]
            d_blk["stmts"].append({"k": "assign", "lhs": copy.deepcopy(d["dest"]), "rv": {"k": "use", "op": copy.deepcopy(slot_ref)}, "sp": d.get("sp"), "mac": None})
            d_blk["term"] = {"k": "goto", "t": d["t"], "sp": d.get("sp"), "mac": None}
            t["func"] = nf
            done[b["def"]] = done.get(b["def"], 0) + 1
    return done
