"""Function-name canonicalisation (the counterpart of fieldnames.py for renamed vocabulary functions).

A crate-local function whose printed path is unknown to the pinned vocabulary, while exactly one
pinned function with the same owner (impl / module prefix) and the same signature has disappeared
from the tree, is that function under a new name: it is given its pinned name back in the body
table and at every call site, so that the rules (which know `set_waker`, `clear_ready`,
`poll_next_inner`, ...) keep seeing it - and so that the helper inliner does not mistake it for a
new helper."""
from . import inline


def _sig(b, types):
    try:
        return [inline.norm_ty(types[b["locals"][i]["ty"]]["s"]) for i in range(0, b["argc"] + 1)]
    except (IndexError, KeyError):
        return None


def _prefix(d):
    return d.rsplit("::", 1)[0] if "::" in d else ""


def _last(d):
    return d.rsplit("::", 1)[-1]


def canonicalise(facts):
    doc = inline.vocabulary_doc() or {}
    sigs = doc.get("signatures") or {}
    from .inline import _Vocab, canon_path
    vocab = _Vocab(canon_path(x) for x in (doc.get("functions") or []))
    if not sigs:
        return {}
    types = facts["types"]
    present = {b["def"] for b in facts["bodies"] if b["kind"] in ("Fn", "AssocFn")}
    gone = [d for d in sigs if d not in present]
    by_prefix = {}
    for d in gone:
        by_prefix.setdefault(_prefix(d), []).append(d)
    renames = {}     # new def -> old def
    for b in facts["bodies"]:
        if b["kind"] not in ("Fn", "AssocFn") or b["def"] in vocab:
            continue
        sg = _sig(b, types)
        cands = [d for d in by_prefix.get(_prefix(b["def"]), []) if [inline.norm_ty(x) for x in sigs[d]] == sg]
        fresh_same = [x for x in facts["bodies"] if x["kind"] in ("Fn", "AssocFn") and x["def"] not in vocab
                      and _prefix(x["def"]) == _prefix(b["def"]) and _sig(x, types) == sg]
        if len(cands) == 1 and len(fresh_same) == 1:
            renames[b["def"]] = cands[0]
    if not renames:
        return {}
    cmap = {}        # new cdef -> (old cdef, old name, new def, old def)
    for b in facts["bodies"]:
        if b["def"] in renames:
            old = renames[b["def"]]
            oc = b["cdef"].rsplit("::", 1)[0] + "::" + _last(old)
            cmap[b["cdef"]] = (oc, _last(old), b["def"], old)
    for b in facts["bodies"]:
        for nd, (oc, on, ndef, odef) in cmap.items():
            if b["cdef"] == nd:
                b["orig_def"] = b["def"]
                b["cdef"], b["def"], b["name"] = oc, odef, on
            elif b["cdef"].startswith(nd + "::"):
                b["cdef"] = oc + b["cdef"][len(nd):]
                if b["def"].startswith(ndef + "::"):
                    b["def"] = odef + b["def"][len(ndef):]
            if b.get("root") == ndef:
                b["root"] = odef
                b["root_name"] = on
        for blk in b["blocks"]:
            t = blk["term"]
            if t["k"] != "call":
                continue
            f = t["func"]
            for ck, pk in (("cpath", "path"), ("resolved_c", "resolved")):
                if f.get(ck) in cmap:
                    oc, on, ndef, odef = cmap[f[ck]]
                    f[ck] = oc
                    if f.get(pk):
                        f[pk] = f[pk].rsplit("::", 1)[0] + "::" + on
                    f["name"] = on
            for s in blk["stmts"]:
                # closure / coroutine aggregates refer to nested bodies by cpath
                rv = s.get("rv") if s.get("k") == "assign" else None
                if rv and rv.get("k") == "agg" and rv.get("cpath"):
                    for nd, (oc, on, ndef, odef) in cmap.items():
                        if rv["cpath"].startswith(nd + "::"):
                            rv["cpath"] = oc + rv["cpath"][len(nd):]
    for im in facts.get("impls", []):
        for it in im.get("items", []):
            if it.get("def") in cmap:
                oc, on, ndef, odef = cmap[it["def"]]
                it["def"], it["name"] = oc, on
    facts["fn_renames"] = renames
    return renames
