"""Enumerations of the bodies each rule family ranges over, plus the per-CPS record used by most
rules (child identity, index term, arm, loop)."""
from . import scan
from .model import SUBWAKER_FAMILIES, PASSTHROUGH_FAMILIES, CR
from .terms import term_str, simple_name


class Cps:
    """A child-poll site with everything the rules need to know about it."""

    def __init__(self, unit, site):
        self.unit = unit
        self.site = site
        self.block = site.block
        bi = unit.bi
        self.child = site.arg(0)
        self.ctx = site.arg(1)
        self.param = scan.cps_param(bi, site)
        self.pos = None          # tuple position of the polled child (tuple members)
        self.idx = None          # index term selecting the child (array / vec / group / chain)
        self.arm = None          # constant K of the guarding `K == index` arm (tuple members)
        self.loop = bi.body.innermost_loop(site.block)
        self.loop_idx = None     # the scan loop's index term (tuple / merge / race)

    @property
    def where(self):
        return self.site.where

    @property
    def label(self):
        if self.pos is not None:
            return "child#%d" % self.pos
        if self.idx is not None:
            return "child[%s]" % short(self.idx)
        return "child"


def short(t):
    s = term_str(t, 4)
    return s if len(s) < 90 else s[:87] + "..."


class Unit:
    """One analysed body with its role in the crate: a member's poll body, a group's
    poll_next_inner, ..."""

    def __init__(self, model, label, body, family, container, member=None, arity=None):
        self.model = model
        self.label = label
        self.body = body
        self.bi = model.info(body)
        self.family = family
        self.container = container
        self.member = member
        self.arity = arity
        self._cps = None
        self._arms = {}

    @property
    def where(self):
        return self.body.def_

    def arms(self, idx_term):
        a = self._arms.get(idx_term)
        if a is None:
            a = scan.Arms(self.bi, idx_term)
            self._arms[idx_term] = a
        return a

    @property
    def cps(self):
        if self._cps is None:
            self._closure_protocol_steps()
            self._cps = [self._mk(s) for s in self.bi.child_polls()]
        return self._cps

    @property
    def cps_unchecked(self):
        """child-poll sites for rules that do not place steps on paths (who-may-call audits): no closure check"""
        if self._cps is not None:
            return self._cps
        return [self._mk(s) for s in self.bi.child_polls()]

    def _closure_protocol_steps(self):
        """A scan written through a closure-taking iterator adapter (`indexer.iter().find_map(|i| .. fut.poll(cx) ..)`,
        `futures.by_ref().find(|(i, _)| .. readiness.clear_ready(*i))`) puts protocol steps into a closure body that the
        path rules, which read one body at a time, cannot place on the paths of the poll body.  That is neither a
        violation nor a pass: the unit is reported as inconclusive (exit 2), naming the closure."""
        model = self.model
        try:
            bodies = model.F.bodies
        except AttributeError:
            return
        for x in bodies:
            if x.kind != "Closure" or x.root != self.body.def_ or x is self.body:
                continue
            xi = model.info(x)
            steps = [s.callee.name for s in xi.child_polls()]
            steps += [s.callee.name for s in xi.sites if not s.callee.indirect and s.callee.name in ("clear_ready", "set_ready", "set_all_ready", "readiness")
                      and s.callee.local]
            if steps:
                from .rulekit import Inconclusive
                raise Inconclusive("anchor missing: %s performs protocol steps (%s) inside the closure %s - a scan expressed through a "
                                   "closure-taking iterator adapter is outside the idioms the path rules can read" % (
                                       self.body.def_, ", ".join(sorted(set(steps))), x.def_))

    def _mk(self, site):
        c = Cps(self, site)
        bi = self.bi
        if self.container == "tuple" and self.member is not None:
            pos = scan.tuple_param_positions(self.model, self.member)
            c.pos = pos.get(c.param)
            if c.pos is None:
                # polled through an inlined generic helper (`poll_slot(self.futures.A.as_mut(), cx)`): the callee is
                # dispatched on the helper's own type parameter; the receiver still names the field, and the macros
                # name each child field after its type parameter
                t = c.child
                while t is not None and t[0] in ("field", "variant", "index"):
                    if t[0] == "field" and t[2] in pos:
                        c.pos = pos[t[2]]
                        break
                    t = t[1]
            # scan loop index: the loop item of the innermost loop whose term is compared to constants
            c.loop_idx, c.arm = self._find_arm(site.block)
        else:
            c.idx = child_index_term(bi, c.child)
        return c

    def _find_arm(self, block):
        """(index term, K) such that a `K == index` / `match index {K}` true edge guards block."""
        bi = self.bi
        cands = set()
        for e in bi.switches:
            s = e["subject"]
            if e["kind"] == "bool" and s[0] == "binop" and s[1] == "Eq":
                for x, y in ((s[2], s[3]), (s[3], s[2])):
                    if scan.const_of(y) is not None and scan.const_of(x) is None:
                        cands.add(x)
            elif e["kind"] == "int":
                cands.add(s)
        for idx in cands:
            k = self.arms(idx).arm_of(block)
            if k is not None:
                return idx, k
        return None, None


def child_index_term(bi, child):
    """The index term that selects a child in array / vec / group / chain bodies."""
    if child is None:
        return None
    # futures[index] via Index/IndexMut on a container (Slab, Vec, slice)
    t = child
    # strip field/variant wrappers introduced by unwrap()
    core = t
    while core[0] in ("field", "variant"):
        core = core[1]
    if core[0] == "index":
        return core[2]
    if core[0] == "call":
        key = core[1]
        args = core[2]
        if key[1] in ("get_pin_mut", "get_pin_mut_from_vec", "index", "index_mut", "get_mut", "get", "nth") and len(args) >= 2:
            return args[1]
        if key[1] == "next":
            # loop item: (i, fut) of enumerate(): index is the sibling component .0
            path = scan.proj_path(t)
            # path ends with ... ('field', 1) for `fut`; the index is the same item with .0
            if path and path[-1] == ("field", 1):
                base = t[1]
                return ("field", base, 0)
            return ("loopitem", core[3], tuple(path))
    return None


def subwaker_units(model, families=SUBWAKER_FAMILIES, groups=True):
    out = []
    for m in model.family(*families):
        if m.poll is None or (m.container == "tuple" and m.arity == 0):
            continue
        out.append(Unit(model, m.label, m.poll, m.family, m.container, member=m, arity=m.arity))
    if groups:
        for name, g in model.groups.items():
            b = g.get("poll_next_inner")
            if b is not None:
                out.append(Unit(model, name, b, name, "group"))
    return out


def passthrough_units(model, families=PASSTHROUGH_FAMILIES):
    out = []
    for m in model.family(*families):
        if m.poll is None or (m.container == "tuple" and m.arity == 0):
            continue
        out.append(Unit(model, m.label, m.poll, m.family, m.container, member=m, arity=m.arity))
    return out


def all_member_units(model):
    return subwaker_units(model, groups=True) + passthrough_units(model)


def aux_poll_bodies(model):
    """Other crate-local Future/Stream impl bodies that poll a child: MaybeDone, adapter futures,
    wait_until, group front-ends, FromIter."""
    from .sites import FUTURE, STREAM
    member_bodies = {m.poll.def_ for m in model.members if m.poll is not None}
    out = []
    for b in model.F.bodies:
        if b.kind != "AssocFn" or b.j.get("impl_trait_c") not in (FUTURE, STREAM):
            continue
        if b.name not in ("poll", "poll_next") or b.def_ in member_bodies:
            continue
        adt = model.adt_of_type(b.impl_self) if b.impl_self is not None else None
        out.append(Unit(model, simple_name(adt) or b.def_, b, "aux", "aux"))
    return out


def ctor_fields(model, member):
    """field name -> value term of the aggregate that builds the member's ADT, searched in the
    family trait method and the inherent `new`.  Returns (fields, body, BodyInfo) or (None, None, None)."""
    for body in (member.ctor, member.new):
        if body is None:
            continue
        bi = model.info(body)
        for b in sorted(body.reachable):
            if body.is_cleanup(b):
                continue
            for s in body.stmts(b):
                if s["k"] == "assign" and s["rv"]["k"] == "agg" and s["rv"].get("ak") == "adt" and s["rv"].get("cpath") == member.adt:
                    names = s["rv"]["fnames"]
                    vals = [bi.T.of_operand(f) for f in s["rv"]["fields"]]
                    return dict(zip(names, vals)), body, bi
    return None, None, None


def loop_domain(unit, cps):
    """Classify the scan loop's iteration domain for a CPS: returns (kind, detail term)."""
    idx = cps.loop_idx if cps.pos is not None else cps.idx
    if idx is None:
        return None, None
    root = scan.root_call(idx)
    if root is None or root[1][1] != "next" or not root[2]:
        return None, None
    it = root[2][0]
    if it[0] == "agg" and it[1] == ("Range", "Range"):
        return "range", it[2]
    # element-preserving adapters do not change the domain
    while it[0] == "call" and it[1][1] in ("cloned", "copied", "by_ref", "into_iter", "peekable") and it[2]:
        inner = it[2][0]
        if it[1][1] in ("cloned", "copied") and inner[0] == "call" and inner[1][1] == "iter" and inner[2] and \
                inner[2][0] == scan.self_field("keys"):
            return "keys", inner[2][0]
        it = inner
    if it[0] == "call" and it[1][1] == "iter" and it[2] and it[2][0] == scan.self_field("keys"):
        return "keys", it[2][0]
    if it[0] == "call":
        key = it[1]
        if key[1] == "range" and len(it[2]) == 2 and it[2][0] == scan.self_field("keys"):
            # `keys.range(..)`: the unbounded range is the whole set, in ascending order like iter()
            r_ = it[2][1]
            if r_[0] == "agg" and isinstance(r_[1], tuple) and r_[1][0] == "RangeFull":
                return "keys", it[2][0]
            return "keys-range", it
        if key == ("Indexer", "iter"):
            return "indexer", it[2][0]
        if key[1] == "enumerate":
            return "enumerate", it[2][0]
        if key[1] == "cloned" and it[2] and it[2][0][0] == "call" and it[2][0][1][1] == "iter":
            return "keys", it[2][0][2][0]
        if key[1] == "zip":
            return "zip", it
        return "call:" + key[1], it
    return None, it


def adt_field(model, adt_cpath, name):
    """(index, type idx) of field `name` in single-variant local ADT `adt_cpath`."""
    a = model.F.adts_c.get(adt_cpath)
    if a is None or len(a["variants"]) != 1:
        return None, None
    for i, f in enumerate(a["variants"][0]["fields"]):
        if f["name"] == str(name):
            return i, f["ty"]
    return None, None


def sub_struct_pos(model, member, path):
    """Position of a child-indexed field reached from `self` by the field-name path, e.g.
    ('futures', 'A') or ('output', 'B') or ('outputs', 1): the index of the last field inside its
    struct/tuple (valid for the per-child sub-structs whose field count equals the arity)."""
    adt = member.adt
    F = model.F
    pos = None
    for i, name in enumerate(path):
        if isinstance(name, int) and adt is None:
            pos = name
            continue
        idx, ty = adt_field(model, adt, name)
        if idx is None:
            return None
        pos = idx
        t = F.types[ty]
        # peel Pin<&mut X> / &mut X
        while t["k"] in ("ref",) or (t["k"] == "adt" and simple_name(t["cpath"]) in ("Pin",) and t["args"]):
            if t["k"] == "ref":
                t = F.types[t["ty"]]
            else:
                t = F.types[[a for a in t["args"] if isinstance(a, int)][0]]
        if t["k"] == "adt" and t.get("local"):
            adt = t["cpath"]
        elif t["k"] == "tuple":
            adt = None
        else:
            adt = None
    return pos


def self_path(t):
    """field-name path of a term rooted at `self` (param 1), or None."""
    path = []
    while t is not None and t[0] == "field":
        path.append(t[2])
        t = t[1]
    if t == ("param", 1):
        return tuple(reversed(path))
    return None
