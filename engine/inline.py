"""MIR-level inlining of *new* crate-local helper functions.

A behaviour-preserving refactor often moves a few statements of a poll body into a private helper
(`fn take_output(..)`, `fn reset_states(..)`, `fn flush_key_removal_queue(..)`).  The rules reason
about one body at a time, so before the model is built every call to a crate-local function that is
**not part of the rule vocabulary** is spliced into its caller, exactly like rustc's own MIR inliner
would do (fresh locals, argument assignments, `return` -> assignment of the destination + goto).

The vocabulary (`engine/vocabulary.json`) is the set of crate-local functions that exist on the
pinned tree - those are the functions the rules know by name (set_waker, clear_ready, Indexer::iter,
OutputArray::write, ...).  Anything else that is crate-local, synchronous, non-recursive and small is
a helper and gets inlined (two rounds, so helpers of helpers too).  Inlining never removes a call the
rules could have matched: vocabulary functions are left alone."""
import copy
import json
import os

VOCAB_FILE = os.path.join(os.path.dirname(os.path.abspath(__file__)), "vocabulary.json")
MAX_BLOCKS = 80
MAX_BLOCKS_SINGLE = 1500
_vocab = None


_vocab_doc = None


def vocabulary_doc():
    global _vocab_doc
    if _vocab_doc is None:
        try:
            with open(VOCAB_FILE) as fh:
                _vocab_doc = json.load(fh)
        except OSError:
            _vocab_doc = {}
    return _vocab_doc


_LIB = None


def norm_ty(s):
    """type display strings differ between the feature configurations only in the facade crate (`std::ops::Range` /
    `core::ops::Range`, `std::vec::Vec` / `alloc::vec::Vec`): compare them modulo that prefix"""
    global _LIB
    if _LIB is None:
        import re
        _LIB = re.compile(r"\b(std|core|alloc)::")
    return _LIB.sub("lib::", s) if isinstance(s, str) else s


_GEN = None


def canon_path(p):
    """printed def path with the innermost generic-argument lists blanked: renaming a type parameter (`impl<A, B> X<A, B>`
    -> `impl<FutT, FutB> X<FutT, FutB>`) changes the printed path of every method of the impl, not the function"""
    global _GEN
    if _GEN is None:
        import re
        _GEN = re.compile(r"<[^<>()]*>")
    return _GEN.sub("<_>", p) if isinstance(p, str) else p


class _Vocab(set):
    """membership modulo the names of generic parameters"""

    def __contains__(self, p):
        return set.__contains__(self, canon_path(p))


def vocabulary():
    global _vocab
    if _vocab is None:
        d = vocabulary_doc()
        _vocab = _Vocab(canon_path(x) for x in d["functions"]) if d.get("functions") else None
    return _vocab


def _is_coroutine_ctor(body):
    for blk in body["blocks"]:
        for s in blk["stmts"]:
            if s["k"] == "assign" and s["rv"].get("k") == "agg" and s["rv"].get("ak") in ("coroutine", "coroutine_closure"):
                return True
    return False


def _callee_cdef(t):
    f = t.get("func") or {}
    if "indirect" in f:
        return None
    return f.get("resolved_c") or f.get("cpath")


def _renumber(x, lo, bo):
    """deep copy of a JSON fragment with locals shifted by lo and block ids by bo"""
    if isinstance(x, list):
        return [_renumber(y, lo, bo) for y in x]
    if not isinstance(x, dict):
        return x
    d = {}
    is_place = "l" in x and "p" in x and isinstance(x.get("l"), int)
    for k, v in x.items():
        if k == "l" and isinstance(v, int) and (is_place or x.get("k") in ("live", "dead")):
            d[k] = v + lo
        elif k == "i" and isinstance(v, int) and set(x.keys()) <= {"i", "ty"}:
            d[k] = v + lo          # Index(local) projection element
        elif k in ("t", "imag", "drop", "otherwise") and isinstance(v, int):
            d[k] = v + bo
        elif k == "unwind" and isinstance(v, int):
            d[k] = v + bo
        elif k == "vals" and isinstance(v, list):
            d[k] = [[a, b + bo] for a, b in v]
        else:
            d[k] = _renumber(v, lo, bo)
    return d


def _subst_local(x, old, new):
    """replace the base local `old` by `new` in every place of a JSON fragment (in place)"""
    if isinstance(x, list):
        for y in x:
            _subst_local(y, old, new)
    elif isinstance(x, dict):
        if isinstance(x.get("l"), int) and x["l"] == old and ("p" in x or x.get("k") in ("live", "dead")):
            x["l"] = new
        for k, v in x.items():
            if k == "p" and isinstance(v, list):
                for pe in v:
                    if isinstance(pe, dict) and pe.get("i") == old and set(pe.keys()) <= {"i", "ty"}:
                        pe["i"] = new
            _subst_local(v, old, new)


def _inline_one(caller, bidx, callee):
    """splice `callee` into `caller` at the call terminating block bidx"""
    call = caller["blocks"][bidx]["term"]
    lo = len(caller["locals"])
    bo = len(caller["blocks"])
    caller["locals"].extend(copy.deepcopy(callee["locals"]))
    stmts = caller["blocks"][bidx]["stmts"]
    sp = call.get("sp")
    for k, a in enumerate(call["args"]):
        stmts.append({"k": "assign", "lhs": {"l": lo + 1 + k, "p": []}, "rv": {"k": "use", "op": copy.deepcopy(a)}, "sp": sp, "mac": None, "inl": callee["def"]})
    target = call.get("t")
    unwind = call.get("unwind")
    dest = call["dest"]
    # a destination that is a plain local *is* the helper's return place (no intermediate copy: the values the
    # helper returns stay visible as definitions of the caller's own local, e.g. of `_0`)
    direct = not dest["p"]
    for blk in callee["blocks"]:
        nb = _renumber(blk, lo, bo)
        if direct:
            _subst_local(nb, lo, dest["l"])
        t = nb["term"]
        if t["k"] == "return":
            if not direct:
                nb["stmts"].append({"k": "assign", "lhs": copy.deepcopy(dest), "rv": {"k": "use", "op": {"mv": {"l": lo, "p": []}}}, "sp": sp, "mac": None, "inl": callee["def"]})
            if target is None:
                nb["term"] = {"k": "unreachable", "sp": sp, "mac": None}
            else:
                nb["term"] = {"k": "goto", "t": target, "sp": sp, "mac": None}
        elif t["k"] == "resume":
            if isinstance(unwind, int):
                nb["term"] = {"k": "goto", "t": unwind, "sp": sp, "mac": None}
        caller["blocks"].append(nb)
    caller["blocks"][bidx]["term"] = {"k": "goto", "t": bo, "sp": sp, "mac": None, "inlined_call": callee["def"]}
    caller.setdefault("inlined", []).append(callee["def"])


def inline_helpers(facts, rounds=2):
    """Mutates `facts` (the JSON produced by the driver).  Returns the list of helper defs inlined."""
    vocab = vocabulary()
    if vocab is None:
        return []
    by_cdef = {}
    for b in facts["bodies"]:
        by_cdef.setdefault(b["cdef"], b)
    helpers = {}
    # a helper with a single call site in the whole crate (a trait method that merely delegates to an inherent
    # `poll_inner`, a destructor that delegates to `drop_slots`) is inlined whatever its size
    ncalls = {}
    for b in facts["bodies"]:
        for blk in b["blocks"]:
            t = blk["term"]
            if t["k"] == "call":
                cd = _callee_cdef(t)
                if cd:
                    ncalls[cd] = ncalls.get(cd, 0) + 1
    for b in facts["bodies"]:
        if b["kind"] in ("Fn", "AssocFn") and b["def"] not in vocab and b.get("impl_trait") is None \
                and (len(b["blocks"]) <= MAX_BLOCKS or (ncalls.get(b["cdef"], 0) == 1 and len(b["blocks"]) <= MAX_BLOCKS_SINGLE)) \
                and not _is_coroutine_ctor(b):
            helpers[b["cdef"]] = b
    if not helpers:
        return []
    done = set()
    callers = {}
    for _ in range(rounds):
        changed = False
        for b in facts["bodies"]:
            n = len(b["blocks"])
            for i in range(n):
                t = b["blocks"][i]["term"]
                if t["k"] != "call":
                    continue
                cd = _callee_cdef(t)
                h = helpers.get(cd)
                if h is None or h is b or len(b["blocks"]) > 4000:
                    continue
                # no (direct) recursion
                if any(bb["term"]["k"] == "call" and _callee_cdef(bb["term"]) == cd for bb in h["blocks"]):
                    continue
                _inline_one(b, i, h)
                done.add(h["def"])
                callers.setdefault(h["def"], set()).add(b.get("root") or b["def"])
                changed = True
        if not changed:
            break
    if done:
        facts["inlined_helpers"] = sorted(done)
        # closures defined inside a helper keep the helper as their root: remember who called it
        facts["helper_callers"] = {k: sorted(v) for k, v in callers.items()}
        # a helper all of whose calls were inlined has no life of its own any more
        still_called = set()
        for b in facts["bodies"]:
            for blk in b["blocks"]:
                if blk["term"]["k"] == "call":
                    still_called.add(_callee_cdef(blk["term"]))
        facts["bodies"] = [b for b in facts["bodies"] if not (b["cdef"] in helpers and b["def"] in done and b["cdef"] not in still_called)]
    return sorted(done)
