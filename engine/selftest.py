"""E4 — checker self-test (thorough tier): every seeded fault in mutants/<property>/*.diff must make
the named rule fire, every benign twin must leave the check silent.  Each diff is applied to a
scratch *copy* of /repo under $TMPDIR (never to /repo), the same `check` is run on the copy, and the
copy is deleted.  A failure here is a defect of the checker (exit 3), never a VIOLATION of /repo."""
import glob
import os
import shutil
import subprocess
import sys
import tempfile
from concurrent.futures import ThreadPoolExecutor

from . import facts as factsmod

VERIF = factsmod.VERIF
WORKERS = 6


def _one(args):
    prop, diff, tmp, i = args
    head = open(diff).readline().strip()
    benign = head.startswith("# benign")
    expect = (head.split("expect:")[1].split() or [None])[0] if "expect:" in head else None
    work = os.path.join(tmp, "repo%d" % i)
    subprocess.check_call(["rsync", "-a", "--exclude", "target", "--exclude", ".git", factsmod.REPO.rstrip("/") + "/", work + "/"])
    r = subprocess.run(["git", "apply", "--whitespace=nowarn", diff], cwd=work, capture_output=True, text=True)
    name = os.path.relpath(diff, os.path.join(VERIF, "mutants")) if "/mutants/" in diff else os.path.relpath(diff, VERIF)
    if r.returncode != 0:
        shutil.rmtree(work, ignore_errors=True)
        return {"mutant": name, "status": "skipped", "why": "does not apply to the current tree"}
    # one fact cache (and cargo target directory) per worker slot: the workers do not queue on the extraction lock
    env = dict(os.environ, VERIF_REPO=work, VERIF_EVIDENCE_DIR=os.path.join(tmp, "ev%d" % i), VERIF_SELFTEST_CHILD="1",
               VERIF_CACHE=os.path.join(tmp, "cache%d" % (i % WORKERS)))
    c = subprocess.run([os.path.join(VERIF, "check"), prop, "--tier", "quick"], cwd=VERIF, env=env, capture_output=True, text=True)
    shutil.rmtree(work, ignore_errors=True)
    keys = [l.strip() for l in c.stdout.splitlines() if " | " in l and "] " in l]
    rules = sorted({l.split("] ")[1].split(" | ")[0] for l in keys})
    known_miss = None
    if "/seeded/" in diff:
        try:
            import json
            known_miss = json.load(open(os.path.join(os.path.dirname(diff), "meta.json"))).get("known_undetected")
        except (OSError, ValueError):
            known_miss = None
    if benign:
        good = c.returncode == 0
    elif known_miss:
        # a documented limit of the analysis (DESIGN §12): must at least not be reported as passing silently *with* a
        # violation of something else; recorded separately, never counted as detected
        return {"mutant": name, "status": "known-miss", "benign": False, "expect": None, "exit": c.returncode, "fired": rules, "why": known_miss}
    else:
        good = c.returncode == 1 and (expect in (None, "None") or any(x == expect or x.startswith(expect) for x in rules))
    return {"mutant": name, "status": "ok" if good else "FAIL", "benign": benign, "expect": expect, "exit": c.returncode, "fired": rules}


def _anchor_files(prop):
    import json
    try:
        for line in open(os.path.join(VERIF, "properties.jsonl")):
            d = json.loads(line)
            if d["id"] == prop:
                return set(d.get("anchors", {}).get("files", []))
    except OSError:
        pass
    return set()


def _touched(diff):
    out = set()
    for line in open(diff):
        if line.startswith("+++ b/"):
            out.add(line[6:].strip())
    return out


def run(prop):
    diffs = sorted(glob.glob(os.path.join(VERIF, "mutants", prop, "*.diff")))
    # independently seeded breaking changes filed under this property (seeded/<prop>-x/patch.diff): any rule may fire
    diffs += sorted(glob.glob(os.path.join(VERIF, "seeded", prop + "-*", "patch.diff")))
    # behaviour-preserving refactors (written independently) that touch a file this property is anchored in
    anchors = _anchor_files(prop)
    for d in sorted(glob.glob(os.path.join(VERIF, "mutants", "benign", "*.diff"))):
        if _touched(d) & anchors:
            diffs.append(d)
    tmp = tempfile.mkdtemp(prefix="verif-selftest-")
    try:
        with ThreadPoolExecutor(max_workers=WORKERS) as ex:
            res = list(ex.map(_one, [(prop, d, tmp, i) for i, d in enumerate(diffs)]))
    finally:
        shutil.rmtree(tmp, ignore_errors=True)
    faults = [r for r in res if r["status"] not in ("skipped", "known-miss") and not r.get("benign")]
    benign = [r for r in res if r["status"] != "skipped" and r.get("benign")]
    return {
        "mutants": len(diffs),
        "faults": len(faults),
        "faults_detected": sum(1 for r in faults if r["status"] == "ok"),
        "benign": len(benign),
        "benign_silent": sum(1 for r in benign if r["status"] == "ok"),
        "skipped": [r["mutant"] for r in res if r["status"] == "skipped"],
        "known_undetected": [{"mutant": r["mutant"], "exit": r["exit"], "why": r.get("why")} for r in res if r["status"] == "known-miss"],
        "failures": ["%s expect=%s exit=%s fired=%s" % (r["mutant"], r.get("expect"), r.get("exit"), r.get("fired")) for r in res if r["status"] == "FAIL"],
        "results": res,
    }
