"""Deferred working copies of state fields.

`let mut completed = *this.completed; .. completed += 1; .. *this.completed = completed; return ..` keeps a field of the
combinator in a local and stores it back on the way out.  That is the same as updating the field in place only if

  (1) every path from a modification of the local to a `return` passes a write-back `P = L`, and
  (2) no child is polled (no user code that may unwind, re-enter or observe) between a modification and its write-back -
      a panic out of that poll would lose the update although the child's result was already acted upon.

This pass finds such copies (one `L = copy P` of a projected place rooted at `self`, at least one write-back, at least one
modification: a new whole definition of L or a mutable borrow of L).  When (1) and (2) hold and the local is a plain scalar
that nobody else reads through P meanwhile, the body is rewritten to the immediate form (`L = e; P = copy L` at every
definition, exit write-backs dropped), which `mirrors.py` then folds back into the field.  When they do not hold the
body is left alone and the finding is recorded in `body["copy_sync"]`: the rule `common.rule_copy_sync` reports it under the
property whose unit the body is."""
import copy

from .mirrors import _pkey, _is_place, _walk_places, _operands

USER_CALLS = {"poll", "poll_next", "call", "call_mut", "call_once"}


def _src_local(x):
    if x["k"] == "assign" and x["rv"]["k"] == "use":
        o = x["rv"]["op"]
        pl = o.get("cp") or o.get("mv")
        if pl is not None and not pl["p"]:
            return pl["l"]
    return None


def _succs(t):
    out = []
    for k in ("t", "imag", "otherwise", "drop", "real"):
        if isinstance(t.get(k), int):
            out.append(t[k])
    for v in t.get("vals") or []:
        out.append(v[1])
    return out


class _Shim:
    """just enough of mir.Facts for value terms of one body"""

    def __init__(self, types):
        self.types = types

    def closure_return_term(self, cpath):
        return None


def _terms(b, types):
    from .mir import Body
    from .terms import Terms
    body = Body(_Shim(types), b)
    return Terms(body)


def analyse_body(b, types=None):
    blocks = b["blocks"]
    argc = b.get("argc", 0)
    ndefs = {}
    for blk in blocks:
        for s in blk["stmts"]:
            if s["k"] == "assign" and not s["lhs"]["p"]:
                ndefs[s["lhs"]["l"]] = ndefs.get(s["lhs"]["l"], 0) + 1
        d = blk["term"].get("dest")
        if _is_place(d) and not d["p"]:
            ndefs[d["l"]] = ndefs.get(d["l"], 0) + 1
    findings = []
    rewritten = 0
    # candidate inits: L = copy P
    inits = {}
    for bi_, blk in enumerate(blocks):
        for si, s in enumerate(blk["stmts"]):
            if s["k"] == "assign" and not s["lhs"]["p"] and s["lhs"]["l"] > argc:
                rv = s["rv"]
                if rv["k"] == "use" and "cp" in rv["op"] and rv["op"]["cp"]["p"] and rv["op"]["cp"]["l"] != s["lhs"]["l"]:
                    P = rv["op"]["cp"]
                    if ndefs.get(P["l"], 0) <= 1 and all(ndefs.get(e["i"], 0) <= 1 for e in P["p"] if isinstance(e, dict) and "i" in e):
                        inits.setdefault(s["lhs"]["l"], []).append((bi_, si, P))
    for L, ins in sorted(inits.items()):
        if len(ins) != 1 or not b["locals"][L].get("user"):
            continue
        ib, isi, P = ins[0]
        pk = _pkey(P)
        if types is not None:
            # the same place is often reached through different reborrows (`this.state[i]` goes through a fresh
            # `deref_mut()` each time): compare places by their value-origin term, not by their spelling
            try:
                T = _terms(b, types)
                pterm = T.of_place(P)
                same = lambda pl: _pkey(pl) == pk or (pl["p"] and T.of_place(pl) == pterm)
            except Exception:
                same = lambda pl: _pkey(pl) == pk
        else:
            same = lambda pl: _pkey(pl) == pk
        # write-backs P = L (possibly through one temporary)
        temps = set()
        for blk in blocks:
            for s in blk["stmts"]:
                if s["k"] == "assign" and not s["lhs"]["p"] and _src_local(s) == L and ndefs.get(s["lhs"]["l"]) == 1 and s["lhs"]["l"] != L:
                    temps.add(s["lhs"]["l"])
        wbs = set()
        for bi_, blk in enumerate(blocks):
            for si, s in enumerate(blk["stmts"]):
                if s["k"] == "assign" and same(s["lhs"]) and (_src_local(s) == L or _src_local(s) in temps):
                    wbs.add((bi_, si))
        if not wbs:
            continue
        mods = []
        borrowed = False
        for bi_, blk in enumerate(blocks):
            for si, s in enumerate(blk["stmts"]):
                if s["k"] != "assign":
                    continue
                if not s["lhs"]["p"] and s["lhs"]["l"] == L and (bi_, si) != (ib, isi):
                    mods.append((bi_, si))
                elif s["lhs"]["p"] and s["lhs"]["l"] == L and "*" not in s["lhs"]["p"]:
                    mods.append((bi_, si))
                rv = s["rv"]
                if rv["k"] in ("ref", "rawptr") and rv.get("mut") and rv["place"]["l"] == L and "*" not in rv["place"]["p"]:
                    mods.append((bi_, si))
                    borrowed = True
            d = blk["term"].get("dest")
            if _is_place(d) and d["l"] == L and "*" not in d["p"]:
                mods.append((bi_, len(blk["stmts"])))
        if not mods:
            continue
        name = b["locals"][L].get("name") or ("_%d" % L)
        bad = []
        for (mb, mi) in mods:
            seen = set()
            work = [(mb, mi + 1)]
            while work:
                cb, ci = work.pop()
                st = blocks[cb]["stmts"]
                hit = False
                for j in range(ci, len(st)):
                    if (cb, j) in wbs:
                        hit = True
                        break
                if hit:
                    continue
                t = blocks[cb]["term"]
                if blocks[cb].get("cleanup"):
                    continue
                if t["k"] == "return":
                    bad.append(("return", t.get("sp") or "", blocks[mb]["stmts"][mi].get("sp", "") if mi < len(blocks[mb]["stmts"]) else ""))
                    continue
                if t["k"] == "call" and (t["func"].get("name") in USER_CALLS and (t["func"].get("trait") or "").rsplit("::", 1)[-1] in ("Future", "Stream", "FnMut", "FnOnce", "Fn")):
                    bad.append(("poll", t.get("sp") or "", blocks[mb]["stmts"][mi].get("sp", "") if mi < len(blocks[mb]["stmts"]) else ""))
                    continue
                for tb in _succs(t):
                    if tb not in seen and tb < len(blocks) and not blocks[tb].get("cleanup"):
                        seen.add(tb)
                        work.append((tb, 0))
        if bad:
            kinds = sorted({k for k, _, _ in bad})
            findings.append({"local": name, "place": _place_str(P), "kinds": kinds,
                             "at": sorted({sp for _, sp, _ in bad})[:4], "modified_at": sorted({m for _, _, m in bad})[:4]})
            continue
        # consistent: rewrite to the immediate form when that is safe
        if borrowed:
            rewritten += _fold_borrow_windows(b, L, P, pk, wbs, temps, ndefs)
            continue
        direct = [0]

        def cnt(o):
            pl = o.get("cp") or o.get("mv")
            if pl is not None and same(pl):
                direct[0] += 1
        for bi_, blk in enumerate(blocks):
            for si, s in enumerate(blk["stmts"]):
                if (bi_, si) == (ib, isi):
                    continue
                ops = []
                _operands(s.get("rv", {}) if s["k"] == "assign" else s, ops)
                for o in ops:
                    cnt(o)
                if s["k"] == "assign" and same(s["lhs"]) and (bi_, si) not in wbs:
                    direct[0] += 1
                if s["k"] == "assign" and s["rv"]["k"] in ("ref", "rawptr"):
                    k2 = _pkey(s["rv"]["place"])
                    if k2[:len(pk)] == pk or pk[:len(k2)] == k2 and len(k2) > 1:
                        direct[0] += 1
            ops = []
            _operands(blk["term"], ops)
            for o in ops:
                cnt(o)
        if direct[0]:
            continue
        whole = [(mb, mi) for (mb, mi) in mods if mi < len(blocks[mb]["stmts"]) and not blocks[mb]["stmts"][mi]["lhs"]["p"]]
        if len(whole) != len(mods):
            continue
        # drop the exit write-backs, add one after every definition
        for bi_, blk in enumerate(blocks):
            new = []
            for si, s in enumerate(blk["stmts"]):
                if (bi_, si) in wbs:
                    continue
                new.append(s)
                if (bi_, si) in set(whole):
                    new.append({"k": "assign", "lhs": copy.deepcopy(P), "rv": {"k": "use", "op": {"cp": {"l": L, "p": []}}},
                                "sp": s.get("sp"), "mac": None, "synthetic": "copysync"})
            blk["stmts"] = new
        rewritten += 1
    if findings:
        b["copy_sync"] = findings
    return rewritten, len(findings)


def _fold_borrow_windows(b, L, P, pk, wbs, temps, ndefs):
    """`let mut slot = this.state[i]; .. slot.set_ready(); this.state[i] = slot;`: every modification is a call given
    `&mut L` that is immediately followed by the write-back.  Then L and P agree wherever anybody looks, and the call may
    as well be given `&mut P`: the borrow is redirected and the write-back dropped.  All modifications must have this
    shape (no whole re-definitions of L), else nothing is changed."""
    blocks = b["blocks"]
    plan = []      # (block, stmt idx of the borrow, write-back (block, idx))
    for bi_, blk in enumerate(blocks):
        for si, s in enumerate(blk["stmts"]):
            if s["k"] != "assign":
                continue
            if not s["lhs"]["p"] and s["lhs"]["l"] == L and not (s["rv"]["k"] == "use" and "cp" in s["rv"]["op"] and s["rv"]["op"]["cp"] is P):
                return 0
            rv = s["rv"]
            if rv["k"] in ("ref", "rawptr") and rv.get("mut") and rv["place"]["l"] == L:
                if rv["place"]["p"] or s["lhs"]["p"] or ndefs.get(s["lhs"]["l"]) != 1:
                    return 0
                R = s["lhs"]["l"]
                t = blk["term"]
                if t["k"] != "call" or not any((a.get("mv") or a.get("cp") or {}).get("l") == R for a in t["args"]) or not isinstance(t.get("t"), int):
                    return 0
                if any(x["k"] == "assign" for x in blk["stmts"][si + 1:] if not (x["k"] == "assign" and _src_local(x) == R)):
                    return 0
                nb = t["t"]
                found = None
                hops = 0
                while found is None and hops < 5:
                    st = blocks[nb]["stmts"]
                    j = 0
                    clean = True
                    while j < len(st):
                        x = st[j]
                        if x["k"] in ("live", "dead"):
                            j += 1
                            continue
                        if (nb, j) in wbs:
                            found = (nb, j)
                            break
                        if x["k"] == "assign" and not x["lhs"]["p"] and x["lhs"]["l"] != L and ndefs.get(x["lhs"]["l"], 0) <= 1:
                            j += 1          # a temporary on the way to the write-back (`T = copy L`, `&mut *this.state`)
                            continue
                        clean = False
                        break
                    if found is not None or not clean:
                        break
                    # the address computation of the write-back: deref_mut / index_mut / bounds check
                    t2 = blocks[nb]["term"]
                    if t2["k"] == "call" and t2["func"].get("name") in ("deref_mut", "deref", "index_mut", "index", "as_mut", "get_unchecked_mut") \
                            and isinstance(t2.get("t"), int):
                        nb = t2["t"]
                    elif t2["k"] in ("assert", "goto") and isinstance(t2.get("t"), int):
                        nb = t2["t"]
                    else:
                        break
                    hops += 1
                if found is None:
                    return 0
                plan.append((bi_, si, found))
    if not plan:
        return 0
    drop = {wb for _, _, wb in plan}
    if drop != set(wbs):
        return 0
    for bi_, si, wb in plan:
        blocks[bi_]["stmts"][si]["rv"]["place"] = copy.deepcopy(P)
        blocks[bi_]["stmts"][si]["redirected"] = L
    for bi_, blk in enumerate(blocks):
        blk["stmts"] = [s for si, s in enumerate(blk["stmts"]) if (bi_, si) not in drop]
    return 1


def _place_str(P):
    out = "_%d" % P["l"]
    for e in P["p"]:
        if e == "*":
            out = "*" + out
        elif isinstance(e, dict) and "f" in e:
            out += "." + str(e.get("name") if e.get("name") is not None else e["f"])
    return out


def run(facts):
    rw = fd = 0
    for b in facts["bodies"]:
        try:
            r, f_ = analyse_body(b, facts.get("types"))
        except (KeyError, TypeError, IndexError):
            continue
        rw += r
        fd += f_
    facts["copy_sync"] = {"rewritten": rw, "findings": fd}
    return rw, fd
