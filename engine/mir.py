"""MIR fact model: bodies, CFG on normal edges, dominators, loops, reachability, value origins."""
from collections import defaultdict, deque


class Facts:
    def __init__(self, d):
        self.d = d
        self.config_name = d["config"]            # e.g. "std-rel"
        self.config = d["config"].split("-")[0]   # feature set: std / alloc / core
        self.profile = "release" if d["config"].endswith("-rel") else "dev"
        self.types = d["types"]
        self.adts = {a["path"]: a for a in d["adts"]}
        self.adts_c = {a["cpath"]: a for a in d["adts"]}
        self.impls = d["impls"]
        self.bodies = [Body(self, b) for b in d["bodies"]]
        self.by_def = {}
        self.by_cdef = {}
        for b in self.bodies:
            self.by_def.setdefault(b.def_, b)
            self.by_cdef.setdefault(b.j.get("cdef"), b)
        self._closure_ret = {}

    def closure_return_term(self, cpath):
        """The single returned value term of closure body `cpath` (in the closure's own terms:
        ('param', 1) = captures, ('param', 2) = first argument), or None."""
        if cpath in self._closure_ret:
            return self._closure_ret[cpath]
        self._closure_ret[cpath] = None
        b = self.by_cdef.get(cpath)
        if b is not None and b.n <= 40:
            from .terms import Terms
            T = Terms(b)
            rets = set()
            for blk in sorted(b.reachable):
                if b.is_cleanup(blk):
                    continue
                for s in b.stmts(blk):
                    if s["k"] == "assign" and s["lhs"]["l"] == 0 and not s["lhs"]["p"]:
                        rets.add(T.of_rvalue(s["rv"], 0))
                t = b.term(blk)
                if t["k"] == "call" and t["dest"]["l"] == 0 and not t["dest"]["p"]:
                    rets.add(T.of_call(blk, t, 0))
            if len(rets) == 1:
                self._closure_ret[cpath] = next(iter(rets))
        return self._closure_ret[cpath]

    def ty(self, ix):
        return self.types[ix] if ix is not None else None

    def tys(self, ix):
        return self.types[ix]["s"] if ix is not None else None

    def body(self, def_):
        return self.by_def.get(def_)

    def find(self, pred):
        return [b for b in self.bodies if pred(b)]


# --------------------------------------------------------------------------------------------
# places / operands helpers (pure functions over the JSON)
# --------------------------------------------------------------------------------------------

def op_place(op):
    """The place read by an operand, or None for constants."""
    if op is None:
        return None
    if "cp" in op:
        return op["cp"]
    if "mv" in op:
        return op["mv"]
    return None


def op_const(op):
    return op.get("c") if op else None


def op_local(op):
    """Local of a bare-local operand (no projection) or None."""
    p = op_place(op)
    if p is not None and not p["p"]:
        return p["l"]
    return None


def place_is_local(p):
    return p is not None and not p["p"]


def proj_str(e):
    if e == "*":
        return "*"
    if isinstance(e, str):
        return e
    if "f" in e:
        return "." + (e["name"] if e.get("name") else str(e["f"]))
    if "i" in e:
        return "[_%d]" % e["i"]
    if "ci" in e:
        return "[%s%d]" % ("-" if e.get("from_end") else "", e["ci"])
    if "dc" in e:
        return "@" + (e["name"] or str(e["dc"]))
    if "sub" in e:
        return "[%d..%d]" % tuple(e["sub"])
    return "?"


def place_str(p):
    s = "_%d" % p["l"]
    for e in p["p"]:
        if e == "*":
            s = "(*%s)" % s
        else:
            s += proj_str(e)
    return s


def op_str(op):
    if "cp" in op:
        return "copy " + place_str(op["cp"])
    if "mv" in op:
        return "move " + place_str(op["mv"])
    c = op.get("c")
    if c is not None:
        if c.get("v") is not None:
            return "const %s" % c["v"]
        if c.get("fn"):
            return "fn " + c["fn"]["path"]
        return "const " + c["s"]
    return "?"


def rv_str(rv):
    k = rv["k"]
    if k == "use":
        return op_str(rv["op"])
    if k == "ref":
        return ("&mut " if rv["mut"] else ("&fake " if rv.get("bk") == "fake" else "&")) + place_str(rv["place"])
    if k == "rawptr":
        return "&raw " + place_str(rv["place"])
    if k == "cast":
        return "%s as <%s>" % (op_str(rv["op"]), rv["ck"])
    if k == "binop":
        return "%s(%s, %s)" % (rv["op"], op_str(rv["a"]), op_str(rv["b"]))
    if k == "unop":
        return "%s(%s)" % (rv["op"], op_str(rv["a"]))
    if k == "discr":
        return "discriminant(%s)" % place_str(rv["place"])
    if k == "agg":
        ak = rv["ak"]
        fs = ", ".join(op_str(f) for f in rv["fields"])
        if ak == "adt":
            return "%s::%s{%s}" % (rv["path"], rv["vname"], fs)
        if ak in ("closure", "coroutine", "coroutine_closure"):
            return "%s<%s>{%s}" % (ak, rv["path"], fs)
        return "%s(%s)" % (ak, fs)
    if k == "repeat":
        return "[%s; %s]" % (op_str(rv["op"]), rv["n"])
    return k + ":" + str(rv.get("s", ""))


def callee_name(f):
    if "indirect" in f:
        return "<indirect %s>" % op_str(f["indirect"])
    return f.get("resolved") or f["path"]


# --------------------------------------------------------------------------------------------
# Body
# --------------------------------------------------------------------------------------------

class Body:
    def __init__(self, facts, j):
        self.facts = facts
        self.j = j
        self.def_ = j["def"]
        self.name = j["name"]
        self.kind = j["kind"]
        self.root = j["root"]
        self.root_name = j["root_name"]
        self.impl = j["impl"]
        self.impl_trait = j["impl_trait"]
        self.impl_self = j["impl_self"]
        self.span = j["span"]
        self.mac = j["mac"]
        self.argc = j["argc"]
        self.locals = j["locals"]
        self.blocks = j["blocks"]
        self.n = len(self.blocks)
        self._succ = None
        self._pred = None
        self._dom = None
        self._defs = None
        self._loops = None
        self._reach_entry = None

    def __repr__(self):
        return "<Body %s>" % self.def_

    # ------------------------------------------------------------------ basic access
    def term(self, b):
        return self.blocks[b]["term"]

    def stmts(self, b):
        return self.blocks[b]["stmts"]

    def is_cleanup(self, b):
        return self.blocks[b]["cleanup"]

    def local_ty(self, l):
        return self.facts.types[self.locals[l]["ty"]]

    def local_tys(self, l):
        return self.local_ty(l)["s"]

    def impl_self_s(self):
        return self.facts.tys(self.impl_self) if self.impl_self is not None else None

    # ------------------------------------------------------------------ CFG
    def _build(self):
        succ = []
        for b in range(self.n):
            t = self.term(b)
            k = t["k"]
            out = []
            if k == "goto":
                out.append((t["t"], ("goto",)))
            elif k == "switch":
                for v, tb in t["vals"]:
                    out.append((tb, ("sw", v)))
                out.append((t["otherwise"], ("sw", "otherwise")))
            elif k in ("call", "drop", "assert", "falseedge", "falseunwind"):
                if t.get("t") is not None:
                    out.append((t["t"], (k,)))
            elif k == "yield":
                out.append((t["t"], ("yield",)))
            succ.append(out)
        self._succ = succ
        pred = [[] for _ in range(self.n)]
        for b in range(self.n):
            for tb, lab in succ[b]:
                pred[tb].append(b)
        self._pred = pred

    @property
    def succ(self):
        if self._succ is None:
            self._build()
        return self._succ

    @property
    def pred(self):
        if self._pred is None:
            self._build()
        return self._pred

    def succs(self, b):
        return [tb for tb, _ in self.succ[b]]

    def unwind_target(self, b):
        u = self.term(b).get("unwind")
        return u if isinstance(u, int) else None

    def reach(self, starts, avoid_blocks=(), avoid_edges=(), stop_blocks=()):
        """Blocks reachable from `starts` over normal edges.  `avoid_blocks` are never entered,
        `stop_blocks` are entered but not expanded, `avoid_edges` (a,b) are never taken."""
        avoid_blocks = set(avoid_blocks)
        avoid_edges = set(avoid_edges)
        stop_blocks = set(stop_blocks)
        seen = set()
        dq = deque()
        for s in starts:
            if s not in avoid_blocks and s not in seen:
                seen.add(s)
                dq.append(s)
        while dq:
            b = dq.popleft()
            if b in stop_blocks:
                continue
            for tb in self.succs(b):
                if tb in seen or tb in avoid_blocks or (b, tb) in avoid_edges:
                    continue
                seen.add(tb)
                dq.append(tb)
        return seen

    @property
    def reachable(self):
        if self._reach_entry is None:
            self._reach_entry = self.reach([0])
        return self._reach_entry

    def reachable_avoiding(self, avoid_blocks=(), avoid_edges=()):
        return self.reach([0], avoid_blocks=avoid_blocks, avoid_edges=avoid_edges)

    def edge_dominates(self, edge, block):
        """Every path from entry to `block` uses `edge` (a, b)."""
        if block not in self.reachable:
            return True
        return block not in self.reachable_avoiding(avoid_edges=[edge])

    def blocks_dominate(self, blocks, block):
        """Every path from entry to `block` passes through one of `blocks`."""
        if block in blocks:
            return True
        if block not in self.reachable:
            return True
        return block not in self.reachable_avoiding(avoid_blocks=blocks)

    # ------------------------------------------------------------------ dominators (Cooper-Harvey-Kennedy)
    @property
    def idom(self):
        if self._dom is None:
            order = []
            seen = set()
            stack = [(0, iter(self.succs(0)))]
            seen.add(0)
            while stack:
                b, it = stack[-1]
                adv = False
                for tb in it:
                    if tb not in seen:
                        seen.add(tb)
                        stack.append((tb, iter(self.succs(tb))))
                        adv = True
                        break
                if not adv:
                    order.append(b)
                    stack.pop()
            rpo = list(reversed(order))
            num = {b: i for i, b in enumerate(rpo)}
            idom = {0: 0}
            changed = True
            while changed:
                changed = False
                for b in rpo[1:]:
                    ps = [p for p in self.pred[b] if p in idom]
                    if not ps:
                        continue
                    new = ps[0]
                    for p in ps[1:]:
                        a, c = p, new
                        while a != c:
                            while num[a] > num[c]:
                                a = idom[a]
                            while num[c] > num[a]:
                                c = idom[c]
                        new = a
                    if idom.get(b) != new:
                        idom[b] = new
                        changed = True
            self._dom = idom
            self._rpo = rpo
        return self._dom

    def dominates(self, a, b):
        idom = self.idom
        if b not in idom or a not in idom:
            return False
        while True:
            if a == b:
                return True
            nb = idom[b]
            if nb == b:
                return False
            b = nb

    # ------------------------------------------------------------------ natural loops
    @property
    def loops(self):
        """List of (header, set(blocks)) for natural loops (back edge t->h with h dom t), merged per header."""
        if self._loops is None:
            idom = self.idom
            by_header = defaultdict(set)
            for b in idom:
                for tb in self.succs(b):
                    if tb in idom and self.dominates(tb, b):
                        # back edge b -> tb
                        body = {tb, b}
                        st = [b]
                        while st:
                            x = st.pop()
                            if x == tb:
                                continue
                            for p in self.pred[x]:
                                if p not in body and p in idom:
                                    body.add(p)
                                    st.append(p)
                        by_header[tb] |= body
            self._loops = sorted(by_header.items(), key=lambda kv: len(kv[1]))
        return self._loops

    def innermost_loop(self, b):
        for h, blocks in self.loops:  # sorted by size: first hit is innermost
            if b in blocks:
                return h, blocks
        return None

    def enclosing_loops(self, b):
        return [(h, bl) for h, bl in self.loops if b in bl]

    # ------------------------------------------------------------------ definitions of locals
    @property
    def defs(self):
        """local -> list of (block, stmt index or 'term', kind, payload).  Only whole-local
        definitions (no projection) are recorded here; partial writes are in `pwrites`."""
        if self._defs is None:
            defs = defaultdict(list)
            pw = defaultdict(list)
            for b in range(self.n):
                for i, s in enumerate(self.stmts(b)):
                    if s["k"] == "assign":
                        lhs = s["lhs"]
                        if not lhs["p"]:
                            defs[lhs["l"]].append((b, i, "assign", s["rv"]))
                        else:
                            pw[lhs["l"]].append((b, i, s))
                    elif s["k"] == "setdiscr":
                        pw[s["place"]["l"]].append((b, i, s))
                t = self.term(b)
                if t["k"] == "call":
                    d = t["dest"]
                    if not d["p"]:
                        defs[d["l"]].append((b, "term", "call", t))
                    else:
                        pw[d["l"]].append((b, "term", t))
                elif t["k"] == "yield":
                    d = t["resume_arg"]
                    if not d["p"]:
                        defs[d["l"]].append((b, "term", "yield", t))
            self._defs = defs
            self._pwrites = pw
        return self._defs

    @property
    def pwrites(self):
        self.defs
        return self._pwrites

    # ------------------------------------------------------------------ call sites
    def calls(self):
        for b in range(self.n):
            t = self.term(b)
            if t["k"] == "call":
                yield b, t

    def dump(self, only_reachable=False):
        out = []
        T = self.facts.types
        out.append("fn %s   [%s]  %s" % (self.def_, self.kind, self.span))
        for i, l in enumerate(self.locals):
            out.append("  let _%d: %s%s" % (i, T[l["ty"]]["s"], ("  // " + l["name"]) if l.get("name") else ""))
        for b in range(self.n):
            if only_reachable and b not in self.reachable:
                continue
            out.append("bb%d%s:" % (b, " (cleanup)" if self.is_cleanup(b) else ""))
            for s in self.stmts(b):
                if s["k"] == "assign":
                    out.append("    %s = %s" % (place_str(s["lhs"]), rv_str(s["rv"])))
                elif s["k"] == "setdiscr":
                    out.append("    discriminant(%s) = %d" % (place_str(s["place"]), s["variant"]))
                elif s["k"] in ("live", "dead"):
                    pass
                else:
                    out.append("    " + s["k"])
            t = self.term(b)
            k = t["k"]
            if k == "call":
                f = t["func"]
                nm = callee_name(f)
                extra = ""
                if f.get("trait") and not f.get("resolved"):
                    extra = "  {trait %s, Self=%s}" % (f["trait"], self.facts.tys(f.get("self_ty")))
                out.append("    %s = %s(%s) -> bb%s unwind %s   // %s%s" % (
                    place_str(t["dest"]), nm, ", ".join(op_str(a) for a in t["args"]), t["t"], t["unwind"], t["sp"].split("/")[-1], extra))
            elif k == "switch":
                out.append("    switch(%s) %s otherwise bb%d" % (op_str(t["op"]), ", ".join("%s->bb%d" % (v, tb) for v, tb in t["vals"]), t["otherwise"]))
            elif k == "drop":
                out.append("    drop(%s) -> bb%d unwind %s" % (place_str(t["place"]), t["t"], t["unwind"]))
            elif k == "assert":
                out.append("    assert(%s == %s) [%s] -> bb%d" % (op_str(t["cond"]), t["expected"], t["msg"], t["t"]))
            elif k == "yield":
                out.append("    %s = yield(%s) -> bb%d drop %s" % (place_str(t["resume_arg"]), op_str(t["value"]), t["t"], t["drop"]))
            elif k in ("goto", "falseedge", "falseunwind"):
                out.append("    %s -> bb%d" % (k, t["t"]))
            else:
                out.append("    " + k)
        return "\n".join(out)
