"""Mirror locals: `let mut index = *this.index; .. index += 1; *this.index = index; ..` keeps a scalar field in a local and
writes it back in the very step it changes.  At every point where anything can look, local and field agree, so the local
is replaced by the field again (the inverse of scalar replacement): reads of the local become reads of the field, each
update `L = e; P = copy L` becomes `P = e`.  Conditions (all checked; otherwise the body is left alone):

  * exactly one definition of L is `L = copy P`, with P a projected place whose root local is never reassigned;
  * every other definition of L is a plain assignment that is immediately followed (same block, only storage
    markers in between) by the write-back `P = copy L`;
  * P is written nowhere else, no reference to P or to L is taken, L is not used as an array index.
"""
import copy


def _pkey(pl):
    out = [pl["l"]]
    for e in pl["p"]:
        if isinstance(e, dict):
            if "f" in e:
                out.append(("f", e["f"]))
            elif "dc" in e:
                out.append(("dc", e["dc"]))
            elif "i" in e:
                out.append(("i", e["i"]))
            elif "ci" in e:
                out.append(("ci", e["ci"]))
            else:
                out.append(("?", str(sorted(e.items()))))
        else:
            out.append(e)
    return tuple(out)


def _is_place(x):
    return isinstance(x, dict) and "l" in x and "p" in x and isinstance(x.get("l"), int) and isinstance(x.get("p"), list)


def _walk_places(node, fn):
    if isinstance(node, list):
        for y in node:
            _walk_places(y, fn)
    elif isinstance(node, dict):
        if _is_place(node):
            fn(node)
            return
        for v in node.values():
            if isinstance(v, (dict, list)):
                _walk_places(v, fn)


def _operands(node, out):
    """operand dicts {"cp": place} / {"mv": place}"""
    if isinstance(node, list):
        for y in node:
            _operands(y, out)
    elif isinstance(node, dict):
        if ("cp" in node or "mv" in node) and len(node) == 1:
            out.append(node)
            return
        if _is_place(node):
            return
        for v in node.values():
            if isinstance(v, (dict, list)):
                _operands(v, out)


def mirror_body(b):
    blocks = b["blocks"]
    argc = b.get("argc", 0)
    ndefs = {}
    for blk in blocks:
        for s in blk["stmts"]:
            if s["k"] == "assign" and not s["lhs"]["p"]:
                ndefs[s["lhs"]["l"]] = ndefs.get(s["lhs"]["l"], 0) + 1
        d = blk["term"].get("dest")
        if _is_place(d) and not d["p"]:
            ndefs[d["l"]] = ndefs.get(d["l"], 0) + 100     # call destinations disqualify
    done = 0
    for L, n in sorted(ndefs.items()):
        if n < 2 or n >= 100 or L <= argc:
            continue
        ty = b["locals"][L]
        # one init `L = copy P`
        inits = []
        others = []
        for bi_, blk in enumerate(blocks):
            for si, s in enumerate(blk["stmts"]):
                if s["k"] == "assign" and not s["lhs"]["p"] and s["lhs"]["l"] == L:
                    rv = s["rv"]
                    if rv["k"] == "use" and "cp" in rv["op"] and rv["op"]["cp"]["p"] and rv["op"]["cp"]["l"] != L:
                        inits.append((bi_, si, rv["op"]["cp"]))
                    else:
                        others.append((bi_, si))
        if len(inits) != 1 or not others:
            continue
        P = inits[0][2]
        pk = _pkey(P)
        root = P["l"]
        if ndefs.get(root, 0) % 100 + ndefs.get(root, 0) // 100 > 1 or any(isinstance(e, dict) and "i" in e for e in P["p"]):
            continue
        ok = True
        wb = []
        for bi_, si in others:
            st = blocks[bi_]["stmts"]
            j = si + 1
            while j < len(st) and st[j]["k"] in ("live", "dead"):
                j += 1
            def src_local(x):
                if x["k"] == "assign" and x["rv"]["k"] == "use":
                    o = x["rv"]["op"]
                    pl = o.get("cp") or o.get("mv")
                    if pl is not None and not pl["p"]:
                        return pl["l"]
                return None
            if j < len(st) and st[j]["k"] == "assign" and _pkey(st[j]["lhs"]) == pk and src_local(st[j]) == L:
                wb.append((bi_, j))
            elif j < len(st) and st[j]["k"] == "assign" and not st[j]["lhs"]["p"] and src_local(st[j]) == L and ndefs.get(st[j]["lhs"]["l"]) == 1:
                # through a temporary: `T = copy L; P = move T`
                T = st[j]["lhs"]["l"]
                k2 = j + 1
                while k2 < len(st) and st[k2]["k"] in ("live", "dead"):
                    k2 += 1
                if k2 < len(st) and st[k2]["k"] == "assign" and _pkey(st[k2]["lhs"]) == pk and src_local(st[k2]) == T:
                    wb.append((bi_, k2))
                else:
                    ok = False
            else:
                ok = False
        if not ok:
            continue
        wbset = set(wb)
        # no other write to P, no reference to P / L, L not an index, root not passed around whole
        for bi_, blk in enumerate(blocks):
            for si, s in enumerate(blk["stmts"]):
                if s["k"] != "assign":
                    continue
                if _pkey(s["lhs"]) == pk and (bi_, si) not in wbset:
                    ok = False
                if s["lhs"]["p"] and s["lhs"]["l"] == L:
                    ok = False
                rv = s["rv"]
                if rv["k"] in ("ref", "rawptr"):
                    k2 = _pkey(rv["place"])
                    if k2[0] == L or k2[:len(pk)] == pk or pk[:len(k2)] == k2:
                        ok = False

                def chk(pl):
                    nonlocal ok
                    for e in pl["p"]:
                        if isinstance(e, dict) and e.get("i") == L:
                            ok = False
                _walk_places(s, chk)
            t = blk["term"]

            def chk2(pl):
                nonlocal ok
                for e in pl["p"]:
                    if isinstance(e, dict) and e.get("i") == L:
                        ok = False
                if pl["l"] == root and not pl["p"] and t["k"] == "call" and pl is not t.get("dest"):
                    ok = False
            _walk_places(t, chk2)
            d = t.get("dest")
            if _is_place(d) and _pkey(d) == pk:
                ok = False
        # every occurrence of L is a whole-local operand or a whole-local definition
        occ = [0]
        opn = [0]
        for blk in blocks:
            for s in blk["stmts"]:
                if s["k"] in ("live", "dead"):
                    continue

                def cnt(pl):
                    if pl["l"] == L:
                        occ[0] += 1
                _walk_places(s, cnt)
                ops = []
                _operands(s.get("rv", {}) if s["k"] == "assign" else s, ops)
                opn[0] += sum(1 for o in ops if (o.get("cp") or o.get("mv"))["l"] == L and not (o.get("cp") or o.get("mv"))["p"])
                if s["k"] == "assign" and s["lhs"]["l"] == L and not s["lhs"]["p"]:
                    opn[0] += 1
            _walk_places(blk["term"], cnt)
            ops = []
            _operands(blk["term"], ops)
            opn[0] += sum(1 for o in ops if (o.get("cp") or o.get("mv"))["l"] == L and not (o.get("cp") or o.get("mv"))["p"])
        if occ[0] != opn[0]:
            ok = False
        if not ok:
            continue
        # rewrite
        drop = set(wb) | {(inits[0][0], inits[0][1])}
        for bi_, blk in enumerate(blocks):
            new = []
            for si, s in enumerate(blk["stmts"]):
                if (bi_, si) in drop:
                    continue
                if s["k"] in ("live", "dead") and s.get("l") == L:
                    continue
                if s["k"] == "assign" and not s["lhs"]["p"] and s["lhs"]["l"] == L:
                    s = dict(s, lhs=copy.deepcopy(P), mirrored=L)
                ops = []
                _operands(s.get("rv", {}) if s["k"] == "assign" else s, ops)
                for o in ops:
                    key = "cp" if "cp" in o else "mv"
                    if o[key]["l"] == L and not o[key]["p"]:
                        del o[key]
                        o["cp"] = copy.deepcopy(P)
                new.append(s)
            blk["stmts"] = new
            ops = []
            _operands(blk["term"], ops)
            for o in ops:
                key = "cp" if "cp" in o else "mv"
                if o[key]["l"] == L and not o[key]["p"]:
                    del o[key]
                    o["cp"] = copy.deepcopy(P)
        b.setdefault("mirrors", []).append(L)
        done += 1
    return done


def alias_body(b, types=None):
    """`let complete = *this.complete + 1; *this.complete = complete; if complete == len {..}`: a single-definition local
    that is stored into a field in the very next statement *is* that field from then on, as long as the field is not
    written again before the local's last use.  The store takes the value directly and the later reads of the local read
    the field."""
    blocks = b["blocks"]
    argc = b.get("argc", 0)
    ndefs = {}
    for blk in blocks:
        for s in blk["stmts"]:
            if s["k"] == "assign" and not s["lhs"]["p"]:
                ndefs[s["lhs"]["l"]] = ndefs.get(s["lhs"]["l"], 0) + 1
        d = blk["term"].get("dest")
        if _is_place(d) and not d["p"]:
            ndefs[d["l"]] = ndefs.get(d["l"], 0) + 1
    succ = {}
    for i, blk in enumerate(blocks):
        t = blk["term"]
        out = []
        for k in ("t", "imag", "otherwise", "drop", "real"):
            if isinstance(t.get(k), int):
                out.append(t[k])
        for v in t.get("vals") or []:
            out.append(v[1])
        succ[i] = out

    def reach(starts, avoid=()):
        seen = set()
        work = list(starts)
        while work:
            x = work.pop()
            if x in seen or x >= len(blocks) or x in avoid:
                continue
            seen.add(x)
            work.extend(succ[x])
        return seen
    T = None
    done = 0
    for bi_, blk in enumerate(blocks):
        st = blk["stmts"]
        si = 0
        while si < len(st):
            s = st[si]
            si += 1
            if not (s["k"] == "assign" and not s["lhs"]["p"] and s["lhs"]["l"] > argc and ndefs.get(s["lhs"]["l"]) == 1
                    and b["locals"][s["lhs"]["l"]].get("user")):
                continue
            if s["rv"]["k"] not in ("binop", "use", "unop") or (s["rv"]["k"] == "use" and "c" not in s["rv"]["op"] and not (s["rv"]["op"].get("cp") or s["rv"]["op"].get("mv") or {}).get("p")):
                continue
            L = s["lhs"]["l"]
            j = si
            while j < len(st) and st[j]["k"] in ("live", "dead"):
                j += 1
            # `P = copy L` directly, or through one temporary
            wb = None
            tmp = None
            if j < len(st) and st[j]["k"] == "assign" and st[j]["lhs"]["p"] and st[j]["rv"]["k"] == "use":
                o = st[j]["rv"]["op"]
                pl = o.get("cp") or o.get("mv")
                if pl is not None and not pl["p"] and pl["l"] == L:
                    wb = j
            elif j + 1 < len(st) and st[j]["k"] == "assign" and not st[j]["lhs"]["p"] and st[j]["rv"]["k"] == "use" and ndefs.get(st[j]["lhs"]["l"]) == 1:
                o = st[j]["rv"]["op"]
                pl = o.get("cp") or o.get("mv")
                if pl is not None and not pl["p"] and pl["l"] == L:
                    tmp = st[j]["lhs"]["l"]
                    k2 = j + 1
                    while k2 < len(st) and st[k2]["k"] in ("live", "dead"):
                        k2 += 1
                    if k2 < len(st) and st[k2]["k"] == "assign" and st[k2]["lhs"]["p"] and st[k2]["rv"]["k"] == "use":
                        o2 = st[k2]["rv"]["op"]
                        pl2 = o2.get("cp") or o2.get("mv")
                        if pl2 is not None and not pl2["p"] and pl2["l"] == tmp:
                            wb = k2
            if wb is None:
                continue
            P = st[wb]["lhs"]
            if any(isinstance(e, dict) and "i" in e and ndefs.get(e["i"], 0) > 1 for e in P["p"]) or ndefs.get(P["l"], 0) > 1:
                continue
            pk = _pkey(P)
            same = lambda pl: _pkey(pl) == pk
            if types is not None:
                try:
                    if T is None:
                        from .copysync import _terms
                        T = _terms(b, types)
                    pterm = T.of_place(P)
                    same = lambda pl, pterm=pterm, pk=pk: _pkey(pl) == pk or (pl["p"] and T.of_place(pl) == pterm)
                except Exception:
                    pass
            # every occurrence of L is a plain operand; no reference to L; other writes to P do not precede a use of L
            ok = True
            use_blocks = set()
            for b2, blk2 in enumerate(blocks):
                for s2i, s2 in enumerate(blk2["stmts"]):
                    if s2["k"] in ("live", "dead") or (b2 == bi_ and s2 is s):
                        continue
                    if s2["k"] == "assign" and s2["rv"]["k"] in ("ref", "rawptr") and s2["rv"]["place"]["l"] == L:
                        ok = False
                    if s2["k"] == "assign" and s2["lhs"]["l"] == L:
                        ok = False
                    ops = []
                    _operands(s2.get("rv", {}) if s2["k"] == "assign" else s2, ops)
                    for o in ops:
                        pl = o.get("cp") or o.get("mv")
                        if pl["l"] == L:
                            if pl["p"]:
                                ok = False
                            elif not (b2 == bi_ and s2i <= wb):
                                use_blocks.add(b2)

                    def chk(pl):
                        nonlocal ok
                        for e in pl["p"]:
                            if isinstance(e, dict) and e.get("i") == L:
                                ok = False
                    _walk_places(s2, chk)
                ops = []
                _operands(blk2["term"], ops)
                for o in ops:
                    pl = o.get("cp") or o.get("mv")
                    if pl["l"] == L:
                        if pl["p"]:
                            ok = False
                        else:
                            use_blocks.add(b2)
            if not ok:
                continue
            other_w = []
            for b2, blk2 in enumerate(blocks):
                for s2i, s2 in enumerate(blk2["stmts"]):
                    if s2["k"] == "assign" and s2["lhs"]["p"] and same(s2["lhs"]) and not (b2 == bi_ and s2i == wb):
                        other_w.append(b2)
                    if s2["k"] == "assign" and s2["rv"]["k"] in ("ref", "rawptr") and s2["rv"].get("mut") and s2["rv"]["place"]["p"] and same(s2["rv"]["place"]):
                        other_w.append(b2)
            after = reach(succ[bi_]) | {bi_}
            bad = False
            for w in other_w:
                if w == bi_:
                    bad = True
                elif w in after:
                    # a use reached from the other write without passing the definition of L again
                    rw = reach(succ[w], avoid={bi_}) | {w}
                    if use_blocks & rw:
                        bad = True
            if bad:
                continue
            # rewrite: P = rv; uses of L -> copy P
            Pc = copy.deepcopy(P)
            new_stmt = dict(s, lhs=copy.deepcopy(P), aliased=L)
            drop = {wb}
            if tmp is not None:
                drop.add(j)
            idx_s = st.index(s)
            new = []
            for k3, x in enumerate(st):
                if k3 == idx_s:
                    new.append(new_stmt)
                elif k3 in drop:
                    continue
                else:
                    new.append(x)
            blk["stmts"] = new
            st = new
            for b2, blk2 in enumerate(blocks):
                for s2 in blk2["stmts"]:
                    if s2 is new_stmt or s2["k"] in ("live", "dead"):
                        continue
                    ops = []
                    _operands(s2.get("rv", {}) if s2["k"] == "assign" else s2, ops)
                    for o in ops:
                        key = "cp" if "cp" in o else "mv"
                        if o[key]["l"] == L and not o[key]["p"]:
                            del o[key]
                            o["cp"] = copy.deepcopy(Pc)
                ops = []
                _operands(blk2["term"], ops)
                for o in ops:
                    key = "cp" if "cp" in o else "mv"
                    if o[key]["l"] == L and not o[key]["p"]:
                        del o[key]
                        o["cp"] = copy.deepcopy(Pc)
                blk2["stmts"] = [x for x in blk2["stmts"] if not (x["k"] in ("live", "dead") and x.get("l") == L)]
            b.setdefault("aliases", []).append(L)
            done += 1
            si = 0
            st = blk["stmts"]
            ndefs[L] = 0
    return done


def fold_mirrors(facts):
    total = 0
    for b in facts["bodies"]:
        try:
            total += alias_body(b, facts.get("types"))
        except (KeyError, TypeError, IndexError, ValueError):
            pass
    for b in facts["bodies"]:
        try:
            total += mirror_body(b)
        except (KeyError, TypeError, IndexError):
            continue
    facts["mirror_locals"] = total
    return total
