"""L7 — path summaries of small loop-free primitives.

Every acyclic path from entry to `return` is enumerated; along it we collect the branch
conditions (subject term, label), the writes through the receiver (place term := value term), the
non-transparent calls, and the returned value term."""
from .mir import op_place
from .sites import BodyInfo, is_agg
from .terms import TRANSPARENT, IDENTITY_CPATHS, term_str


class PathSummary:
    def __init__(self):
        self.blocks = []
        self.conds = []     # (subject term, label)
        self.writes = []    # (place term, value term)
        self.calls = []     # (key, args terms, block)
        self.ret = None     # term

    def cond_on(self, pred):
        return [(s, l) for s, l in self.conds if pred(s)]

    def describe(self):
        return {
            "conds": ["%s = %s" % (term_str(s, 4), l) for s, l in self.conds],
            "writes": ["%s := %s" % (term_str(p, 4), term_str(v, 4)) for p, v in self.writes],
            "calls": ["%s::%s" % k for k, _, _ in self.calls],
            "ret": term_str(self.ret, 4) if self.ret else None,
        }


class TooComplex(Exception):
    pass


def can_reach_return(body):
    rets = [b for b in body.reachable if body.term(b)["k"] == "return"]
    seen = set(rets)
    st = list(rets)
    while st:
        x = st.pop()
        for p in body.pred[x]:
            if p not in seen:
                seen.add(p)
                st.append(p)
    return seen


def enumerate_paths(body, limit=256):
    """All acyclic entry->return block paths (normal edges).  Raises TooComplex on loops that lie on
    a path to return, or when more than `limit` paths exist."""
    live = can_reach_return(body)
    out = []

    def rec(b, path, onpath):
        if len(out) > limit:
            raise TooComplex("more than %d paths" % limit)
        path.append(b)
        onpath.add(b)
        t = body.term(b)
        if t["k"] == "return":
            out.append(list(path))
        else:
            seen_t = set()
            for tb in body.succs(b):
                if tb in seen_t or tb not in live:
                    continue
                seen_t.add(tb)
                if tb in onpath:
                    raise TooComplex("loop through bb%d" % tb)
                rec(tb, path, onpath)
        path.pop()
        onpath.discard(b)

    if 0 in live:
        rec(0, [], set())
    return out


def summarize(bi, limit=256):
    body = bi.body
    T = bi.T
    sw = {e["block"]: e for e in bi.switches}
    res = []
    for path in enumerate_paths(body, limit):
        ps = PathSummary()
        ps.blocks = path
        ret = None
        for i, b in enumerate(path):
            for s in body.stmts(b):
                if s["k"] != "assign":
                    continue
                lhs = s["lhs"]
                if lhs["l"] == 0 and not lhs["p"]:
                    ret = T.of_rvalue(s["rv"], 0)
                elif lhs["p"]:
                    pt = T.of_place(lhs)
                    root = pt
                    while root[0] in ("field", "index", "variant"):
                        root = root[1]
                    if root[0] == "param":
                        ps.writes.append((pt, T.of_rvalue(s["rv"], 0)))
            t = body.term(b)
            if t["k"] == "call":
                site = bi.by_block.get(b)
                if site is not None:
                    c = site.callee
                    transparent = (not c.indirect) and (c.key in TRANSPARENT or c.cpath in IDENTITY_CPATHS or (c.trait, c.name) in TRANSPARENT)
                    if not transparent:
                        ps.calls.append((c.key, tuple(site.args), b))
                    if t["dest"]["l"] == 0 and not t["dest"]["p"]:
                        ret = T.of_call(b, t, 0)
            elif t["k"] == "switch" and i + 1 < len(path):
                e = sw.get(b)
                nxt = path[i + 1]
                if e is not None:
                    labs = [lab for lab, tb in e["edges"].items() if tb == nxt]
                    lab = labs[0] if len(labs) == 1 else tuple(labs)
                    ps.conds.append((e["subject"], lab))
        # `let was = table[i]; if !was { .. } was`: the returned value is the very value the path branched on
        if ret is not None and ret[0] not in ("const", "agg"):
            for subj, lab in ps.conds:
                if subj == ret and lab in (True, False):
                    ret = ("const", 1 if lab else 0)
                    break
        ps.ret = ret
        res.append(ps)
    return res
