"""Per-body site index: call sites with normalised callees and argument terms, child-poll sites,
switch facts (which value a branch tests and what each edge means), and the path queries built on
`Body.reach`."""
from .mir import op_place, op_local, op_const, place_str
from .terms import Terms, Callee, term_str, subterms, simple_name

FUTURE = "core::future::future::Future"
STREAM = "futures_core::stream::Stream"

KNOWN_VARIANTS = {
    "core::task::poll::Poll": {0: "Ready", 1: "Pending"},
    "core::option::Option": {0: "None", 1: "Some"},
    "core::result::Result": {0: "Ok", 1: "Err"},
    "core::ops::control_flow::ControlFlow": {0: "Continue", 1: "Break"},
}


# label -> {predicate callee key: boolean value of the predicate meaning "is that variant"}
PREDICATES = {
    "Pending": {("Poll", "is_pending"): True, ("Poll", "is_ready"): False},
    "Ready": {("Poll", "is_pending"): False, ("Poll", "is_ready"): True},
    "Some": {("Option", "is_some"): True, ("Option", "is_none"): False},
    "None": {("Option", "is_some"): False, ("Option", "is_none"): True},
    "Ok": {("Result", "is_ok"): True, ("Result", "is_err"): False},
    "Err": {("Result", "is_ok"): False, ("Result", "is_err"): True},
}


class Site:
    __slots__ = ("info", "block", "callee", "t")

    def __init__(self, info, block, t):
        self.info = info
        self.block = block
        self.t = t
        self.callee = info.T.callee(block)

    @property
    def key(self):
        return self.callee.key

    @property
    def args(self):
        return [self.info.T.of_operand(a) for a in self.t["args"]]

    def arg(self, i):
        a = self.t["args"]
        return self.info.T.of_operand(a[i]) if i < len(a) else None

    @property
    def target(self):
        return self.t["t"]

    @property
    def dest(self):
        return self.t["dest"]

    @property
    def dest_local(self):
        d = self.t["dest"]
        return d["l"] if not d["p"] else None

    @property
    def where(self):
        return "%s (bb%d)" % (self.t["sp"], self.block)

    @property
    def term(self):
        return ("call", self.key, tuple(self.args), self.block)

    def __repr__(self):
        return "<Site bb%d %s::%s>" % (self.block, self.key[0], self.key[1])


def peel_type(facts, tix, depth=0):
    """Strip Pin / & / &mut / Box / ManuallyDrop wrappers; return the inner type descriptor."""
    t = facts.types[tix]
    if depth > 8:
        return t
    if t["k"] == "ref" or t["k"] == "ptr":
        return peel_type(facts, t["ty"], depth + 1)
    if t["k"] == "adt" and simple_name(t["cpath"]) in ("Pin", "Box", "ManuallyDrop") and t["args"]:
        for a in t["args"]:
            if isinstance(a, int):
                return peel_type(facts, a, depth + 1)
    return t


class BodyInfo:
    def __init__(self, body, subst=None):
        self.body = body
        self.facts = body.facts
        self.T = Terms(body)
        if subst:
            self.T.subst = dict(subst)
        self.sites = []
        self.by_block = {}
        for b, t in body.calls():
            if b not in body.reachable or body.is_cleanup(b):
                continue
            s = Site(self, b, t)
            self.sites.append(s)
            self.by_block[b] = s
        self._switch = None
        self._returns = None

    # ------------------------------------------------------------------ site lookup
    def sites_of(self, *keys):
        ks = set(keys)
        return [s for s in self.sites if s.key in ks]

    def sites_named(self, name, owners=None):
        return [s for s in self.sites if s.callee.name == name and (owners is None or s.callee.owner in owners)]

    def child_polls(self):
        """Future::poll / Stream::poll_next calls whose receiver type (after peeling pointers) is
        a type parameter or an associated/opaque type of one."""
        out = []
        for s in self.sites:
            c = s.callee
            if c.indirect:
                continue
            if (c.trait_c == FUTURE and c.name == "poll") or (c.trait_c == STREAM and c.name == "poll_next"):
                if c.self_ty is None:
                    continue
                inner = peel_type(self.facts, c.self_ty)
                if inner["k"] in ("param", "alias"):
                    out.append(s)
        return out

    def all_polls(self):
        out = []
        for s in self.sites:
            c = s.callee
            if not c.indirect and ((c.trait_c == FUTURE and c.name == "poll") or (c.trait_c == STREAM and c.name == "poll_next")):
                out.append(s)
        return out

    @property
    def return_blocks(self):
        if self._returns is None:
            self._returns = [b for b in self.body.reachable if self.body.term(b)["k"] == "return"]
        return self._returns

    # ------------------------------------------------------------------ switch facts
    @property
    def switches(self):
        """List of dicts: block, term (of the tested value), kind ('bool'|'discr'|'int'),
        subject (term whose discriminant/boolean is tested), negated, edges {label: target}."""
        if self._switch is None:
            out = []
            body = self.body
            for b in body.reachable:
                if body.is_cleanup(b):
                    continue
                t = body.term(b)
                if t["k"] != "switch":
                    continue
                term = self.T.of_operand(t["op"])
                neg = False
                while term[0] == "unop" and term[1] == "Not":
                    neg = not neg
                    term = term[2]
                ent = {"block": b, "term": term, "negated": neg, "raw": t}
                if term[0] == "discr":
                    ent["kind"] = "discr"
                    ent["subject"] = term[1]
                    names = self._discr_names(t["op"])
                    edges = {}
                    covered = set()
                    for v, tb in t["vals"]:
                        edges[names.get(v, v)] = tb
                        covered.add(v)
                    rest = [n for v, n in names.items() if v not in covered]
                    if len(rest) == 1:
                        edges[rest[0]] = t["otherwise"]
                    else:
                        edges["otherwise"] = t["otherwise"]
                        ent["otherwise_names"] = rest
                    ent["edges"] = edges
                else:
                    lty = None
                    p = op_place(t["op"])
                    if p is not None and not p["p"]:
                        lty = body.local_tys(p["l"])
                    elif p is not None:
                        lty = self._projected_prim(p)
                    if lty == "bool" or all(v in (0,) for v, _ in t["vals"]) and lty == "bool":
                        ent["kind"] = "bool"
                        ent["subject"] = term
                        f = None
                        for v, tb in t["vals"]:
                            if v == 0:
                                f = tb
                        tr = t["otherwise"]
                        if neg:
                            f, tr = tr, f
                        ent["edges"] = {False: f, True: tr}
                    else:
                        ent["kind"] = "int"
                        ent["subject"] = term
                        edges = {v: tb for v, tb in t["vals"]}
                        edges["otherwise"] = t["otherwise"]
                        ent["edges"] = edges
                out.append(ent)
            self._switch = out
        return self._switch

    def _projected_prim(self, p):
        """name of the primitive type of a projected place (`*this.consumed` -> 'bool'), or None"""
        F = self.body.facts
        ty = None
        for e in p["p"]:
            if isinstance(e, dict) and "f" in e and isinstance(e.get("ty"), int):
                ty = e["ty"]
            elif e == "*" and ty is not None:
                t = F.types[ty]
                ty = t.get("ty") if t["k"] in ("ref", "ptr") and isinstance(t.get("ty"), int) else None
            elif e != "*":
                ty = None
        if ty is None:
            return None
        t = F.types[ty]
        return t.get("name") if t["k"] == "prim" else None

    def _discr_names(self, op):
        """variant names for the discriminant read feeding this switch operand."""
        l = op_local(op)
        if l is None:
            return {}
        for d in self.body.defs.get(l, []):
            if d[2] == "assign" and d[3]["k"] == "discr":
                rv = d[3]
                if rv.get("variants"):
                    return {int(v): n for n, v in rv["variants"]}
        return {}

    def tests_on(self, pred):
        """switch entries whose subject term satisfies pred."""
        return [e for e in self.switches if pred(e["subject"])]

    def edge(self, ent, label):
        tb = ent["edges"].get(label)
        if tb is None:
            return None
        return (ent["block"], tb)

    # ------------------------------------------------------------------ outcomes of a call site
    def outcome_tests(self, site):
        """All switch entries testing (a projection of) the result of `site`, with the path of
        variants/fields from the result to the tested subject."""
        res = []
        for e in self.switches:
            path = self._path_from_site(e["subject"], site.block)
            if path is None and self._mentions_phi(e["subject"]) and getattr(site, "dest_local", None) is not None:
                # `let polled = match i { 0 => a.poll(cx), 1 => b.poll(cx), .. }; match polled { .. }`: the tested local
                # has one definition per arm, each the direct result of a call; the (shared) test is a test of this
                # site's result on every path that comes from this site
                path = self._path_from_shared_result(e["subject"], site)
            if path is None and self._mentions_phi(e["subject"]):
                # the result was parked in a carrier (`let polled = match .. { .. => Some(fut.poll(cx)), .. => None };
                # match polled { Some(Poll::Ready(x)) => ..`): read the subject back through the carrier's definitions
                try:
                    from .rules.flow import refine
                    path = self._path_from_site(refine(self, e["subject"]), site.block)
                except Exception:
                    path = None
            if path is not None:
                res.append((tuple(path), e))
        return res

    def _path_from_shared_result(self, term, site):
        path = []
        t = term
        while isinstance(t, tuple) and t and t[0] in ("variant", "field"):
            path.append((t[0], t[2]))
            t = t[1]
        if not (isinstance(t, tuple) and t and t[0] == "phi" and t[1] == site.dest_local):
            return None
        # every definition of the local is a call destination (no literal, no copy of something else)
        body = self.body
        for blk in body.reachable:
            if body.is_cleanup(blk):
                continue
            for st in body.stmts(blk):
                if st["k"] == "assign" and st["lhs"]["l"] == t[1] and not st["lhs"]["p"]:
                    return None
        if t[1] in self.T._mut_borrowed():
            return None
        return list(reversed(path))

    @staticmethod
    def _mentions_phi(t):
        n = 0
        while isinstance(t, tuple) and t and t[0] in ("field", "variant", "index") and n < 12:
            t = t[1]
            n += 1
        return isinstance(t, tuple) and bool(t) and t[0] == "phi"

    def _path_from_site(self, term, site_block):
        path = []
        t = term
        while True:
            if t[0] == "call" and t[3] == site_block:
                return list(reversed(path))
            if t[0] in ("variant", "field"):
                path.append((t[0], t[2]))
                t = t[1]
                continue
            return None

    def outcome_edges(self, site, *labels):
        return self._through_bool(self._outcome_edges(site, *labels))

    def _through_bool(self, edges):
        """`matches!(x, V)` lowers to: switch discr -> {L = true} / {L = false} -> join -> switch L.
        When every definition `L = v` is the direct, exclusive target of edges we found, the edges on
        which the outcome is known are the `v` edges of the switch on L (path-exact), not the
        discriminant edges (after which the join would re-merge both worlds)."""
        if not edges:
            return edges
        out = list(edges)
        eset = set(edges)
        for e, defs in self.bool_phi_switches:
            for v in (True, False):
                dv = [blk for blk, val in defs if val == v]
                if not dv:
                    continue
                # entry edges of every def block (looking back through empty single-predecessor hops)
                mine = []
                ok = True
                for d in dv:
                    cur = d
                    for hop in range(3):
                        ps = self.body.pred[cur]
                        if all((p, cur) in eset for p in ps) and ps:
                            mine += [(p, cur) for p in ps]
                            break
                        if len(ps) == 1 and not any(s["k"] == "assign" for s in self.body.stmts(ps[0])) and len(self.body.succs(ps[0])) == 1:
                            cur = ps[0]
                            continue
                        ok = False
                        break
                    else:
                        ok = False
                if not ok or not mine:
                    continue
                if not all(self._flows_straight_to(d, e["block"]) for d in dv):
                    continue    # an ordinary flag assigned here and tested much later
                ed = self.edge(e, v)
                if ed:
                    out = [x for x in out if x not in mine] + [ed]
        return out

    def _flows_straight_to(self, d, target):
        """block d reaches `target` through at most two unconditional, statement-free hops"""
        body = self.body
        cur = d
        for hop in range(3):
            ss = body.succs(cur)
            if len(ss) != 1:
                return False
            if ss[0] == target:
                return True
            cur = ss[0]
            if any(s["k"] == "assign" for s in body.stmts(cur)):
                return False
        return False

    def _outcome_edges(self, site, *labels):
        """CFG edges taken when the result of `site` matches the chain of variant labels, e.g.
        ('Ready',), ('Ready', 'Some'), ('Ready', 'Err'), (True,), (False,).
        Returns list of edges (a, b); empty if no such test exists."""
        pe = getattr(site, "pseudo_edges", None)
        if pe is not None:
            return list(pe.get(labels[-1], [])) if len(labels) == 1 else []
        tests = self.outcome_tests(site)
        edges = []
        want_path = []
        for i, lab in enumerate(labels[:-1]):
            want_path.append(("variant", lab))
            if True:
                want_path.append(("field", 0))
        want_path = tuple(want_path)
        last = labels[-1]
        for path, e in tests:
            if path == want_path:
                ed = self.edge(e, last)
                if ed is not None:
                    edges.append(ed)
                elif "otherwise" in e["edges"] and last in e.get("otherwise_names", []):
                    edges.append((e["block"], e["edges"]["otherwise"]))
        # predicate calls on the result: r.is_pending(), r.is_some(), ...
        if last in PREDICATES:
            for e in self.switches:
                s = e["subject"]
                if e["kind"] == "bool" and s[0] == "call" and s[2]:
                    pv = PREDICATES[last].get(s[1])
                    if pv is None:
                        continue
                    path = self._path_from_site(s[2][0], site.block)
                    if path is not None and tuple(path) == want_path:
                        ed = self.edge(e, pv)
                        if ed is not None:
                            edges.append(ed)
        return edges

    def phi_tests_fed_by_not(self, site):
        """like phi_tests_fed_by, for locals one of whose definitions is `!<result of site>`"""
        out = []
        body = self.body
        for e in self.switches:
            s = e["subject"]
            if e["kind"] == "bool" and s[0] == "phi":
                for d in body.defs.get(s[1], []):
                    if d[0] not in body.reachable or body.is_cleanup(d[0]):
                        continue
                    t = self.T._of_def(s[1], d, 1)
                    if t[0] == "unop" and t[1] == "Not" and t[2][0] == "call" and t[2][3] == site.block:
                        out.append(e)
                        break
        return out

    def phi_tests_fed_by(self, site):
        """bool switches on a multi-definition local one of whose definitions is the result of
        `site` (e.g. `let all_ready = match i { K => { ...all(..) }, .. }; if all_ready {`)."""
        out = []
        body = self.body
        for e in self.switches:
            s = e["subject"]
            if e["kind"] == "bool" and s[0] == "phi":
                for d in body.defs.get(s[1], []):
                    if d[0] not in body.reachable or body.is_cleanup(d[0]):
                        continue
                    t = self.T._of_def(s[1], d, 1)
                    if t[0] == "call" and t[3] == site.block:
                        out.append(e)
                        break
        return out

    # ------------------------------------------------------------------ path queries
    def reach_from_edges(self, edges, avoid_blocks=(), stop_blocks=(), avoid_edges=()):
        starts = [b for _, b in edges]
        # switch edges that contradict the constant every definition reachable from here gave the tested carrier local
        # (`break Some(err)` .. `if let Some(err) = failure`) are not paths
        inf = self.infeasible_from(starts, avoid_blocks=avoid_blocks, avoid_edges=avoid_edges, stop_blocks=stop_blocks) if starts else []
        if inf:
            avoid_edges = list(avoid_edges) + inf
        return self.body.reach(starts, avoid_blocks=avoid_blocks, stop_blocks=stop_blocks, avoid_edges=avoid_edges)

    def guarded_by(self, block, edges, since=None, _depth=0):
        """Every path from entry (or from block `since`'s successors) to `block` takes one of `edges`.

        Refinement through boolean locals (`let ok = matches!(..); if ok {..}`, `let all = a == b;`):
        if `block` is guarded by the `v` edge of a switch on a local all of whose definitions are
        boolean constants, and every definition site assigning `v` is itself guarded by `edges`,
        then so is `block` (the last definition executed on the path assigned `v`)."""
        body = self.body
        edges = list(edges)
        if since is None:
            r = body.reach([0], avoid_edges=edges)
        else:
            r = body.reach(body.succs(since), avoid_edges=edges)
        if block not in r:
            return True
        if since is None and edges and _depth == 0:
            # paths that avoid `edges` but would need a switch edge contradicting the carrier value every reaching
            # definition assigned on the way are not paths
            inf = self.infeasible_from([0], avoid_edges=edges)
            if inf and block not in body.reach([0], avoid_edges=edges + inf):
                return True
        if since is not None or _depth >= 2 or not edges:
            return False
        for e, defs in list(self.bool_phi_switches) + list(self.variant_phi_switches):
            for lab in ((True, False) if e["kind"] == "bool" else [l for l in e["edges"] if l != "otherwise"]):
                ed = self.edge(e, lab)
                if not ed or ed in edges:
                    continue
                mine = [b for b, v in defs if v == lab]
                if not mine:
                    continue
                if block in body.reach([0], avoid_edges=[ed]):
                    continue   # not guarded by this boolean edge
                if all(self.guarded_by(db, edges, _depth=_depth + 1) for db in mine):
                    return True
        return False

    @property
    def bool_phi_switches(self):
        """[(switch entry, [(def block, bool value)])] for switches on a local whose live definitions
        are all boolean constants."""
        c = getattr(self, "_bool_phi", None)
        if c is not None:
            return c
        out = []
        body = self.body
        for e in self.switches:
            s = e["subject"]
            if e["kind"] != "bool" or s[0] != "phi":
                continue
            defs = []
            ok = True
            for d in body.defs.get(s[1], []):
                if d[0] not in body.reachable or body.is_cleanup(d[0]):
                    continue
                if d[2] == "assign" and d[3]["k"] == "use" and "c" in d[3]["op"] and d[3]["op"]["c"].get("v") is not None:
                    defs.append((d[0], bool(int(d[3]["op"]["c"]["v"])) != e["negated"] if False else bool(int(d[3]["op"]["c"]["v"]))))
                else:
                    ok = False
            if ok and defs:
                out.append((e, defs))
        self._bool_phi = out
        return out

    @property
    def variant_phi_switches(self):
        """[(switch entry, [(def block, variant label)])] for discriminant switches on a local all of whose live
        definitions are literal enum aggregates (`let found = loop { .. break Some(x); .. break None };`) and whose
        address is never taken mutably."""
        c = getattr(self, "_variant_phi", None)
        if c is not None:
            return c
        out = []
        body = self.body
        for e in self.switches:
            s = e["subject"]
            if e["kind"] != "discr" or s[0] != "phi":
                continue
            L = s[1]
            defs = []
            ok = True
            for d in body.defs.get(L, []):
                if d[0] not in body.reachable or body.is_cleanup(d[0]):
                    continue
                if d[2] == "assign" and d[3]["k"] == "agg" and d[3].get("ak") == "adt" and d[3].get("vname"):
                    defs.append((d[0], d[3]["vname"]))
                    continue
                # `failure = Some(err)` on a local that needs dropping goes through a temporary
                t_ = self.T._of_def(L, d, 1) if d[2] == "assign" and d[3]["k"] == "use" else None
                if t_ is not None and t_[0] == "agg" and isinstance(t_[1], tuple) and len(t_[1]) == 2 and isinstance(t_[1][1], str):
                    defs.append((d[0], t_[1][1]))
                else:
                    ok = False
            if ok and defs:
                for b in body.reachable:
                    for st in body.stmts(b):
                        if st["k"] == "assign" and st["rv"]["k"] == "ref" and st["rv"].get("mut") and st["rv"]["place"]["l"] == L \
                                and "*" not in st["rv"]["place"]["p"]:
                            ok = False
            if ok and defs:
                out.append((e, defs))
        self._variant_phi = out
        return out

    def infeasible_from(self, starts, avoid_blocks=(), avoid_edges=(), stop_blocks=()):
        """Switch edges that cannot be taken on any execution starting at `starts` (within the given restrictions): for a
        switch on a constant-defined carrier local (boolean or enum), hypothesise that only its `v` edge is taken; the
        hypothesis stands if, in the graph pruned accordingly, every definition of the local that is still reachable
        assigns `v` and the switch cannot be reached without passing one of them.  (Sound by induction on the first pruned
        edge an execution would take: up to that point it stayed inside the pruned graph, so the last definition before
        the switch assigned `v`.)"""
        body = self.body
        out = []
        cands = list(self.bool_phi_switches) + list(self.variant_phi_switches)
        if not cands or not starts:
            return out
        avoid_blocks = list(avoid_blocks)
        stop_blocks = list(stop_blocks)
        R0 = body.reach(starts, avoid_blocks=avoid_blocks, avoid_edges=list(avoid_edges), stop_blocks=stop_blocks)
        for _round in range(3):
            added = False
            for e, defs in cands:
                if e["block"] not in R0:
                    continue
                if any((e["block"], tb) in out for tb in e["edges"].values() if tb is not None):
                    continue
                for v in sorted({v for b, v in defs if b in R0}, key=str):
                    hyp = [(e["block"], tb) for lab, tb in e["edges"].items()
                           if tb is not None and lab != v and (e["kind"] == "bool" or lab != "otherwise" or v in e["edges"])]
                    if not hyp or e["edges"].get(v) is None and e["kind"] != "bool":
                        continue
                    av_e = list(avoid_edges) + out + hyp
                    R = body.reach(starts, avoid_blocks=avoid_blocks, avoid_edges=av_e, stop_blocks=stop_blocks)
                    if e["block"] not in R or e["block"] in stop_blocks:
                        continue
                    inR0 = [(b, w) for b, w in defs if b in R or b in starts]
                    # reaching definitions: a definition counts only if the switch can be reached from it without passing
                    # another definition of the local (`let mut winner = None; loop { .. winner = Some(x); break; }`:
                    # every way out of the loop other than exhaustion has overwritten the initial None)
                    inR = []
                    for b_, w_ in inR0:
                        others_ = [x for x, _ in inR0 if x != b_]
                        rr = body.reach(body.succs(b_), avoid_blocks=avoid_blocks + others_, avoid_edges=av_e, stop_blocks=stop_blocks)
                        if e["block"] in rr or e["block"] == b_:
                            inR.append((b_, w_))
                    if not inR or any(w != v for b, w in inR):
                        continue
                    defblocks = [b for b, _ in inR0]
                    if e["block"] not in defblocks and e["block"] in body.reach(starts, avoid_blocks=avoid_blocks + defblocks, avoid_edges=av_e, stop_blocks=stop_blocks):
                        continue
                    out += [h for h in hyp if h not in out]
                    added = True
                    break
            if not added:
                break
        return out

    def must_reach(self, starts, goal_blocks, exit_blocks):
        """Every path from `starts` hits a goal block before any exit block: i.e. no exit block is
        reachable when goal blocks are removed.  Also returns the offending exits.  Paths through switch edges that
        contradict the constant every reaching definition gave the tested local are not paths."""
        r = self.body.reach(starts, avoid_blocks=goal_blocks, stop_blocks=exit_blocks)
        bad = [b for b in exit_blocks if b in r]
        if bad:
            inf = self.infeasible_from(starts, avoid_blocks=goal_blocks, stop_blocks=exit_blocks)
            if inf:
                r = self.body.reach(starts, avoid_blocks=goal_blocks, stop_blocks=exit_blocks, avoid_edges=inf)
                bad = [b for b in exit_blocks if b in r]
        return (not bad), bad

    def assigns_to_return(self):
        """(block, stmt idx, rvalue) for every assignment to _0."""
        out = []
        body = self.body
        for b in sorted(body.reachable):
            if body.is_cleanup(b):
                continue
            for i, s in enumerate(body.stmts(b)):
                if s["k"] == "assign" and s["lhs"]["l"] == 0 and not s["lhs"]["p"]:
                    out.append((b, i, s["rv"]))
            t = body.term(b)
            if t["k"] == "call" and t["dest"]["l"] == 0 and not t["dest"]["p"]:
                out.append((b, "term", {"k": "callresult", "site": b}))
        return out

    def describe(self, b):
        t = self.body.term(b)
        return "%s (bb%d)" % (t.get("sp", "?"), b)


def is_agg(rv, owner, vname):
    return rv.get("k") == "agg" and rv.get("ak") == "adt" and simple_name(rv.get("cpath")) == owner and rv.get("vname") == vname
