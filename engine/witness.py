"""C18 oracle: type-check the generated witness crate against /repo's current tree and attribute
every diagnostic to one witness function."""
import importlib.util
import json
import os
import shutil
import subprocess
import sys
import time

from . import facts as factsmod

VERIF = factsmod.VERIF
WDIR = os.path.join(VERIF, "witness")
TARGET = os.path.join(factsmod.CACHE, "target-witness")

FEATURES = {
    "std": [],
    "alloc": ["--no-default-features", "--features", "alloc"],
    "core": ["--no-default-features"],
    # release profile: fields / captures under #[cfg(not(debug_assertions))] take part in the auto-trait inference
    "std-rel": ["--release"],
    "alloc-rel": ["--no-default-features", "--features", "alloc", "--release"],
}


class Inconclusive(Exception):
    pass


def generate():
    spec = importlib.util.spec_from_file_location("witness_gen", os.path.join(WDIR, "gen.py"))
    mod = importlib.util.module_from_spec(spec)
    spec.loader.exec_module(mod)
    g = mod.main()
    return g.index


def _prepare(repo):
    """Materialise the witness crate for `repo` in a build directory under .cache (the committed
    crate in /verif/witness is never modified) and make sure cargo cannot replay a stale verdict."""
    import hashlib
    bdir = os.path.join(factsmod.CACHE, "witness-build-" + hashlib.sha256(repo.encode()).hexdigest()[:10])
    os.makedirs(os.path.join(bdir, "src"), exist_ok=True)
    shutil.copyfile(os.path.join(WDIR, "src", "lib.rs"), os.path.join(bdir, "src", "lib.rs"))
    ct = open(os.path.join(WDIR, "Cargo.toml")).read()
    ct = ct.replace('path = "/repo"', 'path = "%s"' % repo)
    with open(os.path.join(bdir, "Cargo.toml"), "w") as fh:
        fh.write(ct)
    lock = os.path.join(repo, "Cargo.lock")
    if os.path.exists(lock):
        shutil.copyfile(lock, os.path.join(bdir, "Cargo.lock"))
    for prof in ("debug", "release"):
        fp = os.path.join(TARGET, prof, ".fingerprint")
        if os.path.isdir(fp):
            for e in os.listdir(fp):
                if e.startswith("futures-concurrency-") or e.startswith("fc-witness-"):
                    shutil.rmtree(os.path.join(fp, e), ignore_errors=True)
    return bdir


def check(config, twins, index, repo=None):
    """Run `cargo +nightly check` on the witness crate.  Returns dict:
    errors: {witness name: [ {code, message, line} ]}, unattributed: [...], wall_s, cmd."""
    repo = repo or factsmod.REPO
    os.makedirs(factsmod.CACHE, exist_ok=True)
    import fcntl
    lk = open(os.path.join(factsmod.CACHE, "lock-witness"), "w")
    fcntl.flock(lk, fcntl.LOCK_EX)   # held until the process exits or `lk` is collected at return
    bdir = _prepare(repo)
    env = dict(os.environ, CARGO_NET_OFFLINE="true", CARGO_TARGET_DIR=TARGET)
    env.pop("RUSTC_WORKSPACE_WRAPPER", None)
    env.pop("RUSTC_WRAPPER", None)
    flags = "-Awarnings"
    if twins:
        flags += " --cfg twins"
    env["RUSTFLAGS"] = flags
    cmd = ["cargo", "+nightly", "check", "--offline", "--lib", "--message-format=json"] + FEATURES[config]
    t0 = time.time()
    r = subprocess.run(cmd, cwd=bdir, env=env, stdout=subprocess.PIPE, stderr=subprocess.PIPE, text=True)
    wall = time.time() - t0
    by_line = []
    for w in index:
        by_line.append((w["lines"][0], w["lines"][1], w["name"]))
    errors = {}
    unattributed = []
    dep_errors = []
    saw_witness_artifact = False
    for line in r.stdout.splitlines():
        try:
            m = json.loads(line)
        except ValueError:
            continue
        if m.get("reason") == "compiler-artifact" and m.get("target", {}).get("name") in ("fc_witness", "fc-witness"):
            saw_witness_artifact = True
        if m.get("reason") != "compiler-message":
            continue
        msg = m["message"]
        if msg.get("level") not in ("error", "error: internal compiler error"):
            continue
        tname = m.get("target", {}).get("name", "")
        if tname not in ("fc_witness", "fc-witness"):
            dep_errors.append("%s: %s" % (tname, msg.get("message")))
            continue
        code = (msg.get("code") or {}).get("code")
        if code is None and msg.get("message", "").startswith("aborting due to"):
            continue
        ln = None
        for sp in msg.get("spans", []):
            if sp.get("is_primary") and sp.get("file_name", "").endswith("lib.rs"):
                ln = sp["line_start"]
        if ln is None:
            for sp in msg.get("spans", []):
                if sp.get("file_name", "").endswith("src/lib.rs") and "witness" not in sp.get("file_name", "x"):
                    pass
            # primary span inside the dependency (e.g. an async fn body): look through expansion / secondary spans
            for sp in msg.get("spans", []):
                if sp.get("file_name", "") == "src/lib.rs":
                    ln = sp["line_start"]
        name = None
        if ln is not None:
            for a, b, n in by_line:
                if a <= ln <= b:
                    name = n
        chain = [c.get("message", "") for c in msg.get("children", []) if c.get("level") in ("note", "help")][:12]
        ent = {"code": code, "message": msg.get("message"), "line": ln, "because": chain}
        if name is None:
            unattributed.append(ent)
        else:
            errors.setdefault(name, []).append(ent)
    if dep_errors:
        raise Inconclusive("the crate under test does not build in config %s: %s" % (config, "; ".join(dep_errors[:3])))
    if r.returncode != 0 and not errors and not unattributed:
        raise Inconclusive("cargo check of the witness crate failed without diagnostics (config %s):\n%s" % (config, r.stderr[-3000:]))
    if r.returncode == 0 and not saw_witness_artifact:
        raise Inconclusive("witness crate was not type-checked in this run (stale cargo cache?)")
    return {"errors": errors, "unattributed": unattributed, "wall_s": round(wall, 2), "cmd": " ".join(cmd) + "  [RUSTFLAGS=%s]" % flags,
            "returncode": r.returncode}


def active(w, config):
    """Is witness `w` compiled in `config`?"""
    if w.get("cfg") and "alloc" in w["cfg"]:
        return config.split("-")[0] in ("std", "alloc")
    return True


if __name__ == "__main__":
    if "--prewarm" in sys.argv:
        idx = generate()
        try:
            for c in ("std",):
                res = check(c, False, idx)
                print("witness prewarm", c, "errors:", len(res["errors"]), "wall", res["wall_s"])
        except Inconclusive as e:
            print("witness prewarm inconclusive:", e)
