"""Rule bookkeeping: instances, violations (line-free keys), floors, evidence."""
import json
import os
import time

from . import facts as factsmod
from .model import Model

VERIF = factsmod.VERIF


class Inconclusive(Exception):
    pass


class Violation:
    def __init__(self, prop, rule, where, detail, site=None, config=None, path=None):
        self.prop = prop
        self.rule = rule
        self.where = where      # def path of the body (no line numbers)
        self.detail = detail    # instance description (no line numbers)
        self.site = site        # file:line (reporting only)
        self.config = config
        self.path = path

    @property
    def key(self):
        return "%s | %s | %s" % (self.rule, self.where, self.detail)

    def to_json(self):
        return {"property": self.prop, "rule": self.rule, "where": self.where, "detail": self.detail,
                "site": self.site, "config": self.config, "path": self.path, "key": self.key}


class Ctx:
    """Per-run context shared by the rules of one property."""

    def __init__(self, prop, tier, configs):
        self.prop = prop
        self.tier = tier
        self.configs = configs
        self._models = {}
        self.fact_info = {}
        self.instances = []      # (rule, config, where, detail, nontrivial)
        self.violations = []
        self.notes = []
        self.rule_texts = {}
        self.counts = {}
        self.t0 = time.time()
        self.current_config = None
        self._rename = {}

    def model(self, config):
        m = self._models.get(config)
        if m is None:
            try:
                f, info = factsmod.extract(config)
            except factsmod.Inconclusive as e:
                raise Inconclusive(str(e))
            from . import inline, fieldnames, fnnames, adtnames, assertelide
            el = assertelide.elide(f)
            if el:
                info = dict(info, elided_pure_const_regions=el)
            aren = adtnames.canonicalise(f)
            if aren:
                info = dict(info, adt_renames=aren)
            ren = fieldnames.canonicalise(f)
            if ren:
                info = dict(info, field_renames=ren)
            fren = fnnames.canonicalise(f)
            if fren:
                info = dict(info, fn_renames=fren)
            inl = inline.inline_helpers(f)
            if inl:
                info = dict(info, inlined_helpers=inl)
            from . import idioms
            idm = idioms.canonicalise(f)
            if idm:
                info = dict(info, idioms_canonicalised=idm)
            from . import webs, mirrors, copysync
            rw, fd = copysync.run(f)
            info = dict(info, deferred_copies_rewritten=rw, deferred_copy_findings=fd)
            info = dict(info, mirror_locals=mirrors.fold_mirrors(f))
            info = dict(info, web_splits=webs.split_webs(f))
            self.fact_info[config] = info
            m = Model(f)
            self._models[config] = m
        return m

    # ------------------------------------------------------------------ recording
    def rule(self, rid, text):
        self.rule_texts[rid] = text

    def renamed(self, mapping):
        """context manager: rule ids emitted by a rule function shared with another property are
        recorded under this property's ids."""
        ctx = self

        class _R:
            def __enter__(self_):
                self_.old = dict(ctx._rename)
                ctx._rename.update(mapping)

            def __exit__(self_, *a):
                ctx._rename = self_.old
        return _R()

    def _map1(self, rule):
        r = self._rename.get(rule)
        if r is not None:
            return r
        for k, v in self._rename.items():
            if k.endswith("*") and rule.startswith(k[:-1]):
                return v
        return rule

    def _map(self, rule):
        # nested shared rule functions: apply the renames transitively, but only across properties
        for _ in range(4):
            r = self._map1(rule)
            if r == rule or r[:3] == self.prop[:3] and rule[:3] == self.prop[:3]:
                return r if r[:3] == self.prop[:3] else rule
            rule = r
        return rule

    def ok(self, rule, where, detail, nontrivial=True, sample=None):
        rule = self._map(rule)
        self.instances.append((rule, self.current_config, where, detail, nontrivial, sample))
        k = (rule, self.current_config)
        self.counts[k] = self.counts.get(k, 0) + 1

    def fail(self, rule, where, detail, site=None, path=None):
        rule = self._map(rule)
        v = Violation(self.prop, rule, where, detail, site=site, config=self.current_config, path=path)
        # the same line-free key may be hit in several configs: keep one per (key, config)
        self.violations.append(v)
        self.instances.append((rule, self.current_config, where, "VIOLATED: " + detail, True, None))
        k = (rule, self.current_config)
        self.counts[k] = self.counts.get(k, 0) + 1

    def check(self, cond, rule, where, detail, site=None, path=None, sample=None):
        if cond:
            self.ok(rule, where, detail, sample=sample)
        else:
            self.fail(rule, where, detail, site=site, path=path)
        return cond

    def note(self, s):
        self.notes.append(s)

    def floor(self, rule, config, minimum):
        rule = self._map(rule)
        n = self.counts.get((rule, config), 0)
        if n < minimum:
            raise Inconclusive("floor not met: rule %s config %s evaluated %d instances, expected >= %d" % (rule, config, n, minimum))

    def require(self, cond, what):
        if not cond:
            raise Inconclusive("anchor missing: " + what)


def report_copy_sync(ctx):
    """Generic rule <PROP>.SYNC: a state field of a body anchored in this property that is updated on a local working
    copy must be stored back before every return and before any child is polled (see engine/copysync.py)."""
    import json as _json
    anchors = set()
    try:
        for line in open(os.path.join(VERIF, "properties.jsonl")):
            d = _json.loads(line)
            if d["id"] == ctx.prop:
                anchors = set(d.get("anchors", {}).get("files", []))
    except OSError:
        pass
    rid = ctx.prop + ".SYNC"
    ctx.rule(rid, "a state field updated through a local working copy is stored back on every path to a return and before any child poll")
    for cfg, m in sorted(ctx._models.items()):
        ctx.current_config = cfg
        n = 0
        for b in m.F.bodies:
            fs = b.j.get("copy_sync")
            if not fs:
                continue
            file_ = (b.span or "").split(":")[0]
            if file_ not in anchors:
                continue
            for f_ in fs:
                n += 1
                what = "returns" if "return" in f_["kinds"] else "polls a child"
                ctx.fail(rid, b.def_, "`%s` (working copy of %s) is modified and the body %s before it is stored back" % (f_["local"], f_["place"], what),
                         site=(f_["at"] or [b.span])[0], path=["modified at %s" % x for x in f_.get("modified_at", [])])
        ctx.ok(rid, "<crate>", "no dirty working copy of a state field reaches a return or a child poll (%s)" % cfg, nontrivial=False)


def load_known_findings():
    p = os.path.join(VERIF, "known_findings.json")
    if not os.path.exists(p):
        return {"findings": [], "fixed": []}
    with open(p) as fh:
        return json.load(fh)


def evidence_dir():
    """/verif/evidence for runs against /repo itself; a scratch directory for runs against any other
    tree (seeded changes, mutants), so that committed evidence always describes /repo."""
    d = os.environ.get("VERIF_EVIDENCE_DIR")
    if not d:
        d = os.path.join(VERIF, "evidence") if os.path.realpath(factsmod.REPO) == "/repo" else "/tmp/verif-scratch-evidence"
    os.makedirs(d, exist_ok=True)
    return d


def write_evidence(prop, tier, level, ctx, violations_unlisted, known_hits, wall, explanation, assumptions, extra=None):
    inst = ctx.instances
    distinct = set()
    for rule, cfg, where, detail, nontrivial, sample in inst:
        if nontrivial:
            distinct.add((rule, cfg, where, detail))
    samples = []
    seen_rules = set()
    for rule, cfg, where, detail, nontrivial, sample in inst:
        if rule not in seen_rules:
            seen_rules.add(rule)
            samples.append({"rule": rule, "config": cfg, "body": where, "instance": detail, "evidence": sample})
    per_rule = {}
    for (rule, cfg), n in sorted(ctx.counts.items()):
        per_rule.setdefault(rule, {})[cfg] = n
    cov = {
        "evaluations": len(inst),
        "distinct_nontrivial": len(distinct),
        "rule": "one evaluation = one rule instance (rule x configuration x MIR body x site/arm/index) decided on the "
                "MIR of /repo's current tree; non-trivial = the rule's premise matched at least one site/path in that body; "
                "distinct = distinct (rule, config, body, instance) tuples",
        "samples": samples[:40],
        "explanation": explanation,
        "per_rule_instances": per_rule,
        "rules": ctx.rule_texts,
        "configs": ctx.configs,
        "facts": ctx.fact_info,
        "known_findings_hit": known_hits,
        "notes": ctx.notes[:50],
        "exhaustive": True,
    }
    if extra:
        cov.update(extra)
    ev = {
        "property_id": prop,
        "tier": tier,
        "seed": int(os.environ.get("VERIF_SEED", "0") or 0),
        "level": level,
        "coverage": cov,
        "assumptions": assumptions,
        "wall_s": round(wall, 2),
        "violations": len(violations_unlisted),
    }
    p = os.path.join(evidence_dir(), prop + ".json")
    tmp = p + ".tmp"
    with open(tmp, "w") as fh:
        json.dump(ev, fh, indent=1)
    os.replace(tmp, p)
    return p
