#!/bin/sh
# tryp.sh <patch> <prop>... : apply a patch to a private scratch worktree of /repo and run the given checks against it
# (prints one line per distinct rule|detail with the number of bodies it fired in)
SCR=${TRYP_SCRATCH:-/tmp/tryp-repo}
[ -d $SCR ] || git -C /repo worktree add -q --detach $SCR HEAD
git -C $SCR checkout -q -- . ; git -C $SCR apply "$1" || exit 9
shift
for p in "$@"; do
  VERIF_REPO=$SCR /verif/check $p 2>&1 | grep -v "^WARN" | python3 -c "
import sys,re,collections
c=collections.Counter(); first={}
for l in sys.stdin:
    l=l.rstrip()
    if ' | ' in l and '] ' in l:
        parts=l.split('] ',1)[1].split(' | ')
        k=(parts[0], re.sub(r'child(#\d+|\[[^\]]*\])','child',parts[-1])[:150])
        c[k]+=1; first.setdefault(k,parts[1][:90])
    elif l.startswith(('INCONCLUSIVE','C')) and 'tier=' in l or l.startswith('INCONCLUSIVE'):
        print(l[:230])
for k,n in c.items(): print('   %-13s x%-3d %s   [%s]'%(k[0],n,k[1],first[k]))
"
done
git -C $SCR checkout -q -- .
