#!/bin/sh
# tryp.sh <patch> <prop>... : apply a patch to a private scratch worktree of /repo and run the given checks against it
SCR=/tmp/tryp-repo
[ -d $SCR ] || git -C /repo worktree add -q --detach $SCR HEAD
git -C $SCR checkout -q -- . ; git -C $SCR apply "$1" || exit 9
shift
for p in "$@"; do VERIF_REPO=$SCR /verif/check $p 2>&1 | grep -v "^WARN" | grep -v "^  C[0-9][0-9]\.[A-Z0-9]* *[a-z]* *[0-9]*$" | cut -c1-400; done
git -C $SCR checkout -q -- .
