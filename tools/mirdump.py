#!/usr/bin/env python3
"""Pretty-print MIR bodies from the fact cache: mirdump.py <config> <substring of def path> [--all]"""
import sys, os
sys.path.insert(0, os.path.join(os.path.dirname(os.path.abspath(__file__)), ".."))
from engine import facts, mir
cfg = sys.argv[1]
pat = sys.argv[2]
f, _ = facts.extract(cfg)
F = mir.Facts(f)
for b in F.bodies:
    if pat in b.def_:
        if "--list" in sys.argv:
            print(b.def_, b.kind, b.span, b.n)
        else:
            print(b.dump(only_reachable="--all" not in sys.argv))
            print()
