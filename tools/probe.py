#!/usr/bin/env python3
"""probe.py <config> <def substring>: print sites/terms/switches of matching bodies (debug aid)."""
import sys, os
sys.path.insert(0, os.path.join(os.path.dirname(os.path.abspath(__file__)), ".."))
from engine import facts
from engine.model import Model
from engine.terms import term_str
from engine import scan
cfg, pat = sys.argv[1], sys.argv[2]
f, _ = facts.extract(cfg)
M = Model(f)
for b in M.F.bodies:
    if pat in b.def_ and (len(sys.argv) < 4 or b.def_.endswith(sys.argv[3])):
        bi = M.info(b)
        print("==", b.def_, b.span)
        for s in bi.sites:
            print("  site bb%d %s::%s(%s)  local=%s" % (s.block, s.key[0], s.key[1], ", ".join(term_str(a, 5) for a in s.args), s.callee.local))
        for e in bi.switches:
            print("  switch bb%d %s %s edges=%s" % (e["block"], e["kind"], term_str(e["subject"], 5), e["edges"]))
        for blk, i, rv in bi.assigns_to_return():
            t = bi.T.of_rvalue(rv, 0) if rv.get("k") != "callresult" else ("callresult", blk)
            print("  ret bb%d %s" % (blk, term_str(t, 7) if t[0] != "callresult" else t))
        for w in scan.field_writes(bi):
            print("  write bb%d %s := %s" % (w[0], term_str(w[1], 5), term_str(w[2], 5)))
