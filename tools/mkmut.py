#!/usr/bin/env python3
"""mkmut.py <prop>/<name> <file> <python-regex> <replacement> [count]  -- create a mutant diff from a regex edit of /repo/<file>.
Extra header lines: --expect RULE (checker rule expected to fire) or --benign."""
import re, subprocess, sys, os
args = sys.argv[1:]
expect = None
benign = False
if "--expect" in args:
    i = args.index("--expect"); expect = args[i+1]; del args[i:i+2]
if "--benign" in args:
    args.remove("--benign"); benign = True
name, f, pat, rep = args[:4]
count = int(args[4]) if len(args) > 4 else 1
p = os.path.join("/repo", f)
src = open(p).read()
new, n = re.subn(pat, rep, src, count=count, flags=re.S)
if n == 0:
    print("pattern not found"); sys.exit(1)
open(p, "w").write(new)
d = subprocess.check_output(["git", "-C", "/repo", "diff"], text=True)
subprocess.check_call(["git", "-C", "/repo", "checkout", "--", "."])
out = os.path.join("/verif/mutants", name + ".diff")
os.makedirs(os.path.dirname(out), exist_ok=True)
with open(out, "w") as fh:
    fh.write("# %s\n" % ("benign" if benign else "expect: %s" % expect))
    fh.write(d)
print("wrote", out, "(%d replacement)" % n)
