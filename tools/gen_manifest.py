#!/usr/bin/env python3
"""Regenerate /verif/MANIFEST.json from the rule modules (keeps it in sync with what is built)."""
import importlib, json, os, re, sys
HERE = os.path.dirname(os.path.dirname(os.path.abspath(__file__)))
sys.path.insert(0, HERE)
props = [json.loads(l) for l in open(os.path.join(HERE, "properties.jsonl"))]
checks = []
na = []
NA_REASONS = {}
nap = os.path.join(HERE, "not_applicable.json")
if os.path.exists(nap):
    NA_REASONS = json.load(open(nap))
for p in props:
    pid = p["id"]
    modp = os.path.join(HERE, "engine", "rules", pid.lower() + ".py")
    if not os.path.exists(modp) or pid in NA_REASONS:
        na.append({"property_id": pid, "reason": NA_REASONS.get(pid, "no static check registered for this property in this revision")})
        continue
    m = importlib.import_module("engine.rules." + pid.lower())
    checks.append({
        "property_id": pid,
        "quick_cmd": "./check %s --tier quick" % pid,
        "thorough_cmd": "./check %s --tier thorough" % pid,
        "evidence_file": "/verif/evidence/%s.json" % pid,
        "replay_cmd_template": "./check --replay {path}",
        "engine": getattr(m, "ENGINE", "mirfacts+rules"),
        "level_claimed": {
            "category": m.LEVEL,
            "text": getattr(m, "LEVEL_TEXT", m.EXPLANATION),
            "design_ref": "DESIGN.md §3/" + pid,
        },
        "level_note": "; ".join(m.ASSUMPTIONS),
        "technique": getattr(m, "TECHNIQUE", "static analysis of rustc MIR (rustc_private driver): dominance / must-pass-through / typestate / who-may-call rules"),
    })
manifest = {
    "version": 1,
    "setup_cmd": "./setup.sh",
    "hooks": {
        "guard": "futures_concurrency_verif (unused: the static checks read the unmodified build; no hooks are compiled into /repo)",
        "enable": "none needed — checks run `cargo +nightly check --lib` on /repo's working tree through the mirfacts RUSTC_WORKSPACE_WRAPPER",
        "baseline_off_cmd": "cd /repo && (cargo nextest run --workspace --no-fail-fast --offline || cargo test --workspace --no-fail-fast --offline)",
        "source_commits": [],
        "add_only": True,
    },
    "engines": [
        {"name": "mirfacts", "path": "driver/", "serves_properties": [c["property_id"] for c in checks if c["property_id"] != "C18"],
         "kind_free_text": "rustc_private driver dumping pre-borrowck MIR, types, ADTs and impl tables of /repo (std / alloc / core feature sets, each in the dev and in the release profile) as JSON facts"},
        {"name": "rules", "path": "engine/", "serves_properties": [c["property_id"] for c in checks],
         "kind_free_text": "Python rule engine over the MIR facts: CFG reachability with avoid-sets (dominance, must-pass-through, must-reach), value-origin terms, tuple-arm path sensitivity, maybe-init dataflow, path summaries of primitives, who-may-call audits"},
        {"name": "witness", "path": "witness/", "serves_properties": ["C18"],
         "kind_free_text": "type-level witness crate (assert_send/assert_sync obligations, compile-fail twins) decided by rustc's trait solver"},
    ],
    "checks": checks,
    "not_applicable": na,
    "notes": "Static analysis only. Two genuine defects were repaired in /repo with unguarded fix: commits (7bd12ae merge of zero streams, fbb068f take(0)); see known_findings.json. Every rule runs on the dev-profile and on the release-profile MIR (code under cfg(debug_assertions) differs between them and the pinned tests only build dev). Exit codes: 0 pass, 1 VIOLATION, 2 inconclusive (build failure / floor not met / anchor missing / protocol steps inside a closure).",
}
with open(os.path.join(HERE, "MANIFEST.json"), "w") as fh:
    json.dump(manifest, fh, indent=1)
print("checks:", [c["property_id"] for c in checks], "n/a:", [x["property_id"] for x in na])
