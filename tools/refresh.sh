#!/bin/sh
# Re-run every registered quick check against /repo itself (rewrites evidence/*.json) and validate the manifest + evidence.
cd "$(dirname "$0")/.."
git -C /repo diff --quiet || { echo "refusing: /repo has local changes"; exit 2; }
rc=0
for p in $(python3 -c "import json;print(' '.join(c['property_id'] for c in json.load(open('MANIFEST.json'))['checks']))"); do
  ./check $p --tier ${1:-quick} | head -1 || rc=1
done
python3-vt tools/validate.py | grep -v "^valid" ; exit $rc
