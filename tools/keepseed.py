#!/usr/bin/env python3
"""keepseed.py <src dir>... : file a confirmed seeded change under /verif/seeded/<name>/ (patch.diff, demo.rs, meta.json).
meta.json = the author's description (property, summary, needs) + what was run here to confirm it (confirm.json of seedconfirm.py)."""
import json, os, shutil, sys
for src in sys.argv[1:]:
    src = src.rstrip("/")
    name = os.path.basename(src)
    c = json.load(open(os.path.join(src, "confirm.json")))
    if not c.get("confirmed"):
        print("NOT CONFIRMED, skipped:", src); continue
    try:
        a = json.load(open(os.path.join(src, "meta.json")))
    except Exception:
        a = {}
    dst = os.path.join("/verif/seeded", name)
    os.makedirs(dst, exist_ok=True)
    shutil.copy(os.path.join(src, "patch.diff"), os.path.join(dst, "patch.diff"))
    shutil.copy(os.path.join(src, "demo.rs"), os.path.join(dst, "demo.rs"))
    old = {}
    if os.path.exists(os.path.join(dst, "meta.json")):
        old = json.load(open(os.path.join(dst, "meta.json")))
    meta = {
        "id": name,
        "property": a.get("property", name.split("-")[0]),
        "breaks": a.get("summary", ""),
        "needs_to_manifest": a.get("needs", ""),
        "files_changed": a.get("files", []),
        "origin": "written by an independent sub-agent that was given only the property text and a scratch worktree (nothing from /verif)",
        "confirmed_here": {
            "repo_head": c.get("head"),
            "ran": [
                "git apply patch.diff (scratch worktree of /repo)",
                "cargo test --workspace --offline --lib --tests  -> exit %s, %s tests passed" % (c["suite_with_patch"]["exit"], c.get("suite_passed")),
                "cp demo.rs tests/seed_demo.rs; cargo test --offline --test seed_demo  -> exit %s (must fail)" % c["demo_with_patch"]["exit"],
                "git checkout -- . ; cargo test --offline --test seed_demo  -> exit %s (must pass)" % c["demo_without_patch"]["exit"],
                "cargo check --offline --lib --no-default-features [--features alloc] with the patch -> %s" % c.get("builds"),
            ],
            "demo_failure_with_patch": c["demo_with_patch"]["summary"][:6],
        },
        "caught_by": old.get("caught_by", {}),
    }
    json.dump(meta, open(os.path.join(dst, "meta.json"), "w"), indent=1)
    print("kept", dst)
