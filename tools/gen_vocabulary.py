#!/usr/bin/env python3
"""gen_vocabulary.py : (re)generate engine/vocabulary.json = the crate-local functions of the pinned tree (all three configs).
Run only on the unchanged tree; the file is the rules' role vocabulary (functions never inlined, see engine/inline.py)."""
import json, os, subprocess, sys
sys.path.insert(0, os.path.join(os.path.dirname(os.path.abspath(__file__)), ".."))
from engine import facts
fs = set()
adts = {}
shapes = {}
sigs = {}
for cfg in ("std", "alloc", "core"):
    f, _ = facts.extract(cfg)
    for b in f["bodies"]:
        if b["kind"] in ("Fn", "AssocFn"):
            fs.add(b["def"])
            try:
                sigs.setdefault(b["def"], [f["types"][b["locals"][i]["ty"]]["s"] for i in range(0, b["argc"] + 1)])
            except (IndexError, KeyError):
                pass
    for a in f["adts"]:
        shapes.setdefault(a["cpath"], [[f["types"][x["ty"]]["s"] for x in v["fields"]] for v in a.get("variants", [])])
        if len(a.get("variants", [])) == 1 and a["variants"][0]["fields"]:
            adts.setdefault(a["cpath"], [[x["name"], f["types"][x["ty"]]["s"]] for x in a["variants"][0]["fields"]])
head = subprocess.check_output(["git", "-C", facts.REPO, "rev-parse", "HEAD"], text=True).strip()
out = os.path.join(os.path.dirname(os.path.abspath(__file__)), "..", "engine", "vocabulary.json")
json.dump({"_comment": "crate-local functions of the pinned tree; calls to any other crate-local sync function are inlined before analysis",
           "repo_head": head, "functions": sorted(fs), "adts": adts, "adt_shapes": shapes, "signatures": sigs}, open(out, "w"), indent=0)
print(len(fs), "functions")
