#!/usr/bin/env python3
"""mm.py <prop>/<name> (--expect RULE | --benign) <<JSON   -- create a mutant diff from literal edits.
stdin: JSON list of [file, old, new] (literal, must match exactly once unless a 4th element gives the count)."""
import json, os, subprocess, sys
args = sys.argv[1:]
name = args[0]
benign = "--benign" in args
expect = args[args.index("--expect") + 1] if "--expect" in args else None
edits = json.load(sys.stdin)
clean = subprocess.check_output(["git", "-C", "/repo", "status", "--porcelain", "--untracked-files=no"], text=True).strip()
if clean:
    print("refusing: /repo has local changes"); sys.exit(2)
try:
    for e in edits:
        f, old, new = e[:3]
        cnt = e[3] if len(e) > 3 else 1
        p = os.path.join("/repo", f)
        s = open(p).read()
        if s.count(old) < 1 or (cnt == 1 and s.count(old) != 1):
            print("edit does not match exactly once in %s (%d matches): %r" % (f, s.count(old), old[:60])); sys.exit(1)
        s = s.replace(old, new, cnt if cnt > 0 else -1)
        open(p, "w").write(s)
    d = subprocess.check_output(["git", "-C", "/repo", "diff"], text=True)
    if "--build" in args:
        r = subprocess.run(["cargo", "check", "--offline", "--lib"], cwd="/repo", capture_output=True, text=True)
        print("build:", "ok" if r.returncode == 0 else r.stderr[-1500:])
        if r.returncode != 0:
            sys.exit(1)
finally:
    subprocess.check_call(["git", "-C", "/repo", "checkout", "--", "."])
out = os.path.join("/verif/mutants", name + ".diff")
os.makedirs(os.path.dirname(out), exist_ok=True)
with open(out, "w") as fh:
    fh.write("# %s\n" % ("benign" if benign else "expect: %s" % expect))
    fh.write(d)
print("wrote", out)
