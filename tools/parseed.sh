#!/bin/sh
# parseed.sh <N workers> <seedtest args...> -- <seed dirs...>
#   runs tools/seedtest.py over the given seed directories in N parallel workers, each with its own scratch worktree of
#   /repo and its own fact cache / cargo target directory (VERIF_CACHE), so that the workers do not queue on the extraction
#   lock.  Output: /tmp/parseed-<pid>/worker-<k>.log ; prints the summary lines at the end.
#   e.g.  tools/parseed.sh 6 --own -- /verif/seeded/*        tools/parseed.sh 4 --benign -- /tmp/benign/p/*
n=$1; shift
opts=""
while [ "$1" != "--" ] && [ $# -gt 0 ]; do opts="$opts $1"; shift; done
shift
out=/tmp/parseed-$$; mkdir -p $out
i=0
for d in "$@"; do [ -f "$d/patch.diff" ] && echo "$d" >> $out/list.$((i % n)); i=$((i + 1)); done
for k in $(seq 0 $((n - 1))); do
  [ -f $out/list.$k ] || continue
  args=""; for d in $(cat $out/list.$k); do args="$args --dir $d"; done
  ( cd /verif && VERIF_CACHE=$out/cache-$k SEEDTEST_SCRATCH=$out/wt-$k python3 tools/seedtest.py $opts $args > $out/worker-$k.log 2>&1
    git -C /repo worktree remove --force $out/wt-$k 2>/dev/null; rm -rf $out/cache-$k ) &
done
wait
grep -h -v "^        " $out/worker-*.log | sort
echo "logs: $out"
