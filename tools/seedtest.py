#!/usr/bin/env python3
"""seedtest.py [--dir D]... [--props C01,C02] [--own]  : run the registered checks against each seeded patch.

For every <dir>/patch*.diff (default: /verif/seeded/*/patch.diff and /tmp/seed/out/*/patch*.diff) the patch is applied
to a scratch worktree of /repo (never to /repo itself), every selected check is run with VERIF_REPO pointing at the
scratch tree, and the rules that fired are listed.  --own runs only the check of the property the seed is filed under."""
import glob, json, os, re, subprocess, sys
args = [a for a in sys.argv[1:] if a != "--benign"]
dirs = []
while "--dir" in args:
    i = args.index("--dir"); dirs.append(args[i + 1]); del args[i:i + 2]
props = None
if "--props" in args:
    i = args.index("--props"); props = args[i + 1].split(","); del args[i:i + 2]
own = "--own" in args
SCR = os.environ.get("SEEDTEST_SCRATCH", "/tmp/seedtest-repo")
if not os.path.isdir(SCR):
    subprocess.check_call(["git", "-C", "/repo", "worktree", "add", "-q", "--detach", SCR, "HEAD"])
man = json.load(open("/verif/MANIFEST.json"))
allp = [c["property_id"] for c in man["checks"]]
patches = []
if dirs:
    for d in dirs:
        patches += sorted(glob.glob(os.path.join(d, "patch*.diff")))
else:
    patches = sorted(glob.glob("/verif/seeded/*/patch.diff")) + sorted(glob.glob("/tmp/seed/out/*/patch*.diff"))
results = {}
for p in patches:
    subprocess.check_call(["git", "-C", SCR, "checkout", "-q", "--", "."])
    r = subprocess.run(["git", "-C", SCR, "apply", p], capture_output=True, text=True)
    if r.returncode != 0:
        print("SKIP (does not apply): %s %s" % (p, r.stderr.strip()[:200])); continue
    m = re.search(r"(C\d\d)", p)
    seed_prop = m.group(1) if m else None
    run = props or ([seed_prop] if own and seed_prop in allp else allp)
    fired = {}
    env = dict(os.environ, VERIF_REPO=SCR)
    # extract the facts of the patched tree once (three configurations in parallel), then run the checks in a pool
    pre = [subprocess.Popen([sys.executable, "-m", "engine.facts", cfg], cwd="/verif", env=env, stdout=subprocess.DEVNULL, stderr=subprocess.DEVNULL)
           for cfg in ("std", "alloc", "core", "std-rel")]
    for q in pre:
        q.wait()

    def one(pr):
        c = subprocess.run(["/verif/check", pr], capture_output=True, text=True, cwd="/verif", env=dict(env, VERIF_EVIDENCE_DIR="/tmp/seedtest-evidence"))
        keys = [l.strip() for l in c.stdout.splitlines() if " | " in l and "] " in l]
        rules = sorted({l.split("] ")[1].split(" | ")[0] for l in keys})
        return pr, c.returncode, rules, keys, c.stdout

    from concurrent.futures import ThreadPoolExecutor
    with ThreadPoolExecutor(max_workers=8) as ex:
        for pr, rc, rules, keys, out in ex.map(one, run):
            if rc != 0:
                fired[pr] = {"exit": rc, "rules": rules, "first": keys[:2] or out.strip().splitlines()[-2:]}
    own_hit = seed_prop in fired and fired[seed_prop]["exit"] == 1
    any_hit = any(v["exit"] == 1 for v in fired.values())
    if "--benign" in sys.argv:
        inc = any(v["exit"] not in (0, 1) for v in fired.values())
        print("%s %-40s %s" % ("FALSE-ALARM" if any_hit else ("INCONCLUSIVE" if inc else "silent"), p.replace("/tmp/benign/out/", ""),
                               "; ".join("%s:%s%s" % (k, ",".join(v["rules"]), "" if v["exit"] == 1 else "(exit %d)" % v["exit"]) for k, v in sorted(fired.items()))))
        for k, v in sorted(fired.items()):
            for l in v["first"][:3]:
                print("        %s" % l[:300])
        sys.stdout.flush()
        results[p] = fired
        continue
    print("%s %-40s own=%s any=%s  %s" % ("CAUGHT" if any_hit else "MISSED", p.replace("/tmp/seed/out/", "").replace("/verif/seeded/", "seeded:"), own_hit, any_hit,
                                     "; ".join("%s:%s%s" % (k, ",".join(v["rules"]), "" if v["exit"] == 1 else "(exit %d)" % v["exit"]) for k, v in sorted(fired.items()))))
    for k, v in sorted(fired.items()):
        for l in v["first"][:1]:
            print("        %s" % l[:260])
    sys.stdout.flush()
    results[p] = fired
    mp = os.path.join(os.path.dirname(p), "meta.json")
    if p.startswith("/verif/seeded/") and os.path.exists(mp) and not props:
        m_ = json.load(open(mp))
        m_["caught_by"] = {k: v["rules"] for k, v in sorted(fired.items()) if v["exit"] == 1}
        m_["checks_run"] = run
        m_["inconclusive"] = sorted(k for k, v in fired.items() if v["exit"] not in (0, 1))
        json.dump(m_, open(mp, "w"), indent=1)
subprocess.check_call(["git", "-C", SCR, "checkout", "-q", "--", "."])
json.dump(results, open("/tmp/seedtest-last.json", "w"), indent=1)
