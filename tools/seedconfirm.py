#!/usr/bin/env python3
"""seedconfirm.py <seed dir>... : confirm a seeded change independently in a scratch worktree of /repo:
  1. patch applies, crate builds, the pinned test suite (lib + tests/) passes with the patch;
  2. the demonstration (demo.rs -> tests/seed_demo.rs) FAILS with the patch;
  3. the demonstration PASSES without the patch.
Writes confirm.json into the seed dir.  The scratch worktree (/tmp/seedconfirm-wt) is reused and left clean."""
import json, os, re, subprocess, sys, shutil, time
WT = os.environ.get("SEEDCONFIRM_WT", "/tmp/seedconfirm-wt")
if not os.path.isdir(WT):
    subprocess.check_call(["git", "-C", "/repo", "worktree", "add", "-q", "--detach", WT, "HEAD"])
env = dict(os.environ, CARGO_NET_OFFLINE="true")

def run(cmd, timeout=900):
    t0 = time.time()
    try:
        r = subprocess.run(cmd, cwd=WT, env=env, capture_output=True, text=True, timeout=timeout)
        return r.returncode, (r.stdout + r.stderr)[-6000:], round(time.time() - t0, 1)
    except subprocess.TimeoutExpired as e:
        return 124, "TIMEOUT", round(time.time() - t0, 1)

def clean():
    subprocess.check_call(["git", "-C", WT, "checkout", "-q", "--", "."])
    subprocess.check_call(["git", "-C", WT, "clean", "-fdq", "-e", "target"])

def summary(out):
    return [l.strip() for l in out.splitlines() if l.startswith("test result") or "FAILED" in l or "panicked" in l][:12]

for d in sys.argv[1:]:
    d = d.rstrip("/")
    res = {"seed": d, "head": subprocess.check_output(["git", "-C", WT, "rev-parse", "HEAD"], text=True).strip()}
    clean()
    patch = os.path.join(d, "patch.diff")
    r = subprocess.run(["git", "-C", WT, "apply", patch], capture_output=True, text=True)
    res["applies"] = r.returncode == 0
    if r.returncode != 0:
        res["error"] = r.stderr[-500:]
        print(d, "DOES NOT APPLY"); json.dump(res, open(os.path.join(d, "confirm.json"), "w"), indent=1); continue
    rc, out, t = run(["cargo", "test", "--workspace", "--offline", "--lib", "--tests"])
    res["suite_with_patch"] = {"exit": rc, "summary": summary(out), "s": t}
    npass = sum(int(x) for x in re.findall(r"test result: ok\. (\d+) passed", out))
    res["suite_passed"] = npass
    shutil.copy(os.path.join(d, "demo.rs"), os.path.join(WT, "tests", "seed_demo.rs"))
    rc2, out2, t2 = run(["cargo", "test", "--offline", "--test", "seed_demo"], timeout=600)
    res["demo_with_patch"] = {"exit": rc2, "summary": summary(out2), "s": t2}
    subprocess.check_call(["git", "-C", WT, "checkout", "-q", "--", "."])
    rc3, out3, t3 = run(["cargo", "test", "--offline", "--test", "seed_demo"], timeout=600)
    res["demo_without_patch"] = {"exit": rc3, "summary": summary(out3), "s": t3}
    # other feature configurations still build with the patch?
    subprocess.run(["git", "-C", WT, "apply", patch], capture_output=True)
    os.remove(os.path.join(WT, "tests", "seed_demo.rs"))
    b = {}
    for name, flags in (("alloc", ["--no-default-features", "--features", "alloc"]), ("core", ["--no-default-features"])):
        rc4, out4, t4 = run(["cargo", "check", "--offline", "--lib"] + flags)
        b[name] = rc4 == 0
    res["builds"] = b
    clean()
    res["confirmed"] = bool(rc == 0 and npass >= 87 and rc2 != 0 and rc3 == 0)
    json.dump(res, open(os.path.join(d, "confirm.json"), "w"), indent=1)
    print("%s confirmed=%s suite=%s(%d passed) demo_with=%s demo_without=%s builds=%s" % (d, res["confirmed"], rc, npass, rc2, rc3, b))
