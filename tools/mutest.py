#!/usr/bin/env python3
"""mutest.py [--props C01,C02] [--only substr] : apply each /verif/mutants/<prop>/*.diff to /repo, run ./check <prop>, restore.
Reports whether the expected rule fired (fault) or the check stayed silent (benign)."""
import glob, os, subprocess, sys
args = sys.argv[1:]
props = None
only = None
if "--props" in args:
    props = args[args.index("--props")+1].split(",")
if "--only" in args:
    only = args[args.index("--only")+1]
ok = True
clean = subprocess.check_output(["git", "-C", "/repo", "status", "--porcelain", "--untracked-files=no"], text=True).strip()
if clean:
    print("refusing: /repo has local changes"); sys.exit(2)
for d in sorted(glob.glob("/verif/mutants/*/*.diff")):
    prop = os.path.basename(os.path.dirname(d))
    if props and prop not in props: continue
    if only and only not in d: continue
    head = open(d).readline().strip()
    benign = head.startswith("# benign")
    expect = head.split("expect:")[1].strip() if "expect:" in head else None
    r = subprocess.run(["git", "-C", "/repo", "apply", d], capture_output=True, text=True)
    if r.returncode != 0:
        print("SKIP (does not apply)", d); continue
    try:
        run_props = [prop] if not benign else ([prop] if prop != "benign" else (props or []))
        for pr in run_props:
            c = subprocess.run(["/verif/check", pr], capture_output=True, text=True, cwd="/verif",
                               env=dict(os.environ, VERIF_EVIDENCE_DIR="/tmp/mutest-evidence"))
            fired = [l for l in c.stdout.splitlines() if " | " in l and l.strip().startswith(("src/", "/"))]
            rules = sorted({l.split("] ")[1].split(" | ")[0] for l in fired if "] " in l})
            if benign:
                good = c.returncode == 0
                print("%s %-60s %s exit=%d %s" % ("ok  " if good else "FAIL", os.path.relpath(d, "/verif/mutants"), "benign", c.returncode, rules))
            else:
                good = c.returncode == 1 and (expect in (None, "None") or any(r == expect or r.startswith(expect) for r in rules))
                print("%s %-60s expect=%s exit=%d fired=%s" % ("ok  " if good else "FAIL", os.path.relpath(d, "/verif/mutants"), expect, c.returncode, rules))
            if not good:
                ok = False
                if "-v" in args: print(c.stdout[-3000:])
    finally:
        subprocess.check_call(["git", "-C", "/repo", "checkout", "--", "."])
sys.exit(0 if ok else 3)
