use futures_concurrency::prelude::*;
use futures_lite::StreamExt;
fn main() {
    futures_lite::future::block_on(async {
        let empty: [futures_lite::stream::Pending<u8>; 0] = [];
        let mut m = empty.merge();
        assert_eq!(m.next().await, None);
        let v: Vec<futures_lite::stream::Pending<u8>> = vec![];
        let mut m = v.merge();
        assert_eq!(m.next().await, None);
        println!("merge-empty ok");
        let out: Vec<i32> = vec![1, 2, 3].into_co_stream().take(0).collect().await;
        println!("take0 = {:?}", out);
        let out: Vec<i32> = vec![1, 2, 3].into_co_stream().take(2).collect().await;
        println!("take2 = {:?}", out);
    });
}
