#!/bin/sh
# Build the fact extractor and pre-warm the dependency builds + fact caches (offline).
set -e
cd "$(dirname "$0")"
export CARGO_NET_OFFLINE=true
(cd driver && cargo build --release --offline)
python3 -m engine.facts std alloc core std-rel
if [ -d witness ]; then
  python3 -m engine.witness --prewarm || true
fi
