// mirfacts: rustc_private fact extractor for the futures-concurrency static checks.
//
// Used as RUSTC_WORKSPACE_WRAPPER under `cargo +nightly check`.  For the crate named in
// MIRFACTS_CRATE (default futures_concurrency) it overrides the `mir_borrowck` query, dumps the
// pre-borrowck MIR (`mir_promoted`) of every body (fns, methods, closures, coroutines, consts)
// as one JSON document to MIRFACTS_OUT, and then delegates to the default provider.  For any
// other crate it behaves exactly like rustc.
#![feature(rustc_private)]

extern crate rustc_abi;
extern crate rustc_driver;
extern crate rustc_hir;
extern crate rustc_interface;
extern crate rustc_middle;
extern crate rustc_session;
extern crate rustc_span;

use std::cell::RefCell;
use std::collections::HashMap;
use std::fmt::Write as _;

use rustc_driver::{Callbacks, Compilation};
use rustc_hir::def::DefKind;
use rustc_hir::def_id::{DefId, LocalDefId};
use rustc_interface::interface::{Compiler, Config};
use rustc_middle::mir::{
    self, AggregateKind, BasicBlock, Body, BorrowKind, CastKind, Const, Operand, Place, PlaceElem,
    Rvalue, StatementKind, TerminatorKind, UnwindAction,
};
use rustc_middle::ty::{self, GenericArgKind, GenericArgsRef, Instance, Ty, TyCtxt, TypeVisitableExt};
use rustc_span::Span;

// ------------------------------------------------------------------------------------------
// tiny JSON helpers
// ------------------------------------------------------------------------------------------

fn jstr(s: &str) -> String {
    let mut o = String::with_capacity(s.len() + 2);
    o.push('"');
    for c in s.chars() {
        match c {
            '"' => o.push_str("\\\""),
            '\\' => o.push_str("\\\\"),
            '\n' => o.push_str("\\n"),
            '\r' => o.push_str("\\r"),
            '\t' => o.push_str("\\t"),
            c if (c as u32) < 0x20 => {
                let _ = write!(o, "\\u{:04x}", c as u32);
            }
            c => o.push(c),
        }
    }
    o.push('"');
    o
}

fn jopt(s: Option<String>) -> String {
    match s {
        Some(s) => s,
        None => "null".to_string(),
    }
}

fn jarr(items: impl IntoIterator<Item = String>) -> String {
    let v: Vec<String> = items.into_iter().collect();
    format!("[{}]", v.join(","))
}

// ------------------------------------------------------------------------------------------
// global state collected across query invocations (single threaded front-end)
// ------------------------------------------------------------------------------------------

#[derive(Default)]
struct State {
    types: Vec<String>,
    type_ix: HashMap<String, usize>, // keyed by debug string of the Ty (interned pointer is not stable to hash here)
    bodies: Vec<String>,
    seen: std::collections::HashSet<String>,
}

thread_local! {
    static STATE: RefCell<State> = RefCell::new(State::default());
}

struct Cx<'tcx> {
    tcx: TyCtxt<'tcx>,
}

impl<'tcx> Cx<'tcx> {
    fn path(&self, did: DefId) -> String {
        self.tcx.def_path_str(did)
    }

    /// Canonical path: crate name + definition path, independent of re-exports / visible paths.
    fn cpath(&self, did: DefId) -> String {
        format!("{}{}", self.tcx.crate_name(did.krate), self.tcx.def_path(did).to_string_no_crate_verbose())
    }

    fn generic_args(&self, args: GenericArgsRef<'tcx>) -> String {
        jarr(args.iter().map(|a| match a.kind() {
            GenericArgKind::Type(t) => format!("{}", self.ty(t)),
            GenericArgKind::Const(c) => format!("{{\"const\":{}}}", jstr(&format!("{}", c))),
            GenericArgKind::Lifetime(_) => "\"'_\"".to_string(),
        }))
    }

    /// Intern a type, returning its index in the `types` table.
    fn ty(&self, t: Ty<'tcx>) -> usize {
        let key = format!("{:?}", t);
        if let Some(ix) = STATE.with(|s| s.borrow().type_ix.get(&key).copied()) {
            return ix;
        }
        // reserve the slot first (recursive types through ADT args are finite, but be safe)
        let ix = STATE.with(|s| {
            let mut s = s.borrow_mut();
            let ix = s.types.len();
            s.types.push(String::new());
            s.type_ix.insert(key.clone(), ix);
            ix
        });
        let disp = format!("{}", t);
        let body = match t.kind() {
            ty::Param(p) => format!("\"k\":\"param\",\"name\":{},\"idx\":{}", jstr(p.name.as_str()), p.index),
            ty::Adt(def, args) => format!(
                "\"k\":\"adt\",\"path\":{},\"cpath\":{},\"local\":{},\"args\":{}",
                jstr(&self.path(def.did())),
                jstr(&self.cpath(def.did())),
                def.did().is_local(),
                self.generic_args(args)
            ),
            ty::Ref(_, inner, m) => format!("\"k\":\"ref\",\"mut\":{},\"ty\":{}", m.is_mut(), self.ty(*inner)),
            ty::RawPtr(inner, m) => format!("\"k\":\"ptr\",\"mut\":{},\"ty\":{}", m.is_mut(), self.ty(*inner)),
            ty::Tuple(tys) => format!("\"k\":\"tuple\",\"tys\":{}", jarr(tys.iter().map(|t| self.ty(t).to_string()))),
            ty::Array(inner, len) => format!(
                "\"k\":\"array\",\"ty\":{},\"len\":{}",
                self.ty(*inner),
                jstr(&format!("{}", len))
            ),
            ty::Slice(inner) => format!("\"k\":\"slice\",\"ty\":{}", self.ty(*inner)),
            ty::Alias(al) => {
                let did = al.kind.def_id();
                let akind = format!("{:?}", al.kind);
                let akind = akind.split(|c: char| !c.is_alphanumeric()).next().unwrap_or("").to_string();
                format!(
                    "\"k\":\"alias\",\"akind\":{},\"def\":{},\"cdef\":{},\"name\":{},\"args\":{}",
                    jstr(&akind),
                    jstr(&self.path(did)),
                    jstr(&self.cpath(did)),
                    jstr(self.tcx.opt_item_name(did).map(|s| s.to_string()).unwrap_or_default().as_str()),
                    self.generic_args(al.args)
                )
            }
            ty::FnDef(did, args) => format!(
                "\"k\":\"fndef\",\"path\":{},\"cpath\":{},\"args\":{}",
                jstr(&self.path(*did)),
                jstr(&self.cpath(*did)),
                self.generic_args(args)
            ),
            ty::Closure(did, _) => format!("\"k\":\"closure\",\"path\":{},\"cpath\":{}", jstr(&self.path(*did)), jstr(&self.cpath(*did))),
            ty::Coroutine(did, _) => format!("\"k\":\"coroutine\",\"path\":{},\"cpath\":{}", jstr(&self.path(*did)), jstr(&self.cpath(*did))),
            ty::CoroutineClosure(did, _) => format!("\"k\":\"coroutine_closure\",\"path\":{}", jstr(&self.path(*did))),
            ty::Bool | ty::Char | ty::Int(_) | ty::Uint(_) | ty::Float(_) | ty::Str => {
                format!("\"k\":\"prim\",\"name\":{}", jstr(&disp))
            }
            ty::Never => "\"k\":\"never\"".to_string(),
            ty::Dynamic(..) => "\"k\":\"dyn\"".to_string(),
            ty::FnPtr(..) => "\"k\":\"fnptr\"".to_string(),
            _ => "\"k\":\"other\"".to_string(),
        };
        let full = format!("{{{},\"s\":{}}}", body, jstr(&disp));
        STATE.with(|s| s.borrow_mut().types[ix] = full);
        ix
    }

    fn span(&self, sp: Span) -> String {
        let sm = self.tcx.sess.source_map();
        // Use the call-site of the outermost expansion for file:line so that reports point into
        // the user-visible source; keep the innermost line as well.
        let lo = sm.lookup_char_pos(sp.lo());
        let file = match &lo.file.name {
            rustc_span::FileName::Real(r) => r
                .local_path()
                .map(|p| p.display().to_string())
                .unwrap_or_else(|| format!("{:?}", lo.file.name)),
            other => format!("{:?}", other),
        };
        format!("{}:{}", file, lo.line)
    }

    fn macro_name(&self, sp: Span) -> Option<String> {
        if sp.from_expansion() {
            let ed = sp.ctxt().outer_expn_data();
            Some(format!("{}", ed.kind.descr()))
        } else {
            None
        }
    }

    // ---------------------------------------------------------------- places and operands

    fn place(&self, body: &Body<'tcx>, p: &Place<'tcx>) -> String {
        let mut projs: Vec<String> = Vec::new();
        for (i, elem) in p.projection.iter().enumerate() {
            let base_ty = Place::ty_from(p.local, &p.projection[..i], &body.local_decls, self.tcx);
            let s = match elem {
                PlaceElem::Deref => "\"*\"".to_string(),
                PlaceElem::Field(f, fty) => {
                    let mut name: Option<String> = None;
                    let mut adt: Option<String> = None;
                    if let ty::Adt(def, _) = base_ty.ty.kind() {
                        adt = Some(self.cpath(def.did()));
                        let vidx = base_ty.variant_index.unwrap_or(rustc_abi::FIRST_VARIANT);
                        if def.variants().len() > vidx.as_usize() {
                            let v = def.variant(vidx);
                            if v.fields.len() > f.as_usize() {
                                name = Some(v.fields[f].name.to_string());
                            }
                        }
                    }
                    format!(
                        "{{\"f\":{},\"name\":{},\"ty\":{},\"adt\":{}}}",
                        f.as_usize(),
                        jopt(name.map(|n| jstr(&n))),
                        self.ty(fty),
                        jopt(adt.map(|n| jstr(&n)))
                    )
                }
                PlaceElem::Index(l) => format!("{{\"i\":{}}}", l.as_usize()),
                PlaceElem::ConstantIndex { offset, from_end, .. } => {
                    format!("{{\"ci\":{},\"from_end\":{}}}", offset, from_end)
                }
                PlaceElem::Subslice { from, to, from_end } => {
                    format!("{{\"sub\":[{},{}],\"from_end\":{}}}", from, to, from_end)
                }
                PlaceElem::Downcast(name, v) => format!(
                    "{{\"dc\":{},\"name\":{}}}",
                    v.as_usize(),
                    jopt(name.map(|n| jstr(n.as_str())))
                ),
                PlaceElem::OpaqueCast(_) => "\"opaque_cast\"".to_string(),
                PlaceElem::UnwrapUnsafeBinder(_) => "\"unwrap_binder\"".to_string(),
            };
            projs.push(s);
        }
        format!("{{\"l\":{},\"p\":[{}]}}", p.local.as_usize(), projs.join(","))
    }

    fn constant(&self, owner: DefId, c: &mir::ConstOperand<'tcx>) -> String {
        let ty = c.const_.ty();
        let mut extra = String::new();
        match ty.kind() {
            ty::FnDef(did, args) => {
                let _ = write!(extra, ",\"fn\":{}", self.callee(owner, *did, args));
            }
            ty::Closure(did, _) | ty::Coroutine(did, _) => {
                let _ = write!(extra, ",\"closure\":{}", jstr(&self.path(*did)));
            }
            _ => {}
        }
        // evaluated scalar value, when the constant does not depend on generic parameters
        let mut val: Option<String> = None;
        let mut sym: Option<String> = None;
        match c.const_ {
            Const::Unevaluated(uv, _) => {
                if uv.promoted.is_some() {
                    sym = Some("promoted".to_string());
                } else {
                    sym = Some(self.path(uv.def));
                }
            }
            Const::Ty(_, ct) => {
                if let ty::ConstKind::Param(p) = ct.kind() {
                    sym = Some(p.name.to_string());
                } else if let ty::ConstKind::Unevaluated(uv) = ct.kind() {
                    sym = Some(self.path(uv.def));
                }
            }
            Const::Val(..) => {}
        }
        let scalar_ty = matches!(ty.kind(), ty::Bool | ty::Int(_) | ty::Uint(_) | ty::Char);
        if scalar_ty && !c.const_.has_non_region_param() {
            let is_promoted = matches!(c.const_, Const::Unevaluated(uv, _) if uv.promoted.is_some());
            if !is_promoted {
                let env = ty::TypingEnv::post_analysis(self.tcx, owner);
                if let Some(si) = c.const_.try_eval_scalar_int(self.tcx, env) {
                    let bits = si.to_bits(si.size());
                    let signed = matches!(ty.kind(), ty::Int(_));
                    if signed {
                        let sz = si.size().bits();
                        let v = if sz == 128 { bits as i128 } else {
                            let shift = 128 - sz;
                            ((bits << shift) as i128) >> shift
                        };
                        val = Some(v.to_string());
                    } else {
                        val = Some(bits.to_string());
                    }
                }
            }
        }
        format!(
            "{{\"c\":{{\"ty\":{},\"v\":{},\"sym\":{},\"s\":{}{}}}}}",
            self.ty(ty),
            jopt(val),
            jopt(sym.map(|s| jstr(&s))),
            jstr(&format!("{}", c.const_)),
            extra
        )
    }

    fn operand(&self, owner: DefId, body: &Body<'tcx>, op: &Operand<'tcx>) -> String {
        match op {
            Operand::Copy(p) => format!("{{\"cp\":{}}}", self.place(body, p)),
            Operand::Move(p) => format!("{{\"mv\":{}}}", self.place(body, p)),
            Operand::Constant(c) => self.constant(owner, c),
            #[allow(unreachable_patterns)]
            _ => "{\"other\":true}".to_string(),
        }
    }

    /// Describe a callee: path, trait + method when it is a trait method, Self type, generic
    /// args, and the resolved instance when resolution succeeds.
    fn callee(&self, owner: DefId, did: DefId, args: GenericArgsRef<'tcx>) -> String {
        let tcx = self.tcx;
        let path = self.path(did);
        let name = tcx.opt_item_name(did).map(|s| s.to_string()).unwrap_or_default();
        let mut tr: Option<String> = None;
        let mut tr_c: Option<String> = None;
        let mut self_ty: Option<usize> = None;
        if let Some(t) = tcx.trait_of_assoc(did) {
            tr = Some(self.path(t));
            tr_c = Some(self.cpath(t));
            if !args.is_empty() {
                if let Some(t0) = args.get(0).and_then(|a| a.as_type()) {
                    self_ty = Some(self.ty(t0));
                }
            }
        }
        let mut impl_self: Option<usize> = None;
        if let Some(imp) = tcx.impl_of_assoc(did) {
            let st = tcx.type_of(imp).instantiate_identity().skip_norm_wip();
            impl_self = Some(self.ty(st));
        }
        let mut resolved: Option<String> = None;
        let mut resolved_c: Option<String> = None;
        let mut resolved_local = false;
        let mut resolved_impl_self: Option<usize> = None;
        let kind_ok = matches!(tcx.def_kind(did), DefKind::Fn | DefKind::AssocFn | DefKind::Ctor(..) | DefKind::Closure);
        if kind_ok && !args.has_infer() && !args.has_escaping_bound_vars() {
            let env = ty::TypingEnv::post_analysis(tcx, owner);
            let r = std::panic::catch_unwind(std::panic::AssertUnwindSafe(|| Instance::try_resolve(tcx, env, did, args)));
            if let Ok(Ok(Some(inst))) = r {
                let rd = inst.def_id();
                resolved = Some(self.path(rd));
                resolved_c = Some(self.cpath(rd));
                resolved_local = rd.is_local();
                if let Some(imp) = tcx.impl_of_assoc(rd) {
                    let st = tcx.type_of(imp).instantiate_identity().skip_norm_wip();
                    resolved_impl_self = Some(self.ty(st));
                }
            }
        }
        format!(
            "{{\"path\":{},\"cpath\":{},\"name\":{},\"local\":{},\"trait\":{},\"trait_c\":{},\"self_ty\":{},\"impl_self\":{},\"args\":{},\"resolved\":{},\"resolved_c\":{},\"resolved_local\":{},\"resolved_impl_self\":{}}}",
            jstr(&path),
            jstr(&self.cpath(did)),
            jstr(&name),
            did.is_local(),
            jopt(tr.map(|s| jstr(&s))),
            jopt(tr_c.map(|s| jstr(&s))),
            jopt(self_ty.map(|i| i.to_string())),
            jopt(impl_self.map(|i| i.to_string())),
            self.generic_args(args),
            jopt(resolved.map(|s| jstr(&s))),
            jopt(resolved_c.map(|s| jstr(&s))),
            resolved_local,
            jopt(resolved_impl_self.map(|i| i.to_string())),
        )
    }

    fn rvalue(&self, owner: DefId, body: &Body<'tcx>, rv: &Rvalue<'tcx>) -> String {
        match rv {
            Rvalue::Use(op, ..) => format!("{{\"k\":\"use\",\"op\":{}}}", self.operand(owner, body, op)),
            Rvalue::Repeat(op, n) => format!(
                "{{\"k\":\"repeat\",\"op\":{},\"n\":{}}}",
                self.operand(owner, body, op),
                jstr(&format!("{}", n))
            ),
            Rvalue::Ref(_, bk, p) => {
                let (m, kind) = match bk {
                    BorrowKind::Shared => (false, "shared"),
                    BorrowKind::Fake(_) => (false, "fake"),
                    BorrowKind::Mut { .. } => (true, "mut"),
                };
                format!("{{\"k\":\"ref\",\"mut\":{},\"bk\":\"{}\",\"place\":{}}}", m, kind, self.place(body, p))
            }
            Rvalue::RawPtr(k, p) => format!(
                "{{\"k\":\"rawptr\",\"mut\":{},\"place\":{}}}",
                matches!(k, mir::RawPtrKind::Mut),
                self.place(body, p)
            ),
            Rvalue::Cast(ck, op, t) => {
                let cks = match ck {
                    CastKind::Transmute => "Transmute".to_string(),
                    other => {
                        let s = format!("{:?}", other);
                        s.split(|c: char| !c.is_alphanumeric()).next().unwrap_or("").to_string()
                    }
                };
                format!(
                    "{{\"k\":\"cast\",\"ck\":{},\"op\":{},\"ty\":{}}}",
                    jstr(&cks),
                    self.operand(owner, body, op),
                    self.ty(*t)
                )
            }
            Rvalue::BinaryOp(op, ab) => format!(
                "{{\"k\":\"binop\",\"op\":{},\"a\":{},\"b\":{}}}",
                jstr(&format!("{:?}", op)),
                self.operand(owner, body, &ab.0),
                self.operand(owner, body, &ab.1)
            ),
            Rvalue::UnaryOp(op, a) => format!(
                "{{\"k\":\"unop\",\"op\":{},\"a\":{}}}",
                jstr(&format!("{:?}", op)),
                self.operand(owner, body, a)
            ),
            Rvalue::Discriminant(p) => {
                let pty = p.ty(&body.local_decls, self.tcx).ty;
                let mut extra = String::new();
                if let ty::Adt(def, _) = pty.kind() {
                    if def.is_enum() {
                        let vs = jarr(def.discriminants(self.tcx).map(|(vi, d)| {
                            format!("[{},{}]", jstr(def.variant(vi).name.as_str()), d.val)
                        }));
                        let _ = write!(extra, ",\"adt\":{},\"variants\":{}", jstr(&self.cpath(def.did())), vs);
                    }
                }
                format!("{{\"k\":\"discr\",\"place\":{}{}}}", self.place(body, p), extra)
            }
            Rvalue::Aggregate(kind, fields) => {
                let k = match &**kind {
                    AggregateKind::Array(t) => format!("\"ak\":\"array\",\"ty\":{}", self.ty(*t)),
                    AggregateKind::Tuple => "\"ak\":\"tuple\"".to_string(),
                    AggregateKind::Adt(did, vidx, args, _, active) => {
                        let def = self.tcx.adt_def(*did);
                        let v = def.variant(*vidx);
                        let fnames = jarr(v.fields.iter().map(|f| jstr(f.name.as_str())));
                        format!(
                            "\"ak\":\"adt\",\"path\":{},\"cpath\":{},\"local\":{},\"variant\":{},\"vname\":{},\"fnames\":{},\"args\":{},\"active\":{}",
                            jstr(&self.path(*did)),
                            jstr(&self.cpath(*did)),
                            did.is_local(),
                            vidx.as_usize(),
                            jstr(v.name.as_str()),
                            fnames,
                            self.generic_args(args),
                            jopt(active.map(|f| f.as_usize().to_string()))
                        )
                    }
                    AggregateKind::Closure(did, _) => format!("\"ak\":\"closure\",\"path\":{},\"cpath\":{}", jstr(&self.path(*did)), jstr(&self.cpath(*did))),
                    AggregateKind::Coroutine(did, _) => format!("\"ak\":\"coroutine\",\"path\":{},\"cpath\":{}", jstr(&self.path(*did)), jstr(&self.cpath(*did))),
                    AggregateKind::CoroutineClosure(did, _) => {
                        format!("\"ak\":\"coroutine_closure\",\"path\":{}", jstr(&self.path(*did)))
                    }
                    AggregateKind::RawPtr(..) => "\"ak\":\"rawptr\"".to_string(),
                };
                format!(
                    "{{\"k\":\"agg\",{},\"fields\":{}}}",
                    k,
                    jarr(fields.iter().map(|f| self.operand(owner, body, f)))
                )
            }
            Rvalue::CopyForDeref(p) => format!("{{\"k\":\"use\",\"op\":{{\"cp\":{}}},\"cfd\":true}}", self.place(body, p)),
            Rvalue::ThreadLocalRef(did) => format!("{{\"k\":\"tls\",\"path\":{}}}", jstr(&self.path(*did))),
            Rvalue::WrapUnsafeBinder(op, _) => format!("{{\"k\":\"use\",\"op\":{}}}", self.operand(owner, body, op)),
            #[allow(unreachable_patterns)]
            other => format!("{{\"k\":\"other\",\"s\":{}}}", jstr(&format!("{:?}", other))),
        }
    }

    fn unwind(&self, u: &UnwindAction) -> String {
        match u {
            UnwindAction::Continue => "\"continue\"".to_string(),
            UnwindAction::Unreachable => "\"unreachable\"".to_string(),
            UnwindAction::Terminate(_) => "\"terminate\"".to_string(),
            UnwindAction::Cleanup(bb) => bb.as_usize().to_string(),
        }
    }

    fn bb(&self, b: Option<BasicBlock>) -> String {
        match b {
            Some(b) => b.as_usize().to_string(),
            None => "null".to_string(),
        }
    }

    fn terminator(&self, owner: DefId, body: &Body<'tcx>, t: &mir::Terminator<'tcx>) -> String {
        let sp = jstr(&self.span(t.source_info.span));
        let mac = jopt(self.macro_name(t.source_info.span).map(|m| jstr(&m)));
        let inner = match &t.kind {
            TerminatorKind::Goto { target } => format!("\"k\":\"goto\",\"t\":{}", target.as_usize()),
            TerminatorKind::SwitchInt { discr, targets } => {
                let vals = jarr(targets.iter().map(|(v, bb)| format!("[{},{}]", v, bb.as_usize())));
                format!(
                    "\"k\":\"switch\",\"op\":{},\"vals\":{},\"otherwise\":{}",
                    self.operand(owner, body, discr),
                    vals,
                    targets.otherwise().as_usize()
                )
            }
            TerminatorKind::UnwindResume => "\"k\":\"resume\"".to_string(),
            TerminatorKind::UnwindTerminate(_) => "\"k\":\"terminate\"".to_string(),
            TerminatorKind::Return => "\"k\":\"return\"".to_string(),
            TerminatorKind::Unreachable => "\"k\":\"unreachable\"".to_string(),
            TerminatorKind::Drop { place, target, unwind, .. } => format!(
                "\"k\":\"drop\",\"place\":{},\"t\":{},\"unwind\":{}",
                self.place(body, place),
                target.as_usize(),
                self.unwind(unwind)
            ),
            TerminatorKind::Call { func, args, destination, target, unwind, .. } => {
                let f = match func {
                    Operand::Constant(c) => match c.const_.ty().kind() {
                        ty::FnDef(did, ga) => self.callee(owner, *did, ga),
                        _ => format!("{{\"indirect\":{}}}", self.operand(owner, body, func)),
                    },
                    _ => format!("{{\"indirect\":{}}}", self.operand(owner, body, func)),
                };
                format!(
                    "\"k\":\"call\",\"func\":{},\"args\":{},\"dest\":{},\"t\":{},\"unwind\":{}",
                    f,
                    jarr(args.iter().map(|a| self.operand(owner, body, &a.node))),
                    self.place(body, destination),
                    self.bb(*target),
                    self.unwind(unwind)
                )
            }
            TerminatorKind::TailCall { func, args, .. } => format!(
                "\"k\":\"tailcall\",\"func\":{},\"args\":{}",
                self.operand(owner, body, func),
                jarr(args.iter().map(|a| self.operand(owner, body, &a.node)))
            ),
            TerminatorKind::Assert { cond, expected, target, unwind, msg } => {
                let m = format!("{:?}", msg);
                let mk = m.split(|c: char| !c.is_alphanumeric()).next().unwrap_or("").to_string();
                format!(
                    "\"k\":\"assert\",\"cond\":{},\"expected\":{},\"t\":{},\"unwind\":{},\"msg\":{}",
                    self.operand(owner, body, cond),
                    expected,
                    target.as_usize(),
                    self.unwind(unwind),
                    jstr(&mk)
                )
            }
            TerminatorKind::Yield { value, resume, resume_arg, drop } => format!(
                "\"k\":\"yield\",\"value\":{},\"t\":{},\"resume_arg\":{},\"drop\":{}",
                self.operand(owner, body, value),
                resume.as_usize(),
                self.place(body, resume_arg),
                self.bb(*drop)
            ),
            TerminatorKind::CoroutineDrop => "\"k\":\"coroutine_drop\"".to_string(),
            TerminatorKind::FalseEdge { real_target, imaginary_target } => format!(
                "\"k\":\"falseedge\",\"t\":{},\"imag\":{}",
                real_target.as_usize(),
                imaginary_target.as_usize()
            ),
            TerminatorKind::FalseUnwind { real_target, unwind } => format!(
                "\"k\":\"falseunwind\",\"t\":{},\"unwind\":{}",
                real_target.as_usize(),
                self.unwind(unwind)
            ),
            TerminatorKind::InlineAsm { .. } => "\"k\":\"asm\"".to_string(),
        };
        format!("{{{},\"sp\":{},\"mac\":{}}}", inner, sp, mac)
    }

    fn statement(&self, owner: DefId, body: &Body<'tcx>, s: &mir::Statement<'tcx>) -> Option<String> {
        let sp = jstr(&self.span(s.source_info.span));
        match &s.kind {
            StatementKind::Assign(b) => {
                let (lhs, rv) = &**b;
                Some(format!(
                    "{{\"k\":\"assign\",\"lhs\":{},\"rv\":{},\"sp\":{}}}",
                    self.place(body, lhs),
                    self.rvalue(owner, body, rv),
                    sp
                ))
            }
            StatementKind::SetDiscriminant { place, variant_index } => Some(format!(
                "{{\"k\":\"setdiscr\",\"place\":{},\"variant\":{},\"sp\":{}}}",
                self.place(body, place),
                variant_index.as_usize(),
                sp
            )),
            StatementKind::StorageLive(l) => Some(format!("{{\"k\":\"live\",\"l\":{}}}", l.as_usize())),
            StatementKind::StorageDead(l) => Some(format!("{{\"k\":\"dead\",\"l\":{}}}", l.as_usize())),
            StatementKind::Intrinsic(i) => Some(format!("{{\"k\":\"intrinsic\",\"s\":{},\"sp\":{}}}", jstr(&format!("{:?}", i)), sp)),
            _ => None,
        }
    }

    fn body(&self, def: LocalDefId, body: &Body<'tcx>) -> String {
        let tcx = self.tcx;
        let did = def.to_def_id();
        let kind = format!("{:?}", tcx.def_kind(did));
        let kind = kind.split(|c: char| !c.is_alphanumeric()).next().unwrap_or("").to_string();
        let root = tcx.typeck_root_def_id(did);
        let name = tcx.opt_item_name(did).map(|s| s.to_string()).unwrap_or_default();
        // the item that carries impl/trait information is the typeck root (for closures/coroutines)
        let mut impl_def: Option<String> = None;
        let mut impl_trait: Option<String> = None;
        let mut impl_trait_c: Option<String> = None;
        let mut impl_self: Option<usize> = None;
        if let Some(imp) = tcx.impl_of_assoc(root) {
            impl_def = Some(self.cpath(imp));
            if let Some(tr) = tcx.impl_opt_trait_ref(imp) {
                impl_trait = Some(self.path(tr.skip_binder().def_id));
                impl_trait_c = Some(self.cpath(tr.skip_binder().def_id));
            }
            impl_self = Some(self.ty(tcx.type_of(imp).instantiate_identity().skip_norm_wip()));
        }
        let trait_def: Option<String> = tcx.trait_of_assoc(root).map(|t| self.path(t));
        let root_name = tcx.opt_item_name(root).map(|s| s.to_string()).unwrap_or_default();
        let coroutine_kind = tcx.coroutine_kind(did).map(|k| format!("{:?}", k));

        // user variable names
        let mut names: HashMap<usize, String> = HashMap::new();
        for vdi in &body.var_debug_info {
            if let mir::VarDebugInfoContents::Place(p) = &vdi.value {
                if p.projection.is_empty() {
                    names.entry(p.local.as_usize()).or_insert_with(|| vdi.name.to_string());
                }
            }
        }
        let locals = jarr(body.local_decls.iter_enumerated().map(|(l, d)| {
            format!(
                "{{\"ty\":{},\"name\":{},\"user\":{}}}",
                self.ty(d.ty),
                jopt(names.get(&l.as_usize()).map(|n| jstr(n))),
                d.is_user_variable()
            )
        }));
        let blocks = jarr(body.basic_blocks.iter().map(|bb| {
            let stmts = jarr(bb.statements.iter().filter_map(|s| self.statement(did, body, s)));
            format!(
                "{{\"cleanup\":{},\"stmts\":{},\"term\":{}}}",
                bb.is_cleanup,
                stmts,
                self.terminator(did, body, bb.terminator())
            )
        }));
        // upvar / coroutine captured types are in local 1's type (closure env); nothing special here.
        format!(
            "{{\"def\":{},\"cdef\":{},\"kind\":{},\"name\":{},\"root\":{},\"root_name\":{},\"impl\":{},\"impl_trait\":{},\"impl_trait_c\":{},\"impl_self\":{},\"trait_def\":{},\"coroutine_kind\":{},\"span\":{},\"mac\":{},\"argc\":{},\"locals\":{},\"blocks\":{}}}",
            jstr(&self.path(did)),
            jstr(&self.cpath(did)),
            jstr(&kind),
            jstr(&name),
            jstr(&self.path(root)),
            jstr(&root_name),
            jopt(impl_def.map(|s| jstr(&s))),
            jopt(impl_trait.map(|s| jstr(&s))),
            jopt(impl_trait_c.map(|s| jstr(&s))),
            jopt(impl_self.map(|i| i.to_string())),
            jopt(trait_def.map(|s| jstr(&s))),
            jopt(coroutine_kind.map(|s| jstr(&s))),
            jstr(&self.span(body.span)),
            jopt(self.macro_name(body.span).map(|m| jstr(&m))),
            body.arg_count,
            locals,
            blocks
        )
    }
}

// ------------------------------------------------------------------------------------------
// query override
// ------------------------------------------------------------------------------------------

fn dump_one<'tcx>(tcx: TyCtxt<'tcx>, def: LocalDefId) {
    let key = tcx.def_path_str(def.to_def_id());
    let fresh = STATE.with(|s| s.borrow_mut().seen.insert(format!("{:?}", def)));
    if !fresh {
        return;
    }
    let cx = Cx { tcx };
    let (body_steal, _promoted) = tcx.mir_promoted(def);
    if body_steal.is_stolen() {
        eprintln!("mirfacts: WARNING body already stolen: {}", key);
        return;
    }
    let body = body_steal.borrow();
    let js = cx.body(def, &body);
    STATE.with(|s| s.borrow_mut().bodies.push(js));
}

fn hook<'tcx>(tcx: TyCtxt<'tcx>, def: LocalDefId) -> rustc_middle::queries::mir_borrowck::ProvidedValue<'tcx> {
    dump_one(tcx, def);
    for nested in tcx.nested_bodies_within(def) {
        dump_one(tcx, nested);
    }
    (rustc_interface::DEFAULT_QUERY_PROVIDERS.queries.mir_borrowck)(tcx, def)
}

struct Cb {
    out: String,
    config: String,
}

impl Callbacks for Cb {
    fn config(&mut self, config: &mut Config) {
        config.override_queries = Some(|_sess, providers| {
            providers.queries.mir_borrowck = hook;
        });
    }

    fn after_analysis<'tcx>(&mut self, _compiler: &Compiler, tcx: TyCtxt<'tcx>) -> Compilation {
        let cx = Cx { tcx };
        // make sure every body owner was borrow-checked (and therefore dumped)
        for def in tcx.hir_body_owners() {
            let root = tcx.typeck_root_def_id_local(def);
            let _ = tcx.mir_borrowck(root);
        }
        // ADT table
        let vis = tcx.effective_visibilities(());
        let mut adts: Vec<String> = Vec::new();
        let mut impls: Vec<String> = Vec::new();
        let items = tcx.hir_crate_items(());
        for id in items.definitions() {
            let did = id.to_def_id();
            match tcx.def_kind(did) {
                DefKind::Struct | DefKind::Enum | DefKind::Union => {
                    let def = tcx.adt_def(did);
                    let generics = tcx.generics_of(did);
                    let gnames = jarr(generics.own_params.iter().map(|p| jstr(p.name.as_str())));
                    let variants = jarr(def.variants().iter().map(|v| {
                        let fields = jarr(v.fields.iter().map(|f| {
                            let fty = tcx.type_of(f.did).instantiate_identity().skip_norm_wip();
                            format!("{{\"name\":{},\"ty\":{}}}", jstr(f.name.as_str()), cx.ty(fty))
                        }));
                        format!("{{\"name\":{},\"fields\":{}}}", jstr(v.name.as_str()), fields)
                    }));
                    let sp = tcx.def_span(did);
                    // trait bounds on the ADT's own type parameters: [param name, trait path]
                    let mut bounds: Vec<String> = Vec::new();
                    for (clause, _) in tcx.predicates_of(did).predicates.iter() {
                        if let Some(tp) = clause.as_trait_clause() {
                            let tp = tp.skip_binder();
                            if let ty::Param(p) = tp.self_ty().kind() {
                                bounds.push(format!("[{},{}]", jstr(p.name.as_str()), jstr(&cx.cpath(tp.def_id()))));
                            }
                        }
                    }
                    adts.push(format!(
                        "{{\"bounds\":[{}],\"path\":{},\"cpath\":{},\"kind\":{},\"public\":{},\"generics\":{},\"variants\":{},\"span\":{},\"mac\":{},\"has_drop\":{}}}",
                        bounds.join(","),
                        jstr(&cx.path(did)),
                        jstr(&cx.cpath(did)),
                        jstr(&format!("{:?}", tcx.def_kind(did))),
                        vis.is_reachable(id),
                        gnames,
                        variants,
                        jstr(&cx.span(sp)),
                        jopt(cx.macro_name(sp).map(|m| jstr(&m))),
                        def.destructor(tcx).is_some()
                    ));
                }
                DefKind::Impl { of_trait } => {
                    let self_ty = tcx.type_of(did).instantiate_identity().skip_norm_wip();
                    let (tr, tr_args) = if of_trait {
                        let r = tcx.impl_trait_ref(did).instantiate_identity().skip_norm_wip();
                        (Some(cx.cpath(r.def_id)), cx.generic_args(r.args))
                    } else {
                        (None, "[]".to_string())
                    };
                    let mut its: Vec<String> = Vec::new();
                    for it in tcx.associated_items(did).in_definition_order() {
                        let mut tyix: Option<usize> = None;
                        if matches!(it.kind, ty::AssocKind::Type { .. }) {
                            let t = tcx.type_of(it.def_id).instantiate_identity().skip_norm_wip();
                            tyix = Some(cx.ty(t));
                        }
                        let kind = match it.kind {
                            ty::AssocKind::Type { .. } => "type",
                            ty::AssocKind::Fn { .. } => "fn",
                            ty::AssocKind::Const { .. } => "const",
                        };
                        its.push(format!(
                            "{{\"name\":{},\"kind\":\"{}\",\"def\":{},\"ty\":{}}}",
                            jstr(it.opt_name().map(|n| n.to_string()).unwrap_or_default().as_str()),
                            kind,
                            jstr(&cx.cpath(it.def_id)),
                            jopt(tyix.map(|i| i.to_string()))
                        ));
                    }
                    let sp = tcx.def_span(did);
                    impls.push(format!(
                        "{{\"def\":{},\"trait\":{},\"trait_args\":{},\"self_ty\":{},\"items\":{},\"span\":{},\"mac\":{}}}",
                        jstr(&cx.cpath(did)),
                        jopt(tr.map(|s| jstr(&s))),
                        tr_args,
                        cx.ty(self_ty),
                        jarr(its),
                        jstr(&cx.span(sp)),
                        jopt(cx.macro_name(sp).map(|m| jstr(&m)))
                    ));
                }
                _ => {}
            }
        }
        let (types, bodies) = STATE.with(|s| {
            let s = s.borrow();
            (s.types.clone(), s.bodies.clone())
        });
        let doc = format!(
            "{{\"crate\":{},\"config\":{},\"pid\":{},\"types\":[{}],\"adts\":[{}],\"impls\":[{}],\"bodies\":[\n{}\n]}}\n",
            jstr(tcx.crate_name(rustc_hir::def_id::LOCAL_CRATE).as_str()),
            jstr(&self.config),
            std::process::id(),
            types.join(",\n"),
            adts.join(",\n"),
            impls.join(",\n"),
            bodies.join(",\n")
        );
        let tmp = format!("{}.tmp.{}", self.out, std::process::id());
        std::fs::write(&tmp, doc).expect("mirfacts: cannot write fact file");
        std::fs::rename(&tmp, &self.out).expect("mirfacts: cannot rename fact file");
        eprintln!(
            "mirfacts: wrote {} ({} bodies, {} types, {} adts, {} impls)",
            self.out,
            bodies.len(),
            types.len(),
            adts.len(),
            impls.len()
        );
        Compilation::Continue
    }
}

struct Plain;
impl Callbacks for Plain {}

fn main() {
    let mut args: Vec<String> = std::env::args().collect();
    // RUSTC_WORKSPACE_WRAPPER passes the real rustc path as argv[1]
    if args.len() > 1 && (args[1].ends_with("rustc") || args[1].contains("/rustc")) {
        args.remove(1);
    }
    let target = std::env::var("MIRFACTS_CRATE").unwrap_or_else(|_| "futures_concurrency".to_string());
    let mut crate_name: Option<String> = None;
    let mut is_lib_check = true;
    let mut i = 0;
    while i < args.len() {
        if args[i] == "--crate-name" && i + 1 < args.len() {
            crate_name = Some(args[i + 1].clone());
        }
        if args[i] == "--test" {
            is_lib_check = false;
        }
        i += 1;
    }
    let out = std::env::var("MIRFACTS_OUT").ok();
    let ours = crate_name.as_deref() == Some(target.as_str()) && is_lib_check && out.is_some();
    if ours {
        let mut cb = Cb {
            out: out.unwrap(),
            config: std::env::var("MIRFACTS_CONFIG").unwrap_or_default(),
        };
        rustc_driver::run_compiler(&args, &mut cb);
    } else {
        rustc_driver::run_compiler(&args, &mut Plain);
    }
}
